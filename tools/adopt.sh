#!/bin/bash
# adopt.sh C04 C17 ... : stage the files of finished property checks and regenerate MANIFEST.json
cd /verif
for P in "$@"; do
  grep -qx "$P" harness/adopted.txt || echo "$P" >> harness/adopted.txt
  p=$(echo $P | tr 'C' 'c')
  git add coq/theories/${P}_*.v harness/$p.py harness/claims/$P.json 2>/dev/null
  [ -d corpus/$P ] && git add corpus/$P
  [ -f evidence/$P.json ] && git add evidence/$P.json
  [ -f harness/translate_$p.py ] && git add harness/translate_$p.py
  ls coq/theories/Base/*.v | while read f; do git add $f; done
done
python3 harness/gen_manifest.py
python3-vt -c "
import json, jsonschema
m=json.load(open('/verif/MANIFEST.json')); jsonschema.validate(m, json.load(open('/root/.vp/MANIFEST.schema.json'))); print('manifest valid:', [c['property_id'] for c in m['checks']])"
git add MANIFEST.json harness/synth.py harness/adopted.txt harness/gen_manifest.py
