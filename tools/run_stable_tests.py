#!/usr/bin/env python3
"""Run exactly the stable_pass test ids of /root/.vp/BASELINE.json against a
checkout of highdicom (default /repo) and report which of them do not pass.

usage: run_stable_tests.py [repo_dir]
exit 0 iff all stable ids pass.
"""
import json, os, subprocess, sys, tempfile, xml.etree.ElementTree as ET

repo = os.path.abspath(sys.argv[1]) if len(sys.argv) > 1 else '/repo'
ids = json.load(open('/root/.vp/BASELINE.json'))['stable_pass']


def node(i):
    head, _, rest = i.partition('::')
    parts = head.split('.')
    f = '/'.join(parts[:2]) + '.py'
    cls = parts[2:]
    return '::'.join([f] + cls + [rest])


nodes = [node(i) for i in ids]
with tempfile.TemporaryDirectory() as td:
    xml = os.path.join(td, 'r.xml')
    env = dict(os.environ, PYTHONDONTWRITEBYTECODE='1',
               PYTHONPATH=os.path.join(repo, 'src'))
    cmd = ['/venv/bin/python', '-m', 'pytest', '-q', '-p', 'no:cacheprovider',
           '--timeout=120', '--junitxml=' + xml] + nodes
    p = subprocess.run(cmd, cwd=repo, env=env, stdout=subprocess.PIPE,
                       stderr=subprocess.STDOUT, text=True)
    passed = set()
    try:
        for tc in ET.parse(xml).getroot().iter('testcase'):
            ok = not any(ch.tag in ('failure', 'error', 'skipped') for ch in tc)
            if ok:
                passed.add(tc.get('classname') + '::' + tc.get('name'))
    except Exception:
        print(p.stdout[-3000:])
        raise
missing = [i for i in ids if i not in passed]
print(f'stable ids: {len(ids)}  passing now: {len(ids) - len(missing)}')
for m in missing[:40]:
    print('  NOT PASSING:', m)
if missing:
    print(p.stdout[-2000:])
sys.exit(1 if missing else 0)
