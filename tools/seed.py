#!/usr/bin/env python3
"""Confirm a seeded change and record it under /verif/seeded/<id>/.

usage: seed.py <PROP> <k> [--tier quick]      (reads /root/scratch/mut/<PROP>/m<k>.{diff,json}, m<k>_demo.py)
Confirms, in a scratch worktree of /repo (never /repo itself):
  demo exits 0 on the clean tree, 1 with the change; the 609 stable tests pass with the change;
then runs ./check <PROP> against the changed worktree and records whether it was caught.
"""
import json, os, shutil, subprocess, sys, time
prop, k = sys.argv[1], sys.argv[2]
tier = sys.argv[sys.argv.index('--tier') + 1] if '--tier' in sys.argv else 'quick'
src = f'/root/scratch/mut/{prop}'
wt = f'/tmp/wt/seed_{prop}_{k}'
def sh(cmd, **kw):
    return subprocess.run(cmd, shell=True, stdout=subprocess.PIPE, stderr=subprocess.STDOUT, text=True, **kw)
sh(f'git -C /repo worktree remove --force {wt}')
r = sh(f'git -C /repo worktree add --detach {wt}')
assert os.path.isdir(wt), r.stdout
env = dict(os.environ, PYTHONDONTWRITEBYTECODE='1')
try:
    demo = f'{src}/m{k}_demo.py'
    clean = sh(f'/venv/bin/python {demo} {wt}', env=env)
    ap = sh(f'git -C {wt} apply {src}/m{k}.diff')
    assert ap.returncode == 0, ap.stdout
    mut = sh(f'/venv/bin/python {demo} {wt}', env=env)
    st = sh(f'python3 /verif/tools/run_stable_tests.py {wt}')
    stable_ok = 'passing now: 609' in st.stdout
    t0 = time.time()
    chk = sh(f'cd /verif && VERIF_REPO={wt} VERIF_JOBS=8 ./check {prop} {tier}')
    caught = chk.returncode != 0 and 'VIOLATION property=' + prop in chk.stdout
    vline = next((l for l in chk.stdout.splitlines() if l.startswith('VIOLATION')), '')
    meta = json.load(open(f'{src}/m{k}.json')) if os.path.exists(f'{src}/m{k}.json') else {}
    meta.update({
        'property': prop, 'id': f'{prop}-m{k}',
        'confirmed': {'demo_exit_clean': clean.returncode, 'demo_exit_changed': mut.returncode,
                      'stable_609_pass_with_change': stable_ok},
        'ran': [f'/venv/bin/python m{k}_demo.py <worktree> (clean, changed)',
                'python3 /verif/tools/run_stable_tests.py <worktree>',
                f'VERIF_REPO=<worktree> ./check {prop} {tier}'],
        'check_result': {'tier': tier, 'caught': caught, 'violation_line': vline,
                         'no_failing_input_found': 'no-failing-input-found' in vline,
                         'summary': chk.stdout.strip().splitlines()[-1] if chk.stdout.strip() else '',
                         'wall_s': round(time.time() - t0, 1)},
    })
    valid = clean.returncode == 0 and mut.returncode == 1 and stable_ok
    meta['valid_seed'] = valid
    out = f'/verif/seeded/{prop}-m{k}'
    if valid:
        os.makedirs(out, exist_ok=True)
        shutil.copy(f'{src}/m{k}.diff', f'{out}/patch.diff')
        shutil.copy(demo, f'{out}/demo.py')
        json.dump(meta, open(f'{out}/meta.json', 'w'), indent=1)
    print(json.dumps({'id': meta['id'], 'valid': valid, 'caught': caught, 'clean': clean.returncode,
                      'changed': mut.returncode, 'stable': stable_ok, 'line': vline}))
    if not valid:
        print(clean.stdout[-500:], mut.stdout[-500:], st.stdout[-300:])
finally:
    sh(f'git -C /repo worktree remove --force {wt}')
