#!/usr/bin/env python3
"""strengthen_prompt.py <PROP> <seed-id> [<seed-id> ...]  -- prompt for a sub-agent that strengthens one check"""
import json, sys
pid = sys.argv[1]; seeds = sys.argv[2:]
desc = []
for s in seeds:
    m = json.load(open(f'/verif/seeded/{s}/meta.json'))
    desc.append(f"* {s}  (files: /verif/seeded/{s}/patch.diff, demo.py, meta.json)\n  what it does: {m['summary']}\n  needs to manifest: {m['needs_to_manifest']}")
print(f"""You maintain the verification of property {pid} of highdicom in /verif: a hand-written Gallina model with machine-checked theorems (Coq 8.16.1; /verif/coq/theories/{pid}_Model.v, {pid}_Proofs*.v, {pid}_Props.v) tied to the real code (/repo/src, read-only for you) by a correspondence harness (/verif/harness/c{pid[1:]}.py on top of /verif/harness/common.py) that runs model and implementation on generated cases and judges the implementation with an independent oracle. Read /verif/harness/BUILDING.md first (conventions and hard rules: no Axiom/Admitted/admit, every coqc under shell timeout, etc.), then the {pid} line of /verif/properties.jsonl, /verif/harness/claims/{pid}.json and /verif/harness/c{pid[1:]}.py.

PROBLEM: the following realistic regressions of highdicom (each breaks property {pid}, passes the existing unit tests, and needs something specific to manifest) were NOT detected by `./check {pid} quick`:

{chr(10).join(desc)}

TASK: strengthen the {pid} check so that each of them is reported with a concrete counterexample (VIOLATION line with a replay file), and so that the whole CLASS of regression each represents is covered — do NOT special-case the seeded change: add the missing dimension to the case generators (new strata / options / histories / memory layouts / API entry points), extend the observed outputs and the independent oracle accordingly, and, where the new behaviour belongs to what the property states, extend the Gallina model (run_* boundary functions) so that the new cases are also model-compared, adding or strengthening theorems in {pid}_Proofs*.v / {pid}_Props.v when the new dimension is something a theorem should cover (keep every `Print Assumptions` closed). New case kinds that are oracle-only (coq_term returns None) are acceptable when the behaviour is outside the model (e.g. memory layout of a numpy array, aliasing with caller-owned buffers), but say so in the claims file.

How to test (use `export VERIF_JOBS=6`, shared machine):
 * `cd /verif && python3 tools/reseed.py <seed-id>` creates a scratch worktree of /repo with the patch applied, runs `./check {pid} quick` against it and prints JSON with "caught": true/false (the seeded change is never applied to /repo itself). With `--confirm` it also re-runs the demo.
 * `cd /verif && ./check {pid} quick` on the unchanged /repo must still exit 0 with all obligations discharged, 0 disagreements, 0 oracle failures (no false alarm!). If your new cases expose a REAL defect of the unchanged code (the property is violated on /repo itself), do not hide it: minimise it, write a 10-line repro and report it in your final message (do not edit /repo).
 * Keep the quick run under ~100 s wall and all previously declared STRATA; add new kinds to STRATA.
 * Afterwards re-run two or three other seeds of this property (ls /verif/seeded | grep {pid}) with tools/reseed.py to make sure they are still caught.

Rules: edit only /verif/harness/c{pid[1:]}.py, /verif/harness/claims/{pid}.json (update text/note so it stays honest about what is proved vs exercised), /verif/coq/theories/{pid}_*.v, optionally NEW helper functions appended at the end of /verif/harness/synth.py and new /verif/corpus/{pid}/*.json minimal cases. Other people edit other properties' files concurrently; never touch them, never `git commit`, never edit /repo, never edit /verif/properties.jsonl. Evidence of runs against scratch worktrees goes to /verif/.work automatically.

Final message (<= 40 lines): what you added (strata, observations, model/theorem changes), result of tools/reseed.py for each seed above and for the regression seeds you re-ran, quick runtime on the clean tree, and any real defect found.""")
