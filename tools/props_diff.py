#!/usr/bin/env python3
"""props_diff.py <base-commit>  -- which property theorems of <base> are missing or have a changed statement now"""
import re, subprocess, sys, glob, os
base = sys.argv[1]
def thms(txt):
    txt = re.sub(r'\(\*.*?\*\)', '', txt, flags=re.S)
    out = {}
    for m in re.finditer(r'(?:Theorem|Example|Lemma|Corollary)\s+([A-Za-z0-9_\']+)\s*(.*?)\.\s*Proof\.', txt, flags=re.S):
        out[m.group(1)] = ' '.join(m.group(2).split())
    return out
for f in sorted(glob.glob('/verif/coq/theories/C*_Props.v')):
    rel = os.path.relpath(f, '/verif')
    old = subprocess.run(['git', '-C', '/verif', 'show', f'{base}:{rel}'], capture_output=True, text=True).stdout
    a, b = thms(old), thms(open(f).read())
    gone = [n for n in a if n not in b]
    changed = [n for n in a if n in b and a[n] != b[n]]
    print(os.path.basename(f), f'{len(a)} -> {len(b)}', 'REMOVED:' + ','.join(gone) if gone else '', 'CHANGED:' + ','.join(changed) if changed else '')
    if '-v' in sys.argv:
        for n in changed:
            print('   OLD', n, a[n][:400]); print('   NEW', n, b[n][:400])
