#!/usr/bin/env python3
"""Regenerates the generated parts of DESIGN.md (between <!-- GEN:x --> markers):
status per property, findings table, seeded-change table."""
import json, os, re, glob
V = '/verif'
props = [json.loads(l) for l in open(f'{V}/properties.jsonl')]
adopted = set(open(f'{V}/harness/adopted.txt').read().split())

def status():
    rows = ['| prop | claimed | theorems (Props file) | quick cases / wall | what the claim says (first sentence) |', '|---|---|---|---|---|']
    for p in props:
        pid = p['id']
        cl = f'{V}/harness/claims/{pid}.json'
        ev = f'{V}/evidence/{pid}.json'
        nthm = ''
        pf = f'{V}/coq/theories/{pid}_Props.v'
        if os.path.exists(pf):
            src = re.sub(r'\(\*.*?\*\)', '', open(pf).read(), flags=re.S)
            nthm = str(len(re.findall(r'^\s*(?:Theorem|Lemma|Corollary|Example)\s', src, flags=re.M)))
        cases = ''
        if os.path.exists(ev):
            e = json.load(open(ev))
            cases = f"{e['coverage'].get('evaluations','?')} / {e.get('wall_s','?')} s; obligations {e['coverage'].get('discharged','?')}/{e['coverage'].get('obligations','?')}"
        text = ''
        if os.path.exists(cl):
            text = json.load(open(cl))['text'].split('. ')[0][:220]
        rows.append(f"| {pid} | {'yes' if pid in adopted else 'no'} | {nthm} | {cases} | {text} |")
    return '\n'.join(rows)

def findings():
    d = json.load(open(f'{V}/KNOWN_FINDINGS.json'))['findings']
    key = lambda f: int(re.sub(r'\D', '', f['id']))
    rows = ['| id | prop | status | commit | what failed |', '|---|---|---|---|---|']
    for f in sorted(d, key=key):
        rows.append(f"| {f['id']} | {f['property']} | {f['status']} | {f.get('commit','')} | {f['what'][:260]} |")
    return '\n'.join(rows)

def seeded():
    rows = ['| seed | prop | what the change does / needs to manifest | caught by `./check` (tier) | how |', '|---|---|---|---|---|']
    for m in sorted(glob.glob(f'{V}/seeded/*/meta.json')):
        j = json.load(open(m))
        cr = j.get('check_result', {})
        how = 'no-failing-input-found (broken correspondence/obligation)' if cr.get('no_failing_input_found') else ('concrete counterexample replay' if cr.get('caught') else 'MISSED')
        rows.append(f"| {j['id']} | {j['property']} | {(j.get('summary') or '')[:200]} — needs: {(str(j.get('needs_to_manifest') or ''))[:160]} | {'yes' if cr.get('caught') else 'NO'} ({cr.get('tier','')}) | {how} |")
    return '\n'.join(rows)

s = open(f'{V}/DESIGN.md').read()
for name, fn in (('status', status), ('findings', findings), ('seeded', seeded)):
    a, b = f'<!-- GEN:{name} -->', f'<!-- /GEN:{name} -->'
    if a in s and b in s:
        s = s[:s.index(a) + len(a)] + '\n' + fn() + '\n' + s[s.index(b):]
open(f'{V}/DESIGN.md', 'w').write(s)
print('DESIGN.md tables regenerated')
