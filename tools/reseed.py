#!/usr/bin/env python3
"""Re-run the committed check against a seeded change kept under /verif/seeded/<id>/.

usage: reseed.py <id> [--tier quick] [--confirm]
A scratch worktree of /repo is created under /tmp/wt, the patch applied there (never in /repo),
`VERIF_REPO=<worktree> ./check <PROP> <tier>` is run, seeded/<id>/meta.json['check_result'] is
rewritten, and the worktree removed.  With --confirm the demo is re-run on the clean and the changed
worktree too (exit 0 / exit 1 expected).
"""
import json, os, subprocess, sys, time
sid = sys.argv[1]
tier = sys.argv[sys.argv.index('--tier') + 1] if '--tier' in sys.argv else 'quick'
d = f'/verif/seeded/{sid}'
meta = json.load(open(f'{d}/meta.json'))
prop = meta['property']
wt = f'/tmp/wt/reseed_{sid}'


def sh(cmd, **kw):
    return subprocess.run(cmd, shell=True, stdout=subprocess.PIPE, stderr=subprocess.STDOUT, text=True, **kw)


os.makedirs('/tmp/wt', exist_ok=True)
sh(f'git -C /repo worktree remove --force {wt}')
r = sh(f'git -C /repo worktree add --detach {wt}')
assert os.path.isdir(wt), r.stdout
env = dict(os.environ, PYTHONDONTWRITEBYTECODE='1')
try:
    conf = None
    if '--confirm' in sys.argv:
        clean = sh(f'/venv/bin/python {d}/demo.py {wt}', env=env)
    ap = sh(f'git -C {wt} apply {d}/patch.diff')
    assert ap.returncode == 0, ap.stdout
    if '--confirm' in sys.argv:
        mut = sh(f'/venv/bin/python {d}/demo.py {wt}', env=env)
        conf = (clean.returncode, mut.returncode)
    t0 = time.time()
    chk = sh(f'cd /verif && VERIF_REPO={wt} VERIF_JOBS={os.environ.get("VERIF_JOBS", "8")} ./check {prop} {tier}')
    caught = chk.returncode != 0 and 'VIOLATION property=' + prop in chk.stdout
    vline = next((l for l in chk.stdout.splitlines() if l.startswith('VIOLATION')), '')
    meta['check_result'] = {'tier': tier, 'caught': caught, 'violation_line': vline,
                            'no_failing_input_found': 'no-failing-input-found' in vline,
                            'summary': chk.stdout.strip().splitlines()[-1] if chk.stdout.strip() else '',
                            'wall_s': round(time.time() - t0, 1),
                            'verif_commit': sh('git -C /verif rev-parse --short HEAD').stdout.strip()}
    json.dump(meta, open(f'{d}/meta.json', 'w'), indent=1)
    print(json.dumps({'id': sid, 'caught': caught, 'confirm': conf, 'line': vline,
                      'summary': meta['check_result']['summary'][-200:]}))
finally:
    sh(f'git -C /repo worktree remove --force {wt}')
