#!/usr/bin/env python3
"""add_fixed.py <Dnn> <Cnn> <commit-ish>   -- record a fix: commit in KNOWN_FINDINGS.json
   add_fixed.py --open <Dnn> <Cnn> "<what>" "<signature>" "<why not fixed>" """
import json, subprocess, sys
p = '/verif/KNOWN_FINDINGS.json'
d = json.load(open(p))
if sys.argv[1] == '--open':
    _, _, did, prop, what, sig, why = sys.argv
    d['findings'] = [f for f in d['findings'] if f['id'] != did]
    d['findings'].append({'property': prop, 'id': did, 'status': 'open', 'what': what, 'signature': sig,
                          'why_not_fixed': why, 'witness': f'findings/repro/{did}.py'})
else:
    did, prop, c = sys.argv[1:4]
    h, _, msg = subprocess.run(['git', '-C', '/repo', 'log', '-1', '--format=%h %s', c], capture_output=True, text=True).stdout.strip().partition(' ')
    assert msg.startswith('fix:'), msg
    d['findings'] = [f for f in d['findings'] if f['id'] != did]
    d['findings'].append({'property': prop, 'id': did, 'status': 'fixed', 'commit': h, 'what': msg[5:],
                          'line': f'fixed: property={prop} {h} {msg[5:]}'})
json.dump(d, open(p, 'w'), indent=1)
print(did, 'recorded;', len(d['findings']), 'entries')
