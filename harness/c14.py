"""C14 - a content sequence and its name index never disagree.

Implementation driven (real code from $VERIF_REPO/src):
  highdicom.sr.value_types.ContentSequence: __init__, from_sequence (+ _check_dataset and the
  from_dataset chain of datasets of ALL fifteen value types, incl. the default name given to COMPOSITE / IMAGE /
  SCOORD / SCOORD3D / TCOORD / WAVEFORM datasets without ConceptNameCodeSequence; copy=True/False), append, extend, +=, insert,
  seq.extend(seq), seq += seq, __setitem__ (int / slice), __delitem__ (int / slice), the inherited pop, remove, reverse, clear,
  count, find, index, `in`, get_nodes, is_root / is_sr, reading by seq[i], seq[a:b:c] and reversed(seq), with real
  ContainerContentItem / TextContentItem objects (and, in kind fromseq, items of the thirteen other value types)
  and plain pydicom Datasets.
Model: coq/theories/C14_Model.v; theorems: C14_Props.v.

A case is an operation history.  After construction and after every operation the
runner records: list contents, find() for each name of the case - asked once with a
highdicom CodedConcept and once with an equal pydicom Code tuple -, index()/`in` for a
set of probe items, get_nodes(), the two flags, fixed read probes (seq[i] for 3 indices, seq[a:b:c] for 4 slices
incl. step 0, reversed(seq)), and the error class of the operation.
The oracle is a plain Python list driven with the interpreter's own list
operations plus a recomputed filter; it never looks at the model.

Concept names: 3 base codes x {no coding scheme version, '1.0', '2.0'} x {CodeValue,
LongCodeValue}; two names are the same name iff designator, value and version agree
(CodedConcept / Code __eq__), whatever the meaning and whichever class carries them.

Kind 'multi' is a history over a FAMILY of sequences: sequences constructed from other
sequences - ContentSequence(seq, is_root, is_sr), item.ContentSequence = seq
(ContentItem.__setattr__), copy.deepcopy(seq), seq.find(name), seq.get_nodes() - with
operations on any member in any order; after every step every member is observed and
judged against a plain list of its own (model: run_multi, theorems C14_family_*).
"""
import os
import sys

sys.path.insert(0, os.path.dirname(os.path.abspath(__file__)))
import common
from common import Err, catch, zlit

PROPERTY = 'C14'
PROPS_FILE = 'C14_Props.v'
COQ_IMPORTS = ['C14_Model']
TOL = None
ORACLE_PREMISES = [
    'CPython list semantics (index normalisation, insert clamping, slice.indices, simple and extended slice '
    'assignment / deletion, list.index) are as re-modelled in C14_Model.v (validated on every run: kind "slice" '
    'and every history)',
    'Dataset.__eq__ on content items is structural equality of the modelled attributes (validated: kind "eq")',
    'CodedConcept / pydicom Code __eq__ and __hash__ make ONE dictionary key of every name class (scheme designator, '
    'code value, scheme version; meaning ignored), whichever of the two classes carries the name (validated after '
    'every step: find by CodedConcept AND by an equal Code, for names with and without scheme version, short and '
    'long code values, differently spelled meanings, sibling versions of the same code)',
    'a ContentSequence constructed from another one (constructor, ContentItem.__setattr__, deepcopy, find, get_nodes) '
    'shares no mutable state with it - it is the model\'s fresh __init__ state (validated: kind "multi", every member '
    'observed after every step)',
]
MODELLED = ('sr/value_types.py ContentSequence.__init__, append, extend, __iadd__, insert, __setitem__, '
            '__delitem__, index, __contains__, find, get_nodes, is_root, is_sr, from_sequence, _check_dataset, '
            '_assert_value_type / _get_content_item_class / ContentItem._from_dataset_base (all 15 value types, default '
            'name of the optional-name types), ConstrainedList.__getitem__ (int / slice), Sequence.__reversed__, and the '
            'inherited MutableSequence methods pop, remove, reverse, clear, count; families of sequences: ContentSequence(seq), '
            'ContentItem.__setattr__("ContentSequence", seq), copy.deepcopy(seq), find / get_nodes results used as '
            'sequences of their own (pydicom Sequence = Python list, '
            're-modelled; ContentItem abstracted to is-item/name/relationship/container/node/payload, a dataset '
            'to is-Dataset/value type/required attribute/name/relationship/children/payload)')
STRATA = ['hist_sr', 'hist_root', 'hist_nonsr', 'init_err', 'init_via', 'fromseq', 'eq', 'slice', 'multi']
RULE = ('operations: append, extend, +=, seq.extend(seq), seq += seq (under a 5 s alarm), insert, setitem/delitem (int, slice), '
        'pop, remove, reverse, clear; construction by '
        '__init__ (list / another ContentSequence) and by from_sequence (plain Datasets of all 15 value types - 3/4 of '
        'the fromseq cases are judged by the model over all value types, ~55 % of their non-container datasets get '
        'one of the 13 other types, ~45 % of the optional-name ones come without a name -, copy or in place, 7 kinds '
        'of malformed dataset incl. either required attribute of SCOORD / SCOORD3D missing, wrong relationship state); '
        'after every step also seq[-1], seq[2], seq[-9], seq[-1:0:-2], seq[1::3], seq[-2:7], seq[0::0], reversed(seq); '
        'random operation histories (length <= 12, plus systematic 2-operation histories) over items with 3 names '
        'x 2 spellings x 3 relationship states x container/text x node/leaf x small payloads (so equal items '
        'recur) on root / non-root SR / non-SR sequences; in ~30 % of the cases the names also carry a coding scheme '
        'version (none / 1.0 / 2.0) and a short or long code value, and find() is asked for every name of the case '
        'and for its sibling versions / forms, each with a CodedConcept and with a pydicom Code; kind multi: a '
        'sequence, 1-3 sequences constructed from it or from one another (constructor with the same or other flags, '
        'item.ContentSequence = seq, deepcopy, find, get_nodes) at any point of the history, and operations on any '
        'member in any order, all members observed after every step; boundary-biased positions and slices (None, 0, +-len, '
        '+-(len+1), steps +-1,+-2,3,0; extended-slice lengths exact or off by one); malformed stream: junk '
        'objects, wrong relationship state, non-container at root, root&non-SR flags. non-trivial = at least 2 '
        'operations accepted and a final list with >= 2 items, or a refused operation; distinct by case hash')
EXHAUSTIVE = {'quick': False, 'thorough': False}
NOT_EXECUTED = ['copy.copy(seq) (shares list and index with the original: one state, two handles)',
                'malformed VALUES of the required attributes of the 13 other value types (e.g. a NUM dataset whose '
                'MeasuredValueSequence lacks MeasurementUnitsCodeSequence): only presence / absence is driven']
HANG_S = 5           # seq.extend(seq) / seq += seq are run under signal.alarm: a hang is reported, not suffered

JUNK = 'junk'        # not a Dataset at all (the int 5)
JUNKDS = 'junkds'    # a pydicom Dataset that is not a ContentItem


def is_junk(it):
    return it in (JUNK, JUNKDS)


# ---------------------------------------------------------------------------
# items: JSON spec  <->  real object  <->  tuple (n, rel, cont, node, pay)
# ---------------------------------------------------------------------------
def nk(it):
    """name key = equality class of the concept name under CodedConcept / Code __eq__:
    base code n (0..2) x coding scheme version (0 = none, 1 = '1.0', 2 = '2.0') x form of the code value
    (0 = CodeValue, 1 = LongCodeValue).  The same number is the model's [iname]."""
    return it['n'] + 3 * it.get('ver', 0) + 9 * it.get('long', 0)


# value types other than TEXT / CONTAINER (item spec key 'vt'): model code (C14_Model.v ds_check_x) and the
# attributes _assert_value_type requires
VT_CODE = {'TEXT': 1, 'CONTAINER': 2, 'CODE': 3, 'NUM': 4, 'PNAME': 5, 'DATE': 6, 'TIME': 7, 'DATETIME': 8, 'UIDREF': 9,
           'COMPOSITE': 10, 'IMAGE': 11, 'SCOORD': 12, 'SCOORD3D': 13, 'TCOORD': 14, 'WAVEFORM': 15}
VT_NAME = {v: k for k, v in VT_CODE.items()}
VT_REQUIRED = {'CODE': ['ConceptCodeSequence'], 'NUM': ['MeasuredValueSequence'], 'PNAME': ['PersonName'],
               'DATE': ['Date'], 'TIME': ['Time'], 'DATETIME': ['DateTime'], 'UIDREF': ['UID'],
               'COMPOSITE': ['ReferencedSOPSequence'], 'IMAGE': ['ReferencedSOPSequence'],
               'SCOORD': ['GraphicType', 'GraphicData'], 'SCOORD3D': ['GraphicType', 'GraphicData'],
               'TCOORD': ['TemporalRangeType'], 'WAVEFORM': ['ReferencedSOPSequence'],
               'TEXT': ['TextValue'], 'CONTAINER': ['ContinuityOfContent']}
OTHER_VTS = [k for k in VT_CODE if k not in ('TEXT', 'CONTAINER')]
OPTNAME_VTS = ['COMPOSITE', 'IMAGE', 'SCOORD', 'SCOORD3D', 'TCOORD', 'WAVEFORM']
DEFAULT_NAME_KEY = 18        # (SCT, 260753009, 'Source'): spec {'n': 0, 'ver': 0, 'long': 2}


def vt_of(it):
    return it.get('vt') or ('CONTAINER' if it['cont'] else 'TEXT')


def pay(it):
    """payload of the model item: the small value, tagged with the value type for types other than TEXT / CONTAINER
    (items of different value types are different Datasets)"""
    return it['v'] + (10 * VT_CODE[it['vt']] if it.get('vt') else 0)


def tup(it):
    # 'alt' (a different spelling of the code meaning) is deliberately NOT part of the tuple: CodedConcept
    # equality ignores the meaning, so such items are equal Datasets and share a name-index key
    if is_junk(it):
        return JUNK
    return (nk(it), it['rel'], bool(it['cont']), bool(it['node']), pay(it))


_REL = {0: None, 1: 'CONTAINS', 2: 'HAS PROPERTIES'}
_REL_INV = {None: 0, 'CONTAINS': 1, 'HAS PROPERTIES': 2}


_VER = {0: None, 1: '1.0', 2: '2.0'}
_VER_INV = {None: 0, '1.0': 1, '2.0': 2}
_LONG = 'verif-long-code-value-'         # > 16 characters: stored as LongCodeValue


def _name(n, alt=0, code=False, ver=0, long=0):
    """the concept name as a highdicom CodedConcept or (code=True) as a pydicom Code tuple"""
    from highdicom.sr import CodedConcept
    meaning = f'name {n}' + (' alt' if alt else '')
    value = (_LONG if long else '') + str(100 + n)
    if long == 2:
        # the default name _from_dataset_base gives to an optional-name dataset that has none
        value, meaning = '260753009', 'Source'
        if code:
            from pydicom.sr.coding import Code
            return Code(value, 'SCT', meaning)
        return CodedConcept(value, 'SCT', meaning)
    if code:
        from pydicom.sr.coding import Code
        return Code(value, '99VERIF', meaning, _VER[ver])
    return CodedConcept(value, '99VERIF', meaning, _VER[ver])


def _name_key(k, alt=0, code=False):
    return _name(k % 3, alt=alt, code=code, ver=(k // 3) % 3, long=k // 9)


def build(it):
    from highdicom.sr import ContainerContentItem, TextContentItem
    if it == JUNK:
        return 5
    if it == JUNKDS:
        from pydicom import Dataset
        return Dataset()
    rel = _REL[it['rel']]
    if it.get('vt'):
        x = build_other(it, rel)
    elif it['cont']:
        x = ContainerContentItem(_name_key(nk(it), it['alt']), is_content_continuous=(it['v'] % 2 == 0),
                                 relationship_type=rel)
    else:
        x = TextContentItem(_name_key(nk(it), it['alt']), f"v{it['v']}", relationship_type=rel)
    if it['node']:
        x.ContentSequence = [TextContentItem(_name(9), 'child', relationship_type='CONTAINS')]
    return x


def build_other(it, rel):
    """a content item of one of the thirteen other value types, with the small payload v in its value"""
    import datetime
    import numpy as np
    from highdicom import sr
    from pydicom.sr.coding import Code
    name, v, vt = _name_key(nk(it), it['alt']), it['v'], it['vt']
    kw = {'relationship_type': rel}
    if vt == 'CODE':
        return sr.CodeContentItem(name, Code(str(v), '99VERIF', f'value {v}'), **kw)
    if vt == 'NUM':
        return sr.NumContentItem(name, v, Code('1', 'UCUM', 'no units'), **kw)
    if vt == 'PNAME':
        return sr.PnameContentItem(name, f'Doe^J{v}', **kw)
    if vt == 'DATE':
        return sr.DateContentItem(name, datetime.date(2000, 1, 1 + v), **kw)
    if vt == 'TIME':
        return sr.TimeContentItem(name, datetime.time(1, 2, v), **kw)
    if vt == 'DATETIME':
        return sr.DateTimeContentItem(name, datetime.datetime(2000, 1, 1 + v), **kw)
    if vt == 'UIDREF':
        return sr.UIDRefContentItem(name, f'1.2.3.{v}', **kw)
    if vt == 'COMPOSITE':
        return sr.CompositeContentItem(name, '1.2.840.10008.5.1.4.1.1.88.11', f'1.2.3.{v}', **kw)
    if vt == 'IMAGE':
        return sr.ImageContentItem(name, '1.2.840.10008.5.1.4.1.1.2', f'1.2.3.{v}', **kw)
    if vt == 'SCOORD':
        return sr.ScoordContentItem(name, 'POINT', np.array([[v + 1.0, 2.0]]), **kw)
    if vt == 'SCOORD3D':
        return sr.Scoord3DContentItem(name, 'POINT', np.array([[v + 1.0, 2.0, 3.0]]), '1.2.3.4', **kw)
    if vt == 'TCOORD':
        return sr.TcoordContentItem(name, 'POINT', referenced_sample_positions=[v + 1], **kw)
    if vt == 'WAVEFORM':
        return sr.WaveformContentItem(name, '1.2.840.10008.5.1.4.1.1.9.1.1', f'1.2.3.{v}', **kw)
    raise AssertionError(vt)


def render_other(x):
    """value type code and payload v of an item of one of the other value types (v = 9: the value cannot be read)"""
    try:
        return _render_other(x)
    except (AttributeError, IndexError, ValueError, TypeError):
        return 9 + 10 * VT_CODE.get(str(getattr(x, 'ValueType', '')), 0)


def _render_other(x):
    vt = str(x.ValueType)
    last = lambda u: int(str(u).split('.')[-1])       # noqa: E731
    if vt == 'CODE':
        v = int(x.ConceptCodeSequence[0].CodeValue)
    elif vt == 'NUM':
        v = int(x.MeasuredValueSequence[0].NumericValue)
    elif vt == 'PNAME':
        v = int(str(x.PersonName)[-1])
    elif vt == 'DATE':
        v = int(str(x.Date)[-2:]) - 1
    elif vt == 'TIME':
        v = int(str(x.Time)[4:6])
    elif vt == 'DATETIME':
        v = int(str(x.DateTime)[6:8]) - 1
    elif vt == 'UIDREF':
        v = last(x.UID)
    elif vt in ('COMPOSITE', 'IMAGE', 'WAVEFORM'):
        v = last(x.ReferencedSOPSequence[0].ReferencedSOPInstanceUID)
    elif vt in ('SCOORD', 'SCOORD3D'):
        v = int(round(float(x.GraphicData[0]))) - 1
    elif vt == 'TCOORD':
        sp = x.ReferencedSamplePositions
        v = int(sp if isinstance(sp, int) else sp[0]) - 1
    else:
        raise AssertionError(vt)
    return v + 10 * VT_CODE[vt]


def render(x):
    from highdicom.sr import ContainerContentItem
    from highdicom.sr.value_types import ContentItem
    if not isinstance(x, ContentItem):
        return [-1, 0, False, False, -1]       # something that is no content item sits in the sequence
    nm = x.ConceptNameCodeSequence[0]
    if nm.CodingSchemeDesignator == 'SCT':
        n = DEFAULT_NAME_KEY - 3 * _VER_INV[getattr(nm, 'CodingSchemeVersion', None)]
    elif 'LongCodeValue' in nm:
        n = int(str(nm.LongCodeValue)[len(_LONG):]) - 100 + 9
    else:
        n = int(nm.CodeValue) - 100
    n += 3 * _VER_INV[getattr(nm, 'CodingSchemeVersion', None)]
    rel = _REL_INV[getattr(x, 'RelationshipType', None)]
    cont = isinstance(x, ContainerContentItem)
    node = hasattr(x, 'ContentSequence')
    if cont:
        v = 0 if x.ContinuityOfContent == 'CONTINUOUS' else 1
    elif str(x.ValueType) != 'TEXT':
        v = render_other(x)
    else:
        v = int(str(x.TextValue)[1:])
    return [n, rel, cont, node, v]


# ---------------------------------------------------------------------------
# the reference: a plain Python list + the property's admission rule
# ---------------------------------------------------------------------------
def basic_bad(t, root, sr):
    """the property's rule: root => no relationship type; other SR => has one"""
    return sr and ((t[1] == 0) != root)


def init_bad(t, root, sr):
    """the library's own, stricter rule (_check_item): additionally a container at the root and no
    relationship type outside SR.  The oracle only REQUIRES the basic rule; an item that passes the basic
    rule but not this one may be refused or accepted - but if accepted, every query must still work."""
    if root:
        return t[1] != 0 or not t[2]
    if sr:
        return t[1] == 0
    return t[1] != 0


def entering(op):
    k = op[0]
    if k in ('append',):
        return [op[1]]
    if k in ('extend', 'iadd'):
        return op[1]
    if k in ('insert', 'setint'):
        return [op[2]]
    if k == 'setslice':
        return op[4]
    return []


def mentioned(op):
    return entering(op) + ([op[1]] if op[0] == 'remove' else [])


def untup(t):
    it = {'n': t[0] % 3, 'alt': 0, 'rel': t[1], 'cont': t[2], 'node': t[3], 'v': t[4]}
    if t[0] >= 3:
        it['ver'], it['long'] = (t[0] // 3) % 3, t[0] // 9
    if t[4] >= 10:
        it['vt'], it['v'] = VT_NAME[t[4] // 10], t[4] % 10
    return it


def ref_apply(ref, op):
    """Apply op to a copy of the plain list with the interpreter's own list
    operations.  Returns (new_list, exception class name or None)."""
    new = list(ref)
    k = op[0]
    xs = [tup(i) for i in entering(op)]
    try:
        if k == 'append':
            new.append(xs[0])
        elif k in ('extend', 'iadd'):
            new.extend(xs)
        elif k == 'insert':
            new.insert(op[1], xs[0])
        elif k == 'setint':
            new[op[1]] = xs[0]
        elif k == 'setslice':
            new[slice(op[1], op[2], op[3])] = xs
        elif k == 'delint':
            del new[op[1]]
        elif k == 'delslice':
            del new[slice(op[1], op[2], op[3])]
        elif k == 'pop':
            new.pop(-1 if op[1] is None else op[1])
        elif k == 'remove':
            new.remove(tup(op[1]))
        elif k == 'reverse':
            new.reverse()
        elif k == 'clear':
            new.clear()
        elif k == 'extend_self':
            new.extend(new)
        elif k == 'iadd_self':
            new += new
        else:
            raise AssertionError(k)
    except (IndexError, ValueError) as e:
        return list(ref), type(e).__name__
    return new, None


def simulate(case):
    """Reference run used by the GENERATOR only (to pick boundary positions for the next
    operation): the list after each op when exactly the items passing _check_item's rule enter."""
    root, sr = case['root'], case['sr']
    ref = [tup(i) for i in case['init']]
    lax = any(t != JUNK and init_bad(t, root, sr) and not basic_bad(t, root, sr) for t in ref)
    for op in case['ops']:
        xs = [tup(i) for i in entering(op)]
        if op[0] in ('extend', 'iadd'):
            for t in xs:
                if t == JUNK or init_bad(t, root, sr):
                    break
                lax = lax or init_bad(t, root, sr)
                ref = ref + [t]
            continue
        if any(t == JUNK or init_bad(t, root, sr) for t in xs):
            continue
        new, err = ref_apply(ref, op)
        if err is None:
            lax = lax or any(init_bad(t, root, sr) for t in xs)
            ref = new
    return ref, lax


# ---------------------------------------------------------------------------
# generators
# ---------------------------------------------------------------------------
def gen_item(rng, root, sr, p_bad=0.12, p_lax=0.06, p_junk=0.03, vm=False):
    """vm: the case draws concept names WITH coding scheme versions / long code values too"""
    if rng.random() < p_junk:
        return rng.choice([JUNK, JUNKDS])
    want_rel = (not root) and sr
    r = rng.random()
    if r < p_bad:
        has_rel = not want_rel            # violates the basic rule on SR sequences
    else:
        has_rel = want_rel
    if not sr:
        # non-SR: __init__ wants no relationship type, the mutators do not care
        has_rel = rng.random() < p_lax + (p_bad if r < p_bad else 0)
    cont = rng.random() < (0.9 if root else 0.3)
    if root and rng.random() < p_lax:
        cont = False
    it = {'n': rng.choice([0, 0, 1, 1, 2]), 'alt': 1 if rng.random() < 0.15 else 0,
          'rel': (rng.choice([1, 1, 2]) if has_rel else 0), 'cont': cont,
          'node': rng.random() < 0.3, 'v': rng.choice([0, 0, 1]) if cont else rng.choice([0, 0, 1, 1, 2])}
    if vm:
        # few base codes, so that the same code recurs with the same and with another version
        it['n'] = rng.choice([0, 0, 0, 1])
        it['ver'] = rng.choice([0, 1, 1, 1, 2])
        it['long'] = 1 if rng.random() < 0.15 else 0
    return it


def gen_pos(rng, n):
    return rng.choice([0, -1, n - 1, n, -n, -n - 1, n + 1, rng.randint(-n - 2, n + 2), rng.randint(0, max(0, n - 1)),
                       rng.randint(0, max(0, n - 1))])


def gen_slice(rng, n):
    def bound():
        return rng.choice([None, None, 0, n, -n, n - 1, -1, 1, n + 1, -n - 1, rng.randint(-n - 2, n + 2),
                           rng.randint(0, n)])
    step = rng.choice([None, None, None, 1, 1, -1, -1, 2, 2, -2, 3, -3, 0 if rng.random() < 0.3 else 2])
    return bound(), bound(), step


def slice_len(n, a, b, c):
    return len(range(*slice(a, b, c).indices(n)))


def gen_op(rng, ref_len, root, sr, vm=False):
    n = ref_len
    k = rng.choice(['append', 'append', 'extend', 'iadd', 'insert', 'insert', 'setint', 'setint',
                    'setslice', 'setslice', 'setslice', 'delint', 'delint', 'delslice', 'delslice',
                    'pop', 'remove', 'remove', 'reverse', 'reverse', 'clear' if rng.random() < 0.4 else 'pop',
                    'extend_self' if n <= 8 else 'reverse', 'iadd_self' if n <= 8 else 'pop'])
    item = lambda **kw: gen_item(rng, root, sr, vm=vm, **kw)   # noqa: E731
    if k == 'pop':
        return ['pop', None if rng.random() < 0.4 else gen_pos(rng, n)]
    if k == 'remove':
        # mostly an item that is (or equals one that is) in the list: the caller passes candidates
        return ['remove', item(p_bad=0.1)]
    if k in ('reverse', 'clear', 'extend_self', 'iadd_self'):
        return [k]
    if k == 'append':
        return ['append', item()]
    if k in ('extend', 'iadd'):
        m = rng.choice([0, 1, 2, 2, 3])
        return [k, [item(p_bad=0.06, p_junk=0.02) for _ in range(m)]]
    if k == 'insert':
        return ['insert', gen_pos(rng, n), item()]
    if k == 'setint':
        return ['setint', gen_pos(rng, n), item()]
    if k == 'delint':
        return ['delint', gen_pos(rng, n)]
    a, b, c = gen_slice(rng, n)
    if k == 'delslice':
        return ['delslice', a, b, c]
    if c in (None, 1):
        m = rng.choice([0, 1, 1, 2, 3])
    elif c == 0:
        m = rng.choice([0, 1])
    else:
        m = slice_len(n, a, b, c)
        if rng.random() < 0.2:
            m = max(0, m + rng.choice([-1, 1]))
    return ['setslice', a, b, c, [item(p_bad=0.05, p_junk=0.02) for _ in range(m)]]


def gen_init(rng, root, sr, valid=True, vm=False):
    if root:
        m = rng.choice([0, 1, 1, 1, 2, 3])
    else:
        m = rng.choice([0, 0, 1, 2, 3, 4, 5])
    if valid:
        its = []
        for _ in range(m):
            it = gen_item(rng, root, sr, p_bad=0, p_lax=0, p_junk=0, vm=vm)
            if not sr:
                it['rel'] = 0
            if root:
                it['cont'] = True
                it['v'] = it['v'] % 2
            its.append(it)
        return its
    its = [gen_item(rng, root, sr, p_bad=0.35, p_lax=0.3, p_junk=0.12, vm=vm) for _ in range(max(1, m))]
    return its


def all_ops(case):
    """the operations of a case, whichever sequence of the family they address"""
    return list(case['ops']) + [m[2] for m in case.get('mops', []) if m[0] == 'on']


def probes(rng, case):
    """probe items for index / in / count; also fixes case['names'], the names find() is asked for - each of them
    once with a highdicom CodedConcept and once with an equal pydicom Code tuple"""
    vm = case.get('vm', False)
    seen = []
    for it in case['init'] + [i for op in all_ops(case) for i in mentioned(op)]:
        if not is_junk(it) and it not in seen:
            seen.append(it)
    rng.shuffle(seen)
    qs = seen[:6]
    for _ in range(2):
        it = gen_item(rng, case['root'], case['sr'], p_junk=0, vm=vm)
        if it not in qs:
            qs.append(it)
    if rng.random() < 0.3:
        qs.append(rng.choice([JUNK, JUNKDS]))
    if vm:
        keys = []
        for it in seen:
            if nk(it) not in keys:
                keys.append(nk(it))
        names = keys[:4]
        # the same code in another version / without version / in the other form must NOT find these items
        for k in [k for k in names[:2] if k < DEFAULT_NAME_KEY]:
            for k2 in (k % 3 + 9 * (k // 9), k % 3 + 3 * rng.choice([1, 2]) + 9 * (k // 9), k % 9 + 9 * (1 - k // 9)):
                if k2 not in names and len(names) < 7:
                    names.append(k2)
        case['names'] = sorted(names)
    else:
        case['names'] = [0, 1, 2]
    if any(nk(it) == DEFAULT_NAME_KEY for it in seen) and DEFAULT_NAME_KEY not in case['names']:
        case['names'] = case['names'] + [DEFAULT_NAME_KEY]
    return qs


def gen_history(rng, flavour, nops):
    root, sr = {'sr': (False, True), 'root': (True, True), 'nonsr': (False, False)}[flavour]
    vm = rng.random() < 0.3
    case = {'kind': 'hist_' + flavour, 'root': root, 'sr': sr, 'vm': vm, 'init': gen_init(rng, root, sr, vm=vm),
            'ops': [], 'reuse': rng.random() < 0.4}
    add_ops(rng, case, nops)
    case['qs'] = probes(rng, case)
    return case


def add_ops(rng, case, nops):
    for _ in range(nops):
        ref, _lax = simulate(case)
        op = gen_op(rng, len(ref), case['root'], case['sr'], vm=case.get('vm', False))
        if op[0] == 'remove' and ref and rng.random() < 0.75:
            op = ['remove', untup(rng.choice(ref))]      # an item that is in the list (equal, not identical)
        case['ops'].append(op)


DEFECTS = ['nods', 'novt', 'badvt', 'noval', 'noname', 'kidnorel', 'kidbadvt']


def gen_fromseq(rng, i):
    """construction from plain pydicom Datasets: ContentSequence.from_sequence"""
    root, sr = [(False, True), (True, True), (False, False), (False, True), (True, False)][i % 5]
    valid = i % 3 != 0
    vm = rng.random() < 0.35       # files that record the coding scheme version of the concept names
    its = gen_init(rng, root and sr, sr, valid=True, vm=vm)
    if not its or rng.random() < 0.3:
        its = its + gen_init(rng, root and sr, sr, valid=True, vm=vm)
    xmode = i % 4 != 3          # judged by the model over ALL value types (from_sequence_x); else the TEXT / CONTAINER one
    if xmode:
        for it in its:
            if not it['cont'] and rng.random() < 0.55:
                it['vt'], it['v'] = rng.choice(OTHER_VTS), rng.choice([0, 0, 1, 2])
                if it['vt'] in OPTNAME_VTS and rng.random() < 0.45:
                    # the dataset comes WITHOUT a concept name: the item gets the default name
                    it.update(n=0, alt=0, ver=0, long=2, dropname=True)
    ds = [{'it': it, 'defect': None} for it in its]
    if not valid:
        # one or two datasets are malformed, or carry the wrong relationship state for this sequence
        for _ in range(rng.choice([1, 1, 2])):
            if not ds:
                ds.append({'it': gen_item(rng, root, sr, p_bad=0, p_lax=0, p_junk=0, vm=vm), 'defect': None})
            d = rng.choice(ds)
            if rng.random() < 0.6:
                d['defect'] = rng.choice(DEFECTS)
                d['which'] = rng.randrange(2)       # which of the required attributes 'noval' removes
                if d['defect'].startswith('kid'):
                    d['it'] = dict(d['it'], node=True)
                if d['defect'] == 'noname' and d['it'].get('vt') in OPTNAME_VTS:
                    # not a defect for these value types: the default name
                    d['defect'] = None
                    d['it'] = dict(d['it'], n=0, alt=0, ver=0, long=2, dropname=True)
            else:
                d['it'] = dict(d['it'], rel=(0 if d['it']['rel'] else rng.choice([1, 2])))
                if rng.random() < 0.3 and not d['it'].get('vt'):
                    d['it']['cont'] = not d['it']['cont']
                    d['it']['v'] %= 2
    case = {'kind': 'fromseq', 'root': root, 'sr': sr, 'vm': vm, 'ds': ds, 'init': [d['it'] for d in ds],
            'copy': rng.random() < 0.6, 'ops': [], 'reuse': False, 'x': xmode}
    add_ops(rng, case, rng.choice([1, 2, 3, 5]))
    case['qs'] = probes(rng, case)
    return case


def sim_family(case):
    """generator-side picture of a family: [[list, root, sr], ...] when exactly the items passing _check_item's
    rule enter (as in simulate)"""
    fam = [[[tup(i) for i in case['init']], case['root'], case['sr']]]
    for m in case['mops']:
        if not 0 <= m[1] < len(fam):
            continue
        ref, root, sr = fam[m[1]]
        if m[0] == 'on':
            fam[m[1]][0] = simulate({'root': root, 'sr': sr, 'init': [untup(t) for t in ref], 'ops': [m[2]]})[0]
            continue
        how = m[2]
        if how[0] in ('ctor', 'setattr'):
            r2, s2 = (how[1], how[2]) if how[0] == 'ctor' else (False, True)
            if not ((r2 and not s2) or any(init_bad(t, r2, s2) for t in ref)):
                fam.append([list(ref), r2, s2])
        elif how[0] == 'deepcopy':
            fam.append([list(ref), root, sr])
        elif how[0] == 'nodes':
            fam.append([[t for t in ref if t[3]], root, sr])
        else:
            fam.append([[t for t in ref if t[0] == how[1]], root, sr])
    return fam


def gen_derive(rng, fam):
    src = rng.randrange(len(fam)) if rng.random() < 0.5 else 0
    ref, root, sr = fam[src]
    k = rng.choice(['ctor', 'ctor', 'ctor', 'setattr', 'setattr', 'deepcopy', 'find', 'nodes']
                   if (root, sr) == (False, True) else ['ctor', 'ctor', 'ctor', 'deepcopy', 'find', 'nodes', 'setattr'])
    if k == 'ctor':
        r2, s2 = (root, sr) if rng.random() < 0.85 else rng.choice([(False, True), (True, True), (False, False)])
        return ['derive', src, ['ctor', r2, s2]]
    if k == 'find':
        names = sorted({t[0] for t in ref}) or [0]
        return ['derive', src, ['find', rng.choice(names + [rng.choice([0, 1, 2])]), rng.random() < 0.5]]
    return ['derive', src, [k]]


def gen_multi(rng, i):
    """a sequence, sequences constructed FROM it (and from those), and operations on any of them in any order"""
    flavour = ['sr', 'sr', 'sr', 'nonsr', 'root', 'sr'][i % 6]
    root, sr = {'sr': (False, True), 'root': (True, True), 'nonsr': (False, False)}[flavour]
    vm = rng.random() < 0.25
    init = gen_init(rng, root, sr, vm=vm)
    if len(init) < 2:
        init = init + gen_init(rng, root, sr, vm=vm)
    case = {'kind': 'multi', 'root': root, 'sr': sr, 'vm': vm, 'init': init, 'ops': [], 'mops': [],
            'reuse': rng.random() < 0.4}

    def an_op(target):
        fam = sim_family(case)
        ref, r, s_ = fam[target]
        op = gen_op(rng, len(ref), r, s_, vm=vm)
        if op[0] in ('extend_self', 'iadd_self') and len(ref) > 4:
            op = ['reverse']
        if op[0] == 'remove' and ref and rng.random() < 0.75:
            op = ['remove', untup(rng.choice(ref))]
        elif op[0] == 'append' and ref and rng.random() < 0.5:
            # another item under a name the sequence already holds
            t = rng.choice(ref)
            op = ['append', dict(untup(t), v=(t[4] + 1) % (2 if t[2] else 3))]
        return ['on', target, op]
    for _ in range(rng.choice([0, 0, 1, 2])):
        case['mops'].append(an_op(0))
    case['mops'].append(gen_derive(rng, sim_family(case)))
    for _ in range(rng.choice([2, 3, 4, 5, 6])):
        fam = sim_family(case)
        if len(fam) < 4 and rng.random() < 0.2:
            case['mops'].append(gen_derive(rng, fam))
        else:
            case['mops'].append(an_op(rng.randrange(len(fam))))
    case['qs'] = probes(rng, case)
    return case


def alphabet(rng, root, sr, n, vm=False):
    """a small systematic operation alphabet for the 2-operation histories"""
    a = gen_item(rng, root, sr, p_bad=0, p_lax=0, p_junk=0, vm=vm)
    b = dict(a, v=(a['v'] + 1) % 2)
    c = dict(a, n=(a['n'] + 1) % 3)
    if vm:
        c = dict(a, ver=(a['ver'] + 1) % 3)       # the same code in another version: a different name
    bad = dict(a, rel=0 if a['rel'] else 1)
    ops = [['append', a], ['append', c], ['append', bad], ['extend', [a, c]], ['extend', [a, a]], ['iadd', [c, a]],
           ['extend', [b, bad, c]], ['insert', 0, c], ['insert', -1, b], ['insert', n + 3, a],
           ['setint', 0, c], ['setint', -1, a], ['setint', n, a], ['setint', 0, bad],
           ['setslice', None, None, None, [c, a]], ['setslice', 1, 1, None, [b]], ['setslice', 0, 2, None, []],
           ['setslice', None, None, 2, [c] * slice_len(n, None, None, 2)],
           ['setslice', None, None, -1, [a, c, b][:n] + [a] * max(0, n - 3)],
           ['setslice', None, None, 2, [c]], ['setslice', 0, 1, None, [bad]],
           ['delint', 0], ['delint', -1], ['delint', n], ['delslice', None, None, 2], ['delslice', 1, None, None],
           ['delslice', None, None, -2], ['delslice', None, None, None], ['delslice', None, None, 0],
           ['pop', None], ['pop', 0], ['pop', n], ['remove', a], ['remove', c], ['remove', bad], ['reverse'], ['clear'],
           ['extend_self'], ['iadd_self'], ['extend_self']]
    return ops


def gen_pairs(rng, count):
    out = []
    for _ in range(count):
        flavour = rng.choice(['sr', 'sr', 'root', 'nonsr'])
        root, sr = {'sr': (False, True), 'root': (True, True), 'nonsr': (False, False)}[flavour]
        vm = rng.random() < 0.25
        case = {'kind': 'hist_' + flavour, 'root': root, 'sr': sr, 'vm': vm, 'init': gen_init(rng, root, sr, vm=vm),
                'ops': [], 'reuse': False}
        for _ in range(2):
            ref, _lax = simulate(case)
            case['ops'].append(rng.choice(alphabet(rng, root, sr, len(ref), vm=vm)))
        case['qs'] = probes(rng, case)
        out.append(case)
    return out


def gen_cases(rng, tier):
    nh = {'quick': 440, 'thorough': 14000, 'search': 5000}[tier]
    npairs = {'quick': 160, 'thorough': 4000, 'search': 1500}[tier]
    cases = []
    for i in range(nh):
        flavour = ['sr', 'sr', 'root', 'nonsr'][i % 4]
        nops = rng.choice([1, 2, 2, 3, 4, 5, 6, 8, 10, 12, 12])
        cases.append(gen_history(rng, flavour, nops))
    cases += gen_pairs(rng, npairs)
    for i in range(nh // 8):
        root, sr = [(False, True), (True, True), (False, False), (True, False)][i % 4]
        vm = rng.random() < 0.2
        case = {'kind': 'init_err', 'root': root, 'sr': sr, 'vm': vm,
                'init': gen_init(rng, root and sr, sr, valid=False, vm=vm),
                'ops': [['append', gen_item(rng, root, sr, vm=vm)]], 'reuse': False}
        case['qs'] = probes(rng, case)
        cases.append(case)
    # construction FROM an existing ContentSequence of another (or the same) kind: the items were
    # valid where they come from; the rule of the NEW sequence must still be applied to each of them
    for i in range(nh // 8):
        sr = i % 5 != 4
        vroot = bool(i % 2) and sr
        root = (not vroot if i % 3 else vroot) and sr
        init = gen_init(rng, vroot, sr, valid=True)
        if not init:
            init = gen_init(rng, vroot, sr, valid=True) or init
        case = {'kind': 'init_via', 'root': root, 'sr': sr, 'init': init, 'via': [vroot, sr],
                'ops': [['append', gen_item(rng, root, sr)]], 'reuse': False}
        case['qs'] = probes(rng, case)
        cases.append(case)
    for i in range(nh // 5):
        cases.append(gen_fromseq(rng, i))
    for i in range({'quick': 150, 'thorough': 4000, 'search': 1500}[tier]):
        cases.append(gen_multi(rng, i))
    for _ in range(nh // 6):
        a = gen_item(rng, rng.random() < 0.5, True, p_bad=0.4, p_junk=0)
        b = dict(a)
        if rng.random() < 0.4:
            a['ver'], a['long'] = rng.choice([0, 1, 2]), rng.choice([0, 0, 1])
            b = dict(a)
        if rng.random() < 0.75:
            key = rng.choice(['n', 'alt', 'rel', 'cont', 'node', 'v', 'ver', 'long'])
            b[key] = {'n': (a['n'] + 1) % 3, 'alt': 1 - a['alt'], 'rel': (a['rel'] + 1) % 3,
                      'cont': not a['cont'], 'node': not a['node'], 'v': (a['v'] + 1) % 2,
                      'ver': (a.get('ver', 0) + rng.choice([1, 2])) % 3, 'long': 1 - a.get('long', 0)}[key]
            if b['cont']:
                b['v'] %= 2
        cases.append({'kind': 'eq', 'a': a, 'b': b})
    nsl = {'quick': 200, 'thorough': 0, 'search': 500}[tier]
    for _ in range(nsl):
        n = rng.randint(0, 7)
        a, b, c = gen_slice(rng, n)
        cases.append({'kind': 'slice', 'n': n, 'a': a, 'b': b, 'c': c})
    if tier == 'thorough':
        vals = [None] + list(range(-8, 9))
        for n in range(0, 6):
            for a in vals:
                for b in vals:
                    for c in [None, 1, -1, 2, -2, 3, -3, 5, -7, 0]:
                        cases.append({'kind': 'slice', 'n': n, 'a': a, 'b': b, 'c': c})
    rng.shuffle(cases)      # balance the Coq shards
    return cases


# ---------------------------------------------------------------------------
# implementation runner
# ---------------------------------------------------------------------------
def find_keys(case):
    """the lookups made after every step: (name key, with a pydicom Code instead of a CodedConcept?)"""
    if 'names' in case:
        return [(k, False) for k in case['names']] + [(k, True) for k in case['names']]
    return [(n, case.get('find_code', False)) for n in range(3)]     # cases recorded before 'names' existed


# fixed read probes (C14_Model.v READ_INTS / READ_SLICES): seq[i], seq[a:b:c] (a plain list), reversed(seq)
READ_INTS = [-1, 2, -9]
READ_SLICES = [(-1, 0, -2), (1, None, 3), (-2, 7, None), (0, None, 0)]


class NotAList(Exception):
    pass


def _observe(seq, case, mk):
    items = [render(x) for x in seq]
    finds = []
    for k, code in find_keys(case):
        nm = _name_key(k, alt=(k % 3 == 1), code=code)
        finds.append(catch(lambda: sorted(render(x) for x in seq.find(nm))))   # multiset: order is not observed
    idx = [catch(lambda q=q: int(seq.index(mk(q)))) for q in case['qs']]
    cont = [catch(lambda q=q: bool(mk(q) in seq)) for q in case['qs']]
    nodes = catch(lambda: [render(x) for x in seq.get_nodes()])
    counts = [catch(lambda q=q: int(seq.count(mk(q)))) for q in case['qs']]

    def read_slice(a, b, c):
        got = seq[slice(a, b, c)]
        if type(got) is not list:
            raise NotAList()
        return [render(x) for x in got]
    reads = [[catch(lambda i=i: render(seq[i])) for i in READ_INTS],
             [catch(lambda q=q: read_slice(*q)) for q in READ_SLICES],
             [render(x) for x in reversed(seq)]]
    return [items, finds, idx, cont, nodes, bool(seq.is_root), bool(seq.is_sr), counts, reads]


def _apply(seq, op, mk):
    k = op[0]
    if k == 'append':
        seq.append(mk(op[1]))
    elif k == 'extend':
        seq.extend([mk(i) for i in op[1]])
    elif k == 'iadd':
        seq += [mk(i) for i in op[1]]
    elif k == 'insert':
        seq.insert(op[1], mk(op[2]))
    elif k == 'setint':
        seq[op[1]] = mk(op[2])
    elif k == 'setslice':
        seq[slice(op[1], op[2], op[3])] = [mk(i) for i in op[4]]
    elif k == 'delint':
        del seq[op[1]]
    elif k == 'delslice':
        del seq[slice(op[1], op[2], op[3])]
    elif k == 'pop':
        return render(seq.pop() if op[1] is None else seq.pop(op[1]))
    elif k == 'remove':
        seq.remove(mk(op[1]))
    elif k == 'reverse':
        seq.reverse()
    elif k == 'clear':
        seq.clear()
    elif k == 'extend_self':
        _with_alarm(lambda: seq.extend(seq))
    elif k == 'iadd_self':
        def iadd():
            t = seq
            t += t
        _with_alarm(iadd)
    else:
        raise AssertionError(k)
    return None


class DidNotTerminate(BaseException):
    pass


def _with_alarm(fn):
    """run fn under a HANG_S second alarm (the check runs cases in forked single-threaded workers)"""
    import signal

    def stop(*_):
        raise DidNotTerminate()
    old = signal.signal(signal.SIGALRM, stop)
    signal.alarm(HANG_S)
    try:
        return fn()
    finally:
        signal.alarm(0)
        signal.signal(signal.SIGALRM, old)


def _run_ops(seq, c, mk):
    out = [_observe(seq, c, mk)]
    for op in c['ops']:
        try:
            e = catch(lambda: _apply(seq, op, mk))
        except DidNotTerminate:
            # the sequence is now enormous: do not observe it, do not go on
            out.append([Err('DidNotTerminate'), None])
            break
        out.append([e, _observe(seq, c, mk)])
    return out


def _derive(seq, how):
    """a new ContentSequence obtained from an existing one"""
    import copy
    from highdicom.sr import ContainerContentItem
    from highdicom.sr.value_types import ContentSequence
    k = how[0]
    if k == 'ctor':
        return ContentSequence(seq, is_root=how[1], is_sr=how[2])
    if k == 'setattr':
        # the everyday path: ContentItem.__setattr__ wraps the value in a new ContentSequence
        g = ContainerContentItem(_name(8), relationship_type='CONTAINS')
        g.ContentSequence = seq
        return g.ContentSequence
    if k == 'deepcopy':
        return copy.deepcopy(seq)
    if k == 'find':
        return seq.find(_name_key(how[1], alt=(how[1] % 3 == 1), code=how[2]))
    if k == 'nodes':
        return seq.get_nodes()
    raise AssertionError(k)


def _run_mops(seq, c, mk):
    """a family of sequences: after every step ALL members are observed"""
    from highdicom.sr.value_types import ContentSequence
    seqs = [seq]
    out = [[_observe(seq, c, mk)]]
    for m in c['mops']:
        if not 0 <= m[1] < len(seqs):
            e = Err('NoSequence')
        elif m[0] == 'on':
            try:
                e = catch(lambda: _apply(seqs[m[1]], m[2], mk))
            except DidNotTerminate:
                out.append([Err('DidNotTerminate'), None])
                break
        else:
            e = catch(lambda: _derive(seqs[m[1]], m[2]))
            if not isinstance(e, Err):
                if not isinstance(e, ContentSequence):
                    e = Err('NotAContentSequence')
                else:
                    seqs.append(e)
                    e = None
        out.append([e, [_observe(t, c, mk) for t in seqs]])
    return out


def plain(ds):
    """the same attributes in plain pydicom Dataset / Sequence objects (what a file reader returns)"""
    from pydicom import Dataset
    from pydicom.sequence import Sequence
    d = Dataset()
    for e in ds:
        if e.VR == 'SQ':
            d.add_new(e.tag, 'SQ', Sequence([plain(x) for x in e.value]))
        else:
            d.add_new(e.tag, e.VR, e.value)
    return d


def build_ds(d):
    defect = d['defect']
    if defect == 'nods':
        return 5
    x = plain(build(d['it']))
    if d['it'].get('dropname'):
        del x.ConceptNameCodeSequence
    if defect == 'novt':
        del x.ValueType
    elif defect == 'badvt':
        x.ValueType = 'BOGUS'
    elif defect == 'noval':
        req = VT_REQUIRED[vt_of(d['it'])]
        delattr(x, req[d.get('which', 0) % len(req)])
    elif defect == 'noname':
        del x.ConceptNameCodeSequence
    elif defect == 'kidnorel':
        del x.ContentSequence[0].RelationshipType
    elif defect == 'kidbadvt':
        x.ContentSequence[0].ValueType = 'XX'
    return x


def run_impl(c):
    common.import_highdicom()
    from highdicom.sr.value_types import ContentSequence
    k = c['kind']
    if k == 'eq':
        return bool(build(c['a']) == build(c['b']))
    if k == 'slice':
        xs = list(range(c['n']))
        try:
            got = xs[slice(c['a'], c['b'], c['c'])]
        except ValueError:
            return Err('ValueError')
        ys = list(xs)
        del ys[slice(c['a'], c['b'], c['c'])]
        return [got, ys, len(got)]
    cache = {}

    def mk(it):
        # equal-but-distinct objects by default; sometimes the very same object again
        if c.get('reuse') and not is_junk(it):
            key = repr(sorted(it.items()))
            if key not in cache:
                cache[key] = build(it)
            return cache[key]
        return build(it)
    if k == 'fromseq':
        dsl = [build_ds(d) for d in c['ds']]
        seq = catch(lambda: ContentSequence.from_sequence(dsl, is_root=c['root'], is_sr=c['sr'], copy=c['copy']))
        if isinstance(seq, Err):
            return seq
        return _run_ops(seq, c, mk)
    items0 = [mk(i) for i in c['init']]
    if c.get('via'):
        via = catch(lambda: ContentSequence(items0, is_root=c['via'][0], is_sr=c['via'][1]))
        if not isinstance(via, Err):
            items0 = via
    seq = catch(lambda: ContentSequence(items0, is_root=c['root'], is_sr=c['sr']))
    if isinstance(seq, Err):
        return seq
    if k == 'multi':
        return _run_mops(seq, c, mk)
    return _run_ops(seq, c, mk)


# ---------------------------------------------------------------------------
# model term
# ---------------------------------------------------------------------------
def _b(x):
    return 'true' if x else 'false'


def citem(it):
    if it == JUNK:
        return '(Item false 0 0 false false 0)'
    if it == JUNKDS:
        return '(Item false 0 0 false false 1)'
    t = tup(it)
    return f'(Item true {t[0]} {t[1]} {_b(t[2])} {_b(t[3])} {t[4]})'


def citems(its):
    return '[' + '; '.join(citem(i) for i in its) + ']'


def oz(x):
    return 'None' if x is None else f'(Some {zlit(x)})'


def cds(d, x=False):
    """x: for from_sequence_x (value type codes 1..15; an unknown value type is 99, not 3)"""
    it, defect = d['it'], d['defect']
    if defect == 'nods':
        return '(DSet false 0 false false 0 0 0 0)'
    vt = 0 if defect == 'novt' else (99 if x else 3) if defect == 'badvt' else VT_CODE[vt_of(it)]
    kids = 2 if defect == 'kidnorel' else 3 if defect == 'kidbadvt' else 1 if it['node'] else 0
    hasname = defect != 'noname' and not it.get('dropname')
    return (f"(DSet true {vt} {_b(defect != 'noval')} {_b(hasname)} {nk(it)} {it['rel']} "
            f"{kids} {pay(it)})")


def cop(op):
    k = op[0]
    if k == 'pop':
        return f'Pop {zlit(-1 if op[1] is None else op[1])}'
    if k == 'remove':
        return f'Remove {citem(op[1])}'
    if k == 'reverse':
        return 'Reverse'
    if k == 'clear':
        return 'Clear'
    if k == 'extend_self':
        return 'ExtendSelf'
    if k == 'iadd_self':
        return 'IAddSelf'
    return f'Op ({cop0(op)})'


def cop0(op):
    k = op[0]
    if k == 'append':
        return f'Append {citem(op[1])}'
    if k == 'extend':
        return f'Extend {citems(op[1])}'
    if k == 'iadd':
        return f'IAdd {citems(op[1])}'
    if k == 'insert':
        return f'Insert {zlit(op[1])} {citem(op[2])}'
    if k == 'setint':
        return f'SetInt {zlit(op[1])} {citem(op[2])}'
    if k == 'setslice':
        return f'SetSlice {oz(op[1])} {oz(op[2])} {oz(op[3])} {citems(op[4])}'
    if k == 'delint':
        return f'DelInt {zlit(op[1])}'
    if k == 'delslice':
        return f'DelSlice {oz(op[1])} {oz(op[2])} {oz(op[3])}'
    raise AssertionError(k)


def cderive(how):
    k = how[0]
    if k == 'ctor':
        return f'DCtor {_b(how[1])} {_b(how[2])}'
    if k == 'setattr':
        return 'DCtor false true'        # ContentItem.__setattr__: ContentSequence(value), default flags
    if k == 'deepcopy':
        return 'DCopy'
    if k == 'find':
        return f'DFind {zlit(how[1])}'
    if k == 'nodes':
        return 'DNodes'
    raise AssertionError(k)


def cmop(m):
    if m[0] == 'on':
        return f'MOn {zlit(m[1])} ({cop(m[2])})'
    return f'MDerive {zlit(m[1])} ({cderive(m[2])})'


def coq_term(c):
    k = c['kind']
    if k == 'eq':
        return f"(run_eq {citem(c['a'])} {citem(c['b'])})"
    if k == 'slice':
        return f"(run_slice {zlit(c['n'])} {oz(c['a'])} {oz(c['b'])} {oz(c['c'])})"
    names = '[' + '; '.join(zlit(n) for n, _ in find_keys(c)) + ']'
    if k == 'multi':
        mops = '[' + '; '.join(cmop(m) for m in c['mops']) + ']'
        return (f"(run_multi {_b(c['root'])} {_b(c['sr'])} (FromList {citems(c['init'])}) {names} "
                f"{citems(c['qs'])} {mops})")
    ops = '[' + '; '.join(cop(o) for o in c['ops']) + ']'
    if k == 'fromseq' and c.get('x'):
        dsx = '[' + '; '.join(cds(d, x=True) for d in c['ds']) + ']'
        return (f"(run_xhistory_x {_b(c['root'])} {_b(c['sr'])} {dsx} {names} "
                f"{citems(c['qs'])} {ops})")
    if k == 'fromseq':
        ctor = '(FromSeq [' + '; '.join(cds(d) for d in c['ds']) + '])'
    else:
        ctor = f"(FromList {citems(c['init'])})"
    return (f"(run_xhistory {_b(c['root'])} {_b(c['sr'])} {ctor} {names} "
            f"{citems(c['qs'])} {ops})")


# ---------------------------------------------------------------------------
# oracle: plain list + recomputed filter
# ---------------------------------------------------------------------------
def _check_obs(ref, obs, c, where, root=None, sr=None):
    root = c['root'] if root is None else root
    sr = c['sr'] if sr is None else sr
    items, finds, idx, cont, nodes, r_root, r_sr, counts = obs[:8]
    got = [tuple(x) for x in items]
    if got != ref:
        return f'{where}: list is {got}, plain list gives {ref}'
    if (r_root, r_sr) != (root, sr):
        return f'{where}: flags changed to {(r_root, r_sr)}'
    for t in ref:
        if basic_bad(t, root, sr):
            return f'{where}: item {t} breaks the relationship-type rule of a {"root" if root else "non-root SR"} sequence'
    for (n, code), f in zip(find_keys(c), finds):
        want = sorted(t for t in ref if t[0] == n)
        key = f'name {n} as a pydicom Code' if code else f'name {n}'
        if isinstance(f, Err):
            return f'{where}: find({key}) raised {f.kind}; {len(want)} item(s) with that name are in the list'
        if sorted(tuple(x) for x in f) != want:
            return f'{where}: find({key}) = {f}, items with that name in the list: {want}'
    for q, i, m, cnt in zip(c['qs'], idx, cont, counts):
        t = tup(q)
        if cnt != (0 if t == JUNK else ref.count(t)):
            return f'{where}: count({t}) = {cnt}, the list holds it {0 if t == JUNK else ref.count(t)} time(s)'
        if t == JUNK:
            if i != Err('TypeError'):
                return f'{where}: index(non-item) = {i}'
            continue
        if t in ref:
            if i != ref.index(t):
                return f'{where}: index({t}) = {i}, first position in the list is {ref.index(t)}'
            if m is not True:
                return f'{where}: ({t} in seq) = {m} but the item is in the list'
        else:
            if i != Err('ValueError'):
                return f'{where}: index({t}) = {i} but the item is not in the list'
            if m is not False:
                return f'{where}: ({t} in seq) = {m} but the item is not in the list'
    want_nodes = [t for t in ref if t[3]]
    if isinstance(nodes, Err):
        return f'{where}: get_nodes raised {nodes.kind}; node items in the list: {want_nodes}'
    if [tuple(x) for x in nodes] != want_nodes:
        return f'{where}: get_nodes = {nodes}, node items in the list: {want_nodes}'
    if len(obs) > 8:
        # reading: seq[i], seq[a:b:c], reversed(seq) against the plain list
        r_int, r_sl, r_rev = obs[8]
        for i, g in zip(READ_INTS, r_int):
            want = ref[i] if -len(ref) <= i < len(ref) else Err('IndexError')
            if (g if isinstance(g, Err) else tuple(g)) != want:
                return f'{where}: seq[{i}] = {g}, the list has {want}'
        for (a, b, c), g in zip(READ_SLICES, r_sl):
            want = Err('ValueError') if c == 0 else ref[slice(a, b, c)]
            if (g if isinstance(g, Err) else [tuple(x) for x in g]) != want:
                return f'{where}: seq[{a}:{b}:{c}] = {g}, the list gives {want}'
        if [tuple(x) for x in r_rev] != ref[::-1]:
            return f'{where}: reversed(seq) = {r_rev}, the list backwards is {ref[::-1]}'
    return None


def _judge_op(ref, root, sr, op, e, got, where):
    """one operation on one sequence, judged against the plain list: (list afterwards, message or None)"""
    if isinstance(e, Err) and e.kind == 'DidNotTerminate':
        return ref, f'{where}: did not terminate within {HANG_S} s (a plain list is doubled by this operation)'
    xs = [tup(i) for i in entering(op)]
    new, pyerr = ref_apply(ref, op)
    junk = JUNK in [tup(i) for i in mentioned(op)]
    bad = any(basic_bad(t, root, sr) for t in xs if t != JUNK)
    lax = any(init_bad(t, root, sr) for t in xs if t != JUNK)
    if e is None or isinstance(e, list):
        if junk or bad or pyerr:
            return ref, f'{where}: accepted, but must be refused (junk={junk}, rule broken={bad}, list error={pyerr})'
        if op[0] == 'pop':
            want = ref[-1 if op[1] is None else op[1]]
            if e is None or tuple(e) != want:
                return ref, f'{where}: pop returned {e}, the list had {want} there'
        elif e is not None:
            return ref, f'{where}: returned {e}'
        return new, None
    allowed = set()
    if junk:
        allowed.add('TypeError')
    if bad or lax:
        allowed.add('AttributeError')
    if root and any(not t[2] for t in xs if t != JUNK):
        allowed.add('TypeError')      # not a container at the root
    if pyerr:
        allowed.add(pyerr)
    if e.kind not in allowed:
        return ref, f'{where}: raised {e.kind}; acceptable here: {sorted(allowed) or "no error"}'
    if op[0] in ('extend', 'iadd'):
        kk = len(got) - len(ref)
        if not (0 <= kk < len(xs)) or got != ref + xs[:kk]:
            return ref, f'{where}: refused extend left {got}, not the list plus a proper prefix of the new items'
        t = xs[kk]
        if not (t == JUNK or init_bad(t, root, sr) or basic_bad(t, root, sr)):
            return ref, f'{where}: extend stopped at admissible item {t}'
        return ref + xs[:kk], None
    # every other refused operation must leave the list as it was (checked by the caller)
    return ref, None


def _construction(c, out):
    """('done', verdict) or ('go', plain list): the construction from c['init'] judged by the rule"""
    root, sr = c['root'], c['sr']
    ref = [tup(i) for i in c['init']]
    must = (root and not sr) or any(t == JUNK for t in ref) or \
        any(basic_bad(t, root, sr) for t in ref if t != JUNK) or \
        any(d['defect'] for d in c.get('ds', []))        # from_sequence: a malformed dataset
    may = must or any(init_bad(t, root, sr) for t in ref if t != JUNK)
    if isinstance(out, Err):
        return 'done', (None if may else f'valid construction refused with {out.kind}')
    if must:
        return 'done', 'construction accepted items it must refuse'
    return 'go', ref


def oracle_multi(c, out):
    """a family of sequences: every member is judged against a plain list OF ITS OWN.  An operation changes the
    plain list of the member it addresses only, so a member that follows an operation made on another member -
    or whose index does - is reported by the per-member checks."""
    st, ref = _construction(c, out)
    if st == 'done':
        return ref
    fam = [[ref, c['root'], c['sr']]]
    m = _check_obs(ref, out[0][0], c, 'after construction')
    if m:
        return m
    for j, (mop, (e, obss)) in enumerate(zip(c['mops'], out[1:]), 1):
        where = f'after step {j} {mop[0]} {mop[2][0]} (sequence {mop[1]})'
        if isinstance(e, Err) and e.kind == 'DidNotTerminate':
            return f'{where}: did not terminate within {HANG_S} s'
        i = mop[1]
        if not 0 <= i < len(fam):
            if e != Err('NoSequence'):
                return f'{where}: harness: no such sequence, got {e}'
        elif mop[0] == 'on':
            if len(obss) != len(fam):
                return f'{where}: harness: {len(obss)} sequences observed, {len(fam)} exist'
            ref, root, sr = fam[i]
            fam[i][0], m = _judge_op(ref, root, sr, mop[2], e, [tuple(x) for x in obss[i][0]], where)
            if m:
                return m
        else:
            how = mop[2]
            src, root, sr = fam[i]
            if how[0] in ('ctor', 'setattr'):
                r2, s2 = (how[1], how[2]) if how[0] == 'ctor' else (False, True)
                must = (r2 and not s2) or any(basic_bad(t, r2, s2) for t in src)
                may = must or any(init_bad(t, r2, s2) for t in src)
                if isinstance(e, Err):
                    if not may:
                        return f'{where}: construction from a sequence of admissible items refused with {e.kind}'
                elif must:
                    return f'{where}: the new sequence accepted items its own rule refuses'
                else:
                    fam.append([list(src), r2, s2])
            elif isinstance(e, Err):
                return f'{where}: raised {e.kind}'
            elif how[0] == 'deepcopy':
                fam.append([list(src), root, sr])
            elif how[0] == 'nodes':
                fam.append([[t for t in src if t[3]], root, sr])
            else:
                # find: exactly the items with that name, once each; their order is the index's business
                if len(obss) != len(fam) + 1:
                    return f'{where}: harness: {len(obss)} sequences observed, {len(fam) + 1} expected'
                got = [tuple(x) for x in obss[-1][0]]
                want = sorted(t for t in src if t[0] == how[1])
                if sorted(got) != want:
                    return f'{where}: find returned {got}, items with that name in the list: {want}'
                fam.append([got, root, sr])
        if len(obss) != len(fam):
            return f'{where}: {len(obss)} sequences exist, {len(fam)} expected'
        for n, ((ref, root, sr), obs) in enumerate(zip(fam, obss)):
            m = _check_obs(ref, obs, c, f'{where}, sequence {n}', root, sr)
            if m:
                return m
    return None


def oracle(c, out):
    k = c['kind']
    if k == 'eq':
        want = tup(c['a']) == tup(c['b'])
        return None if out == want else f'item equality {out}, attribute tuples equal: {want}'
    if k == 'slice':
        return None        # the implementation side IS the interpreter; this kind only ties the model
    if k == 'multi':
        return oracle_multi(c, out)
    root, sr = c['root'], c['sr']
    st, ref = _construction(c, out)
    if st == 'done':
        return ref
    m = _check_obs(ref, out[0], c, 'after construction')
    if m:
        return m
    for j, (op, (e, obs)) in enumerate(zip(c['ops'], out[1:]), 1):
        where = f'after op {j} {op[0]}'
        got = [tuple(x) for x in obs[0]] if obs is not None else None
        ref, m = _judge_op(ref, root, sr, op, e, got, where)
        if m:
            return m
        m = _check_obs(ref, obs, c, where)
        if m:
            return m
    return None


def nontrivial(c, out):
    if c['kind'] in ('eq', 'slice'):
        return True
    if isinstance(out, Err):
        return True
    if c['kind'] == 'multi':
        # a second sequence came into being and an operation was accepted afterwards
        born = [j for j, (m, (e, _)) in enumerate(zip(c['mops'], out[1:])) if m[0] == 'derive' and e is None]
        return bool(born) and any(m[0] == 'on' and not isinstance(e, Err)
                                  for m, (e, _) in list(zip(c['mops'], out[1:]))[born[0] + 1:])
    accepted = sum(1 for e, _ in out[1:] if not isinstance(e, Err))
    if len(out) > 1 and out[-1][1] is None:
        return True
    return (accepted >= 2 and len(out[-1][1][0] if len(out) > 1 else out[0][0]) >= 2) or accepted < len(out) - 1


def shrink(c):
    if 'ops' not in c:
        return
    if c['kind'] == 'multi':
        mops = c['mops']
        for i in range(len(mops) - 1, -1, -1):
            if mops[i][0] == 'on':
                yield dict(c, mops=mops[:i] + mops[i + 1:])
            else:
                # dropping a derivation: the sequences born later move down by one
                born = 1 + sum(1 for m in mops[:i] if m[0] == 'derive')
                rest = [m for m in mops[i + 1:] if m[1] != born]
                yield dict(c, mops=mops[:i] + [[m[0], m[1] - (m[1] > born), m[2]] for m in rest])
        for i in range(len(c['init'])):
            yield dict(c, init=c['init'][:i] + c['init'][i + 1:])
        for i in range(len(c['qs'])):
            yield dict(c, qs=c['qs'][:i] + c['qs'][i + 1:])
        for i in range(len(c.get('names', []))):
            yield dict(c, names=c['names'][:i] + c['names'][i + 1:])
        return
    for i in range(len(c['ops']) - 1, -1, -1):
        yield dict(c, ops=c['ops'][:i] + c['ops'][i + 1:])
    for i in range(len(c['init'])):
        if 'ds' in c:
            ds = c['ds'][:i] + c['ds'][i + 1:]
            yield dict(c, ds=ds, init=[d['it'] for d in ds])
        else:
            yield dict(c, init=c['init'][:i] + c['init'][i + 1:])
    for i in range(len(c['qs'])):
        yield dict(c, qs=c['qs'][:i] + c['qs'][i + 1:])
    for i in range(len(c.get('names', []))):
        yield dict(c, names=c['names'][:i] + c['names'][i + 1:])
    for j, op in enumerate(c['ops']):
        xs = entering(op)
        if op[0] in ('extend', 'iadd', 'setslice') and len(xs) > 0:
            for i in range(len(xs)):
                op2 = list(op)
                op2[-1] = xs[:i] + xs[i + 1:]
                yield dict(c, ops=c['ops'][:j] + [op2] + c['ops'][j + 1:])


if __name__ == '__main__':
    sys.exit(common.main(sys.modules[__name__]))
