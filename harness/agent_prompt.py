import sys
pid = sys.argv[1]; extra = sys.argv[2] if len(sys.argv) > 2 else ''
print(f"""You are a builder of a Coq-based verification framework. Build the complete check for property {pid} of highdicom.

FIRST read /verif/harness/BUILDING.md in full and follow it exactly (files to deliver, hard rules, API, Coq practice). Then read the {pid} line of /verif/properties.jsonl, the '### {pid}' section (and §2, §4) of /verif/DESIGN.md, the C12 exemplar files, /verif/harness/common.py, and the anchored highdicom sources under /repo/src/highdicom (current state, 40 fix commits already applied).

Work plan and time budget (about 3 hours of work in total; other builders work in parallel in the same /verif tree on other properties — touch only your own files):
 1. (first ~60-80 min) Minimum viable core: model of the most central functions + run_* boundary functions, harness/c{pid[1:]}.py with good generators, real-API runner and independent oracle, 2-4 real theorems; `./check {pid} quick` exits 0 with 0 disagreements. Use `export VERIF_JOBS=6` when you run checks (shared 16-core machine).
 2. Then deepen: more of the DESIGN's theorems (full-strength statements, induction/invariants/refinement), more API surface in the correspondence (all entry points / configurations the property's quantifier names), malformed stream, shrinker, thorough tier.
 3. Mutation self-test with a scratch worktree (VERIF_REPO=/tmp/wt/c{pid[1:]}) as described in BUILDING.md; remove the worktree afterwards.
 4. Write harness/claims/{pid}.json honestly, validate the evidence file, final report.
Throw-away fuzz scripts from the design phase that drive the relevant real APIs may help as a starting point for generators: /root/scratch/fuzz/*.py (they use an older stub path; in /verif use common.import_highdicom()).
If a proof is taking too long (> 25 min on one lemma), state it as `_partial` with the guard you can prove and move on; breadth with honest labels beats one deep lemma. Never leave Admitted/admit/Axiom. Keep quick runtime <= ~90 s.
{extra}
Your final message must be the report described under 'Done means' in BUILDING.md.""")
