"""C08 - volume operations never move a voxel in physical space.

Implementation driven (real code from <repo>/src/highdicom/volume.py, spatial.py):
  Volume / VolumeGeometry: __getitem__ (ints, slices, negative steps), flip_spatial,
  permute_spatial_axes, swap_spatial_axes, pad (four width forms, six modes, per_channel),
  pad_to_spatial_shape, crop_to_spatial_shape, pad_or_crop_to_spatial_shape,
  to_patient_orientation, ensure_handedness, copy, with_array, get_channel,
  permute_channel_axes, squeeze_channel, random_flip_spatial, random_permute_spatial_axes,
  random_spatial_crop (np.random seeded per call; the model receives the drawn values),
  index tuples with more than three items (refused, D92), get_closest_patient_orientation,
  handedness; coordinate -> index QUERIES interleaved with the operations (kinds history_query,
  query_op_query): inverse_affine, get_geometry().inverse_affine, map_reference_to_indices (plain and
  round_output + check_bounds), VolumeToVolumeTransformer with the object as target and as source,
  a probe "which voxel and which values lie at the coordinate an initial voxel had", and the other
  derived geometric attributes (spacing, direction, position, center_position, handedness).
Model: coq/theories/C08_Model.v; theorems: C08_Props.v.

A case is a random history (1..8 operations) applied to a real hd.Volume and, in lock
step, to its VolumeGeometry.  After every step the result (shape, affine, channel table,
array, coordinate system, frame of reference) of both objects is compared with the model;
a refused operation leaves the object as it was and the history goes on.

A query event asks the CURRENT volume and its geometry (both, in lock step) and leaves them as they
are; its answers are judged against the affine / array the object reports at that moment (numpy's own
inverse of the reported affine, the oracle's own physical-coordinate location map), so a derived
attribute that went stale - because the object, or the object it was derived from, had been queried
before - is reported, and so is any dependence of an answer on the query history.

SCALE (kind scale_entry, and 15% of all other histories): the property has no length scale, so the volumes
come in every unit - mm (radiology), a fraction of a micrometre (whole-slide imaging, micro-CT), nanometres
and 'km' - with axes tilted against the reference axes by rational rotations of 2.9 .. 0.0001 degrees (one
or two axes), axes of very different spacing, origins up to 2e6 voxels away and origin components that are
tiny but not zero.  Such affines hold legitimate non-zero entries many orders of magnitude below the voxel
size (and below any absolute "epsilon in mm"); every entry point that touches the affine is applied to them
and followed by queries.  Every tolerance of the oracle is RELATIVE to the voxel size of the objects at hand.

Oracle (independent of the model): after every step every voxel of the result is located
in the previous volume BY ITS PHYSICAL COORDINATE (computed from the two affines); retained
voxels must carry the previous values in all channels, the set of retained voxels must be
the one numpy itself selects for the operation (np indexing / flip / transpose / pad),
voxels without a pre-image must be padding of the requested mode, the affine must stay
scaled orthogonal, the geometry object must undergo the same change, the receiver must be
unchanged, channels must be carried along; at the end the composed map is checked against
the initial volume.
"""
import itertools
import os
import sys
from fractions import Fraction as F

sys.path.insert(0, os.path.dirname(os.path.abspath(__file__)))
import common
from common import Err, catch, zlit, zl

PROPERTY = 'C08'
PROPS_FILE = 'C08_Props.v'
COQ_IMPORTS = ['C08_Model']
TOL = F(1, 10**9)
ORACLE_PREMISES = [
    'float64 arithmetic of numpy (affine products, mean) stays within 1e-9 relative of the exact '
    'rational model; exact on the dyadic/integer affines that most cases use',
    'numpy basic slicing, np.transpose and np.pad(constant/edge) are modelled by their index maps '
    '(Base/PySlice.v for slices); np.argsort of 3 elements is stable',
    'random_* methods: the values np.random draws (randint / permutation after np.random.seed) are inputs of '
    'the model, predicted by the harness with the same seed',
    'np.linalg.inv of a 4x4 affine is modelled by Cramer\'s rule over the rationals (adjugate / determinant); '
    'np.sqrt enters only squared (spacing ** 2, direction * spacing, pixel measures ** 2, extent ** 2, plane orientation '
    'cosines * pixel spacing) so the compared values are rational; DICOM DS formatting (16 characters) of plane '
    'positions / orientation / pixel measures stays within the comparison tolerance',
    'np.around at an exact half-way coordinate is not modelled: both sides report such a point as undecided',
    'model comparison of affine entries is |a - b| <= 1e-9 (1 + |b|) in mm: relative to the voxel only down to '
    'micrometre voxels (at nm scale it is the oracle, whose tolerances are relative to the voxel size, that judges); '
    'origins are kept within 2e6 voxels of the frame-of-reference origin so that float64 cancellation in '
    'np.linalg.inv stays below the tolerance',
]
MODELLED = ('volume.py: _prepare_getitem_index, _prepare_pad_width, _permute_affine, flip_spatial, '
            'swap_spatial_axes, pad_to/crop_to/pad_or_crop_to_spatial_shape, to_patient_orientation, '
            'handedness, ensure_handedness, VolumeGeometry.__getitem__/pad/permute_spatial_axes/copy/with_array, '
            'Volume.__getitem__/pad/permute_spatial_axes/copy/with_array/get_channel/permute_channel_axes/'
            'squeeze_channel; random_flip_spatial, random_permute_spatial_axes, random_spatial_crop (given the draws); '
            'spatial.py: _transform_affine_matrix(permute_indices), _translate_affine_matrix, '
            'get_closest_patient_orientation, _normalize_patient_orientation; queries: inverse_affine, '
            'map_indices_to_reference, map_reference_to_indices(round_output, check_bounds), '
            'VolumeToVolumeTransformer.affine and __call__ (plain; round_output + check_bounds), spacing, direction, '
            'position, center_position, handedness, get_geometry / copy, get_plane_position(s), get_plane_orientation, '
            'get_pixel_measures, get_affine(output_convention) (spatial._transform_affine_to_convention: '
            'permute_reference / flip_reference), spacing_vectors, unit_vectors, physical_extent, voxel_volume, '
            'physical_volume, nearest_center_indices, center_indices; the type dispatch of _prepare_getitem_index '
            '(foreign index items -> TypeError, checked in item order)')
STRATA = ['history', 'history_malformed', 'single', 'closest', 'geom_with_array', 'history_query',
          'query_op_query', 'scale_entry', 'get_badtype']
RULE = ('history: 1..8 random operations from the full alphabet on volumes with shape <= 5 per axis, 0-2 '
        'channel dimensions, directions = 48 signed axis permutations, rational rotations (3-4-5, 5-12-13, '
        '1-2-2), integer scaled-orthogonal matrices incl. 45-degree ties, both handednesses, dyadic spacings; '
        'history_malformed: the same with every guard violated somewhere (incl. index tuples of 4-5 items, bad '
        'random_* axes, squeeze of missing / non-singleton / duplicate channels); single: one boundary operation per '
        'case (every slice start/stop/step around the bounds on a length-1..4 axis, all pad width forms x modes); '
        'closest: get_closest_patient_orientation/handedness of random affines; history_query: histories of 1..6 '
        'operations (15% malformed) with query events (1-3 of 12 query kinds, points inside and outside the '
        'box) before the first operation (60%), after each operation (50%) and at the end (always: '
        'inverse_affine + probe of initial voxels + 1-2 more); query_op_query: one query kind, one operation '
        'of every entry point (each kind of the alphabet), then every query kind on the result; non-trivial = at least one '
        'accepted operation that changes shape, affine or array order; distinct by case hash; scale_entry: one '
        'operation of each of 18 entry points that touch the affine (identity / cyclic permutation, swap, '
        'to_patient_orientation, ensure_handedness by swap and by flip (asked for the handedness the object lacks), '
        'flip, strided / int / plain getitem, crop_to, pad, pad_to, pad_or_crop, random_*; copy) on a volume of unit '
        'um (each entry point), nm / km / mm (the permuting ones in turn, the rest at random) whose axes are tilted by '
        'tan(angle/2) = 1/n, n in 40 .. 10^6, about one or two axes, SLIDE or PATIENT, then queries (direction*spacing, '
        'position, spacing^2, probe of initial voxels + one of inverse / find / center / transformer), 60% continued '
        'by a permuting operation and queries again; 15% of the volumes of all other kinds are drawn from the same '
        'scales / tilts (12% of the mm ones are tilted); the query alphabet has 22 kinds: the 12 above + '
        'get_plane_position (planes inside and outside 0 <= k < shape[0]), get_plane_positions, get_plane_orientation, '
        'get_pixel_measures, get_affine(convention: all 48, None, 7 invalid; as str and as list), spacing_vectors / '
        'unit_vectors, physical_extent / voxel_volume / physical_volume, nearest_center_indices / center_indices, '
        'VolumeToVolumeTransformer(initial, current)(points) plain and rounded + bounds-checked (one call per point; a '
        'coordinate exactly half-way between two voxels is reported as undecided by both sides); get_badtype: '
        '__getitem__ with index items of foreign types (np.int64/int32/uint8, float, list, None, Ellipsis, str, '
        'ndarray, nested tuple) alone and inside tuples of 1..5 items, before / after out-of-range items, and bool items '
        '(accepted as ints), on volume and geometry')
NOT_EXECUTED = ['match_geometry (C09)',
                'VolumeToVolumeTransformer.__call__ on float inputs and with several points per bounds-checked call',
                'from_attributes / from_components constructors (C09/C10)',
                'normalize_mean_std / normalize_min_max / clip / astype (value operations, not spatial)']
EXHAUSTIVE = {'quick': False, 'thorough': False}

LETTERS = 'LRPAHF'
MODES = ['CONSTANT', 'EDGE', 'MINIMUM', 'MAXIMUM', 'MEAN', 'MEDIAN']
PM = {'CONSTANT': 'PConst', 'EDGE': 'PEdge', 'MINIMUM': 'PMin', 'MAXIMUM': 'PMax', 'MEAN': 'PMean',
      'MEDIAN': 'PMedian'}


# --------------------------------------------------------------------------- channel universe
def _descs():
    from highdicom.volume import ChannelDescriptor, RGB_COLOR_CHANNEL_DESCRIPTOR
    from highdicom.enum import RGBColorChannels
    rgb = list(RGBColorChannels)
    return [
        ('SegmentNumber', 'SegmentNumber', lambda n: int(n), lambda v: int(v)),
        ('OpticalPathIdentifier', 'OpticalPathIdentifier', lambda n: f'p{n}', lambda v: int(v[1:])),
        ('DiffusionBValue', 'DiffusionBValue', lambda n: n + 0.5, lambda v: int(v - 0.5)),
        (RGB_COLOR_CHANNEL_DESCRIPTOR, 'RGBColorChannel', lambda n: rgb[n % 3], lambda v: rgb.index(v)),
        (ChannelDescriptor('custom_int', is_custom=True, value_type=int), 'custom_int',
         lambda n: int(n), lambda v: int(v)),
    ]


NDESC = 5
# squeeze_channel([subset of the channels]) keeps the unlisted channels (fix D94)
SQUEEZE_SUBSETS = True


def _chan_dict(chans):
    D = _descs()
    return {D[d][0]: [D[d][2](x) for x in vals] for d, vals in chans}


def _chan_table(vol):
    D = _descs()
    kw = {D[i][1]: i for i in range(NDESC)}
    out = []
    for desc in vol.channel_descriptors:
        i = kw[desc.keyword]
        out.append([i, [D[i][3](v) for v in vol.get_channel_values(desc)]])
    return out


# --------------------------------------------------------------------------- directions
def _signed_perms():
    out = []
    for p in itertools.permutations(range(3)):
        for s in itertools.product((1, -1), repeat=3):
            cols = []
            for d in range(3):
                c = [0, 0, 0]
                c[p[d]] = s[d]
                cols.append(c)
            out.append(cols)
    return out


SIGNED_PERMS = _signed_perms()          # 48 (24 right-handed, 24 left-handed), as 3 columns
RATIONAL = [
    [[F(3, 5), F(4, 5), 0], [F(-4, 5), F(3, 5), 0], [0, 0, 1]],
    [[1, 0, 0], [0, F(5, 13), F(12, 13)], [0, F(-12, 13), F(5, 13)]],
    [[F(1, 3), F(2, 3), F(2, 3)], [F(2, 3), F(1, 3), F(-2, 3)], [F(2, 3), F(-2, 3), F(1, 3)]],
    [[F(2, 3), F(-1, 3), F(2, 3)], [F(2, 3), F(2, 3), F(-1, 3)], [F(-1, 3), F(2, 3), F(2, 3)]],
    [[F(4, 5), 0, F(-3, 5)], [0, 1, 0], [F(3, 5), 0, F(4, 5)]],
]
INTEGER = [      # scaled orthogonal with integer entries (exact in float64); incl. 45-degree ties
    [[3, 4, 0], [-4, 3, 0], [0, 0, 5]],
    [[1, 2, 2], [2, 1, -2], [2, -2, 1]],
    [[1, 1, 0], [-1, 1, 0], [0, 0, 1]],
    [[1, 0, 1], [0, 2, 0], [-1, 0, 1]],
    [[0, 1, 1], [0, -1, 1], [3, 0, 0]],
    [[2, 2, 1], [1, -2, 2], [2, -1, -2]],
]


# --------------------------------------------------------------------------- scale of the affine
# The property has no length scale: an operation may not depend on how large a voxel is in mm.
# Units a spacing is drawn from (mm per voxel): radiology (mm), whole-slide / micro-CT (a fraction of a
# micrometre .. a micrometre), nanometre (electron microscopy, or metres mistaken for mm the other way
# round) and 'km' (micrometres written down as if they were mm).
UNITS = {
    'mm': [F(1)],
    'um': [F(1, 1000), F(1, 4000), F(1, 2000), F(1, 4096), F(1, 8000)],
    'nm': [F(1, 10**6), F(1, 2**20)],
    'km': [F(1000), F(4096)],
}
SCALES = ['mm', 'um', 'nm', 'km']
# small tilts: rational rotations with tan(angle / 2) = 1 / n  (2.9 deg .. 0.0001 deg), so that
# spacing * sin(angle) is a legitimate non-zero entry that is orders of magnitude below the spacing
SMALL_N = [40, 76, 100, 250, 1000, 5000, 10**5, 10**6]


def _rot_cols(axis, t):
    """Columns of the rational rotation about `axis` with tan(angle / 2) = t."""
    c, s = (1 - t * t) / (1 + t * t), 2 * t / (1 + t * t)
    a, b = [(1, 2), (2, 0), (0, 1)][axis]
    cols = [[F(int(i == j)) for i in range(3)] for j in range(3)]
    cols[a][a], cols[a][b] = c, s
    cols[b][a], cols[b][b] = -s, c
    return cols


def _mat_mul(A, B):
    """A @ B for matrices given as lists of columns."""
    return [[sum(A[k][i] * B[j][k] for k in range(3)) for i in range(3)] for j in range(3)]


def _small_rot(rng):
    """A rotation by a small angle about one axis, or about two axes one after the other."""
    axes = rng.sample(range(3), rng.choice([1, 1, 2]))
    M = None
    for ax in axes:
        # (two rotations: small denominators, the exact rationals of the model grow with their product)
        Rm = _rot_cols(ax, F(rng.choice([1, -1]), rng.choice(SMALL_N if len(axes) == 1 else SMALL_N[:5])))
        M = Rm if M is None else _mat_mul(Rm, M)
    return M


def _gen_affine(rng, scale=None, tilt=None):
    if scale is None:
        scale = 'mm' if rng.random() < 0.85 else rng.choice(['um', 'um', 'um', 'nm', 'km'])
    if tilt is None:
        tilt = rng.random() < (0.12 if scale == 'mm' else 0.6)
    k = rng.random()
    if tilt:
        cols = _small_rot(rng)
    elif k < 0.45:
        cols = rng.choice(SIGNED_PERMS)
    elif k < 0.7:
        cols = rng.choice(RATIONAL)
    else:
        cols = rng.choice(INTEGER)
    cols = [[F(x) for x in c] for c in cols]
    # compose with a signed permutation of the columns (keeps orthogonality, changes handedness)
    sp = rng.choice(SIGNED_PERMS)
    new = []
    for d in range(3):
        src = max(range(3), key=lambda i: abs(sp[d][i]))
        sg = sp[d][src]
        new.append([sg * x for x in cols[src]])
    u = rng.choice(UNITS[scale])
    spac = [u * F(rng.choice([1, 1, 2, 3, 5]), rng.choice([1, 1, 2, 4])) for _ in range(3)]
    if scale != 'mm' and rng.random() < 0.35:
        # one axis much coarser than the others (slice thickness / focal plane distance)
        spac[rng.randrange(3)] *= rng.choice([4, 10, 40])
    new = [[x * spac[d] for x in new[d]] for d in range(3)]
    if scale == 'mm' and not tilt:
        pos = [F(rng.randint(-40, 40), rng.choice([1, 2, 4])) for _ in range(3)]
    else:
        # origin: a few .. a few hundred thousand voxels away from the origin of the frame of reference,
        # sometimes with a component that is tiny (but not zero) in mm
        far = rng.choice([1, 1, 100, 10**4])
        pos = [u * far * F(rng.randint(-40, 40), rng.choice([1, 2, 4])) for _ in range(3)]
        if rng.random() < 0.35:
            pos[rng.randrange(3)] = rng.choice([F(0), u / 64, F(3, 10**6), F(-1, 2**18), F(7, 10**7),
                                                -u * F(5, 2)])
    return [str(x) for c in new for x in c] + [str(x) for x in pos]


def _gen_volume(rng, small=False, hi=None):
    hi = hi or ([1, 1, 2, 2, 3, 3, 4, 5] if not small else [1, 2, 2, 3])
    shape = [rng.choice(hi) for _ in range(3)]
    nch = rng.choice([0, 0, 1, 1, 2])
    descs = rng.sample(range(NDESC), nch)
    chans = []
    for d in descs:
        n = rng.choice([1, 1, 2, 3])
        vals = rng.sample(range(0, 3), n) if d == 3 else rng.sample(range(1, 9), n)
        chans.append([d, vals])
    while _size(shape, chans) > 160:
        shape[shape.index(max(shape))] -= 1
    n = _size(shape, chans)
    data = rng.sample(range(-300, 700), n)
    return {'shape': shape, 'chans': chans, 'data': data,
            'dtype': rng.choice(['int', 'float']),
            'affine': _gen_affine(rng),
            'cs': 'PATIENT' if rng.random() < 0.9 else 'SLIDE',
            'for': rng.choice([None, 1, 2, 7])}


def _size(shape, chans):
    n = shape[0] * shape[1] * shape[2]
    for _, v in chans:
        n *= len(v)
    return n


# --------------------------------------------------------------------------- building the real objects
def _np_affine(aff):
    import numpy as np
    A = np.eye(4)
    f = [float(F(x)) for x in aff]
    for d in range(3):
        A[:3, d] = f[3 * d:3 * d + 3]
    A[:3, 3] = f[9:12]
    return A


def _np_array(shape, chans, data, dtype):
    import numpy as np
    full = list(shape) + [len(v) for _, v in chans]
    return np.array(data, dtype=np.int64 if dtype == 'int' else np.float64).reshape(full)


def _for_uid(n):
    return None if n is None else f'1.2.826.0.1.3680043.8.498.{n}'


def _mk_volume(c):
    from highdicom.volume import Volume
    A = _np_affine(c['affine'])
    v = Volume(_np_array(c['shape'], c['chans'], c['data'], c['dtype']), A,
               c['cs'], frame_of_reference_uid=_for_uid(c['for']),
               channels=_chan_dict(c['chans']) or None)
    A[:] = 12345.0      # the caller re-uses its float64 buffer: the volume must own a copy of the affine
    return v


def _py_index(ix):
    def item(x):
        return slice(*x['s']) if isinstance(x, dict) else x
    if isinstance(ix, list):
        return tuple(item(x) for x in ix)
    return item(ix)


def _py_xitem(x):
    import numpy as np
    if isinstance(x, dict) and 'bad' in x:
        n = x.get('v', 0)
        return {'np64': lambda: np.int64(n), 'np32': lambda: np.int32(n), 'npu8': lambda: np.uint8(abs(n)),
                'float': lambda: float(n), 'list': lambda: [n], 'none': lambda: None, 'ellipsis': lambda: Ellipsis,
                'str': lambda: 'a', 'nparr': lambda: np.array([n]), 'listidx': lambda: [n, 0],
                'tuple': lambda: (n,)}[x['bad']]()
    if isinstance(x, dict) and 'bool' in x:
        return bool(x['bool'])
    return slice(*x['s']) if isinstance(x, dict) else x


def _py_xindex(xi):
    """Index with items of foreign types: a list = a tuple of items, anything else = the index itself."""
    if isinstance(xi, list):
        return tuple(_py_xitem(x) for x in xi)
    return _py_xitem(xi)


def _x_is_bad(x):
    return isinstance(x, dict) and 'bad' in x


def _x_plain(x):
    """bool is an int"""
    return int(x['bool']) if isinstance(x, dict) and 'bool' in x else x


def _coq_xindex(xi):
    if isinstance(xi, list):
        return '(XOk [' + '; '.join('None' if _x_is_bad(x) else f'(Some {_coq_item(_x_plain(x))})' for x in xi) + '])'
    if _x_is_bad(xi):
        return 'XBadType'
    return '(XOk [Some ' + _coq_item(_x_plain(xi)) + '])'


def _pw(w):
    return w[1]


def _apply(obj, op, is_geom=False):
    """Apply one encoded operation to a Volume or VolumeGeometry."""
    import numpy as np
    k = op[0]
    if k == 'query':
        return obj          # queries are answered by _observe; the object stays (state tracking)
    if k == 'get':
        return obj[_py_index(op[1])]
    if k == 'flip':
        return obj.flip_spatial(op[1])
    if k == 'permute':
        return obj.permute_spatial_axes(op[1])
    if k == 'swap':
        return obj.swap_spatial_axes(op[1], op[2])
    if k == 'pad':
        return obj.pad(_pw(op[1]), mode=op[2], constant_value=float(F(op[3])), per_channel=op[4])
    if k == 'pad_to':
        return obj.pad_to_spatial_shape(op[1], mode=op[2], constant_value=float(F(op[3])), per_channel=op[4])
    if k == 'crop_to':
        return obj.crop_to_spatial_shape(op[1])
    if k == 'pad_or_crop':
        return obj.pad_or_crop_to_spatial_shape(op[1], mode=op[2], constant_value=float(F(op[3])),
                                                per_channel=op[4])
    if k == 'orient':
        o = op[1]
        return obj.to_patient_orientation(o if isinstance(o, str) else list(o))
    if k == 'handed':
        kw = {}
        if op[2] is not None:
            kw['flip_axis'] = op[2]
        if op[3] is not None:
            kw['swap_axes'] = op[3]
        return obj.ensure_handedness(op[1], **kw)
    if k == 'copy':
        return obj.copy()
    if k == 'rand_flip':
        np.random.seed(op[2])
        return obj.random_flip_spatial(op[1])
    if k == 'rand_permute':
        np.random.seed(op[2])
        return obj.random_permute_spatial_axes(op[1])
    if k == 'rand_crop':
        np.random.seed(op[2])
        return obj.random_spatial_crop(op[1])
    if is_geom:
        return None
    if k == 'squeeze':
        D = _descs()
        # custom descriptors must be passed as objects: squeeze_channel builds ChannelDescriptor(iden)
        # instead of resolving keywords against the volume's own channels (unlike get_channel)
        return obj.squeeze_channel(None if op[1] is None else
                                   [D[d][0] if (i % 2 or d >= 3) else D[d][1] for i, d in enumerate(op[1])])
    if k == 'with_array':
        arr = np.array(op[2], dtype=np.int64 if op[3] == 'int' else np.float64).reshape(op[1])
        return obj.with_array(arr, channels=None if op[4] is None else _chan_dict(op[4]))
    if k == 'get_channel':
        D = _descs()
        return obj.get_channel(keepdims=op[1], **{D[d][1]: D[d][2](x) for d, x in op[2]})
    if k == 'permute_channels':
        D = _descs()
        return obj.permute_channel_axes([D[d][0] if i % 2 else D[d][1] for i, d in enumerate(op[1])])
    raise ValueError(k)


def _num(x):
    x = float(x)
    return int(x) if x == int(x) else x


def _aff_out(A):
    return [float(A[i, d]) for d in range(3) for i in range(3)] + [float(A[i, 3]) for i in range(3)]


def _for_out(obj):
    u = obj.frame_of_reference_uid
    return None if u is None else int(str(u).rsplit('.', 1)[1])


def _snap_vol(v):
    return [list(int(x) for x in v.spatial_shape), _aff_out(v.affine), _chan_table(v),
            [_num(x) for x in v.array.ravel().tolist()],
            v.coordinate_system.value == 'PATIENT', _for_out(v)]


def _snap_geom(g):
    return [list(int(x) for x in g.spatial_shape), _aff_out(g.affine),
            g.coordinate_system.value == 'PATIENT', _for_out(g)]


# --------------------------------------------------------------------------- queries
QUERY_NAMES = ['inv', 'geom', 'rt', 'find', 'xf_to', 'xf_from', 'probe', 'sp2', 'dirsp', 'pos', 'center', 'hand',
               'plane_pos', 'planes', 'plane_ori', 'pix_meas', 'aff_conv', 'sp_vec', 'extent2', 'center_idx',
               'xf_call', 'xf_round']
# DICOM-facing / convention-facing queries and VolumeToVolumeTransformer.__call__ (added by the extension)
DICOM_QUERIES = ['plane_pos', 'planes', 'plane_ori', 'pix_meas', 'aff_conv', 'sp_vec', 'extent2', 'center_idx',
                 'xf_call', 'xf_round']
CONVENTIONS = [a + b + d for p_ in (('LR', 'PA', 'HF'), ('LR', 'HF', 'PA'), ('PA', 'LR', 'HF'), ('PA', 'HF', 'LR'),
                                    ('HF', 'LR', 'PA'), ('HF', 'PA', 'LR'))
               for a in p_[0] for b in p_[1] for d in p_[2]]
BAD_CONVENTIONS = ['LLP', 'XPL', 'LP', 'LPHF', 'LRH', 'PAH', '']
# queries that make the object evaluate the inverse of its OWN affine
INVERSE_QUERIES = ['inv', 'rt', 'find', 'xf_to', 'probe']


def _observe(obj, obj0, q, A0, is_geom):
    """Answer one query on the real object.  obj0 = the initial object of the history (volume for a
    volume, geometry for a geometry); A0 = numpy affine of the case (physical coordinates of initial
    voxels are computed by the harness, not by an object)."""
    import numpy as np
    from highdicom.volume import VolumeToVolumeTransformer
    name = q[0]
    if name == 'inv':
        return _aff_out(obj.inverse_affine)
    if name == 'geom':
        return _aff_out((obj.copy() if is_geom else obj.get_geometry()).inverse_affine)
    if name == 'rt':
        P = obj.map_indices_to_reference(np.array(q[1], dtype=np.int64).reshape(-1, 3))
        return [float(x) for x in obj.map_reference_to_indices(P).ravel()]
    if name == 'find':
        P = obj.map_indices_to_reference(np.array(q[1], dtype=np.int64).reshape(-1, 3))
        return [int(x) for x in obj.map_reference_to_indices(P, round_output=True, check_bounds=True).ravel()]
    if name == 'xf_to':
        return _aff_out(VolumeToVolumeTransformer(obj0, obj).affine)
    if name == 'xf_from':
        return _aff_out(VolumeToVolumeTransformer(obj, obj0).affine)
    if name == 'probe':
        pts = np.array(q[1], dtype=float).reshape(-1, 3)
        P = pts @ A0[:3, :3].T + A0[:3, 3]
        I = obj.map_reference_to_indices(P)
        out = []
        for row in I:
            r = np.rint(row)
            if np.abs(row - r).max() > 1e-6 or (r < 0).any() or (r >= np.array(obj.spatial_shape)).any():
                out.append(None)
                continue
            j = tuple(int(x) for x in r)
            out.append([list(j), [] if is_geom else [_num(x) for x in np.asarray(obj.array[j]).ravel().tolist()]])
        return out
    if name == 'sp2':
        return [float(x) * float(x) for x in obj.spacing]
    if name == 'dirsp':
        D, sp = np.asarray(obj.direction), [float(x) for x in obj.spacing]
        return [float(D[i, d]) * sp[d] for d in range(3) for i in range(3)]
    if name == 'pos':
        return [float(x) for x in obj.position]
    if name == 'center':
        return [float(x) for x in obj.center_position]
    if name == 'hand':
        return obj.handedness.value == 'LEFT_HANDED'
    if name == 'plane_pos':
        return [catch(lambda: _plane_position_out(obj.get_plane_position(k))) for k in q[1]]
    if name == 'planes':
        return [x for pp in obj.get_plane_positions() for x in _plane_position_out(pp)]
    if name == 'plane_ori':
        it = obj.get_plane_orientation()[0]
        cos = [float(x) for x in (it.ImageOrientationPatient if obj.coordinate_system.value == 'PATIENT'
                                  else it.ImageOrientationSlide)]
        ps = [float(x) for x in obj.pixel_spacing]       # (between rows = |column 1|, between columns = |column 2|)
        return [x * ps[1] for x in cos[:3]] + [x * ps[0] for x in cos[3:]]
    if name == 'pix_meas':
        it = obj.get_pixel_measures()[0]
        vals = [float(it.PixelSpacing[0]), float(it.PixelSpacing[1]), float(it.SliceThickness),
                float(it.SpacingBetweenSlices)]
        return [x * x for x in vals]
    if name == 'aff_conv':
        o = q[1]
        return _aff_out(obj.get_affine(None if o is None else (o if q[2] else list(o))))
    if name == 'sp_vec':
        sv, uv, sp = obj.spacing_vectors(), obj.unit_vectors(), [float(x) for x in obj.spacing]
        return [float(x) for v_ in sv for x in v_] + [float(x) * sp[d] for d, v_ in enumerate(uv) for x in v_]
    if name == 'extent2':
        return ([float(x) ** 2 for x in obj.physical_extent] + [float(obj.voxel_volume) ** 2,
                                                                 float(obj.physical_volume) ** 2])
    if name == 'center_idx':
        near_, cen = obj.nearest_center_indices, obj.center_indices
        if not all(isinstance(x, int) for x in near_):
            return 'nearest_center_indices are not ints'
        return [int(x) for x in near_] + [_num(2 * x) for x in cen]
    if name == 'xf_call':
        t = VolumeToVolumeTransformer(obj0, obj)
        return [float(x) for x in t(np.array(q[1], dtype=np.int64).reshape(-1, 3)).ravel()]
    if name == 'xf_round':
        plain = VolumeToVolumeTransformer(obj0, obj)
        t = VolumeToVolumeTransformer(obj0, obj, round_output=True, check_bounds=True)
        out = []
        for p_ in q[1]:
            pt = np.array([p_], dtype=np.int64)
            x = plain(pt)[0]
            if np.any(np.abs(np.abs(x - np.floor(x)) - 0.5) < 1e-6):
                out.append(None)             # exactly half-way: np.around may go either way in float64
                continue
            r = catch(lambda: t(pt))
            out.append(r if isinstance(r, Err) else [int(v_) for v_ in r[0]])
        return out
    raise ValueError(name)


def _plane_position_out(pp):
    it = pp[0]
    if hasattr(it, 'ImagePositionPatient'):
        return [float(x) for x in it.ImagePositionPatient]
    return [float(it.XOffsetInSlideCoordinateSystem), float(it.YOffsetInSlideCoordinateSystem),
            float(it.ZOffsetInSlideCoordinateSystem)]


def run_impl(c):
    k = c['kind']
    if k == 'closest':
        from highdicom.volume import VolumeGeometry
        g = VolumeGeometry(_np_affine(c['affine']), [2, 2, 2], 'PATIENT')
        return [[LETTERS.index(x.value) for x in g.get_closest_patient_orientation()],
                g.handedness.value == 'LEFT_HANDED']
    if k == 'geom_with_array':
        v = _mk_volume(c)
        g = v.get_geometry()
        op = c['ops'][0]
        r = catch(lambda: _apply_geom_with_array(g, op))
        return r if isinstance(r, Err) else _snap_vol(r)
    if k == 'get_badtype':
        v = _mk_volume(c)
        g = v.get_geometry()
        before_v, before_g = _snap_vol(v), _snap_geom(g)
        ix = _py_xindex(c['xindex'])
        rv = catch(lambda: v[ix])
        rg = catch(lambda: g[ix])
        if _snap_vol(v) != before_v or _snap_geom(g) != before_g:
            return 'RECEIVER-MUTATED'
        return [rv if isinstance(rv, Err) else _snap_vol(rv), rg if isinstance(rg, Err) else _snap_geom(rg)]
    v = _mk_volume(c)
    g = v.get_geometry()
    v0, g0, A0 = v, g, _np_affine(c['affine'])
    out = []
    for op in c['ops']:
        before_v, before_g = _snap_vol(v), _snap_geom(g)
        if op[0] == 'query':
            qv = [catch(_observe, v, v0, q, A0, False) for q in op[1]]
            qg = [catch(_observe, g, g0, q, A0, True) for q in op[1]]
            mutated = _snap_vol(v) != before_v or _snap_geom(g) != before_g
            out.append('RECEIVER-MUTATED' if mutated else [qv, qg])
            continue
        rv = catch(_apply, v, op)
        rg = catch(_apply, g, op, True)
        mutated = _snap_vol(v) != before_v or _snap_geom(g) != before_g
        ov = rv if isinstance(rv, Err) else _snap_vol(rv)
        og = None if rg is None else (rg if isinstance(rg, Err) else _snap_geom(rg))
        out.append('RECEIVER-MUTATED' if mutated else [ov, og])
        if not isinstance(rv, Err):
            v = rv
            # the geometry advances only together with the volume
            if rg is not None and not isinstance(rg, Err):
                g = rg
    return out


def _apply_geom_with_array(g, op):
    import numpy as np
    arr = np.array(op[2], dtype=np.int64 if op[3] == 'int' else np.float64).reshape(op[1])
    return g.with_array(arr, channels=None if op[4] is None else _chan_dict(op[4]))


# --------------------------------------------------------------------------- Coq rendering
def _q(x):
    x = F(x)
    return f'(q {zlit(x.numerator)} {x.denominator})'


def _qq(x):
    x = F(x)
    return f'(Qmake {zlit(x.numerator)} {x.denominator})'


def _coq_aff(a):
    v = [_q(x) for x in a]
    return '(Aff ' + ' '.join(f'(V {v[3 * d]} {v[3 * d + 1]} {v[3 * d + 2]})' for d in range(4)) + ')'


def _oz(x):
    return 'None' if x is None else f'(Some {zlit(x)})'


def _coq_item(x):
    if isinstance(x, dict):
        a, b, s = x['s']
        return f'(ISlc {_oz(a)} {_oz(b)} {_oz(s)})'
    return f'(IInt {zlit(x)})'


def _coq_index(ix):
    if isinstance(ix, list):
        return '(XTup [' + '; '.join(_coq_item(x) for x in ix) + '])'
    if isinstance(ix, dict):
        a, b, s = ix['s']
        return f'(XSlc {_oz(a)} {_oz(b)} {_oz(s)})'
    return f'(XInt {zlit(ix)})'


def _coq_pw(w):
    t, x = w
    if t == 'int':
        return f'(PWInt {zlit(x)})'
    if t == 'flat':
        return f'(PWFlat {zl(x)})'
    return '(PWNest [' + '; '.join(zl(r) for r in x) + '])'


def _coq_mode(m):
    return PM.get(m.upper(), 'PBad')


def _coq_chans(ch):
    return '[' + '; '.join(f'({zlit(d)}, {zl(v)})' for d, v in ch) + ']'


def _coq_bool(b):
    return 'true' if b else 'false'


def _coq_orient(o):
    return zl([LETTERS.index(x) if x in LETTERS else 9 for x in o])


def _coq_op(op, shape=None):
    k = op[0]
    if k == 'get':
        return f'Sp (OGet {_coq_index(op[1])})'
    if k == 'flip':
        return f'Sp (OFlip ({"FList " + zl(op[1]) if isinstance(op[1], list) else "FInt " + zlit(op[1])}))'
    if k == 'permute':
        return f'Sp (OPermute {zl(op[1])})'
    if k == 'swap':
        return f'Sp (OSwap {zlit(op[1])} {zlit(op[2])})'
    if k == 'pad':
        return f'Sp (OPad {_coq_pw(op[1])} {_coq_mode(op[2])} {_qq(op[3])} {_coq_bool(op[4])})'
    if k == 'pad_to':
        return f'Sp (OPadTo {zl(op[1])} {_coq_mode(op[2])} {_qq(op[3])} {_coq_bool(op[4])})'
    if k == 'crop_to':
        return f'Sp (OCropTo {zl(op[1])})'
    if k == 'pad_or_crop':
        return f'Sp (OPadOrCropTo {zl(op[1])} {_coq_mode(op[2])} {_qq(op[3])} {_coq_bool(op[4])})'
    if k == 'orient':
        return f'Sp (OOrient {_coq_orient(op[1])})'
    if k == 'handed':
        h = {'LEFT_HANDED': 'HLeft', 'RIGHT_HANDED': 'HRight'}.get(op[1], 'HBad')
        sw = 'None' if op[3] is None else f'(Some {zl(op[3])})'
        return f'Sp (OHanded {h} {_oz(op[2])} {sw})'
    if k == 'copy':
        return 'Copy'
    if k in ('rand_flip', 'rand_permute', 'rand_crop'):
        dr = zl(_rand_draws(op, shape))
        return {'rand_flip': f'Sp (ORand (RFlip {zl(op[1])} {dr}))',
                'rand_permute': f'Sp (ORand (RPermute {zl(op[1])} {dr}))',
                'rand_crop': f'Sp (ORand (RCrop {zl(op[1])} {dr}))'}[k]
    if k == 'squeeze':
        return 'SqueezeChannel ' + ('None' if op[1] is None else f'(Some {zl(op[1])})')
    if k == 'with_array':
        return _coq_with_array(op)
    if k == 'get_channel':
        sel = '[' + '; '.join(f'({zlit(d)}, {zlit(x)})' for d, x in op[2]) + ']'
        return f'GetChannel {_coq_bool(op[1])} {sel}'
    if k == 'permute_channels':
        return f'PermuteChannels {zl(op[1])}'
    raise ValueError(k)


def _coq_with_array(op):
    sh = op[1]
    sp = (sh + [1, 1, 1])[:3]
    arr = f'(arr_of_data ({zlit(sp[0])}, {zlit(sp[1])}, {zlit(sp[2])}) {zl(sh[3:])} (map inject_Z {zl(op[2])}))'
    ch = 'None' if op[4] is None else f'(Some {_coq_chans(op[4])})'
    return f'WithArray {zl(sh)} {arr} {_coq_bool(op[3] == "int")} {ch}'


def _coq_vol(c):
    s = c['shape']
    return (f"(mkvol {_coq_aff(c['affine'])} ({s[0]}, {s[1]}, {s[2]}) {_coq_chans(c['chans'])} "
            f"(map inject_Z {zl(c['data'])}) {_coq_bool(c['dtype'] == 'int')} "
            f"{_coq_bool(c['cs'] == 'PATIENT')} {_oz(c['for'])})")


def _coq_pts(pts):
    return '[' + '; '.join(f'({zlit(a)}, {zlit(b)}, {zlit(d)})' for a, b, d in pts) + ']'


def _coq_query(q):
    n = q[0]
    if n in ('rt', 'find', 'probe', 'xf_call', 'xf_round'):
        return '(' + {'rt': 'QRt', 'find': 'QFind', 'probe': 'QProbe', 'xf_call': 'QXfCall',
                      'xf_round': 'QXfRound'}[n] + ' ' + _coq_pts(q[1]) + ')'
    if n == 'plane_pos':
        return f'(QPlanePos {zl(q[1])})'
    if n == 'aff_conv':
        return f"(QAffConv {_coq_orient('LPH' if q[1] is None else q[1])})"
    if n in ('planes', 'plane_ori', 'pix_meas', 'sp_vec', 'extent2', 'center_idx'):
        return {'planes': 'QPlanes', 'plane_ori': 'QPlaneOri', 'pix_meas': 'QPixMeas', 'sp_vec': 'QSpVec',
                'extent2': 'QExtent2', 'center_idx': 'QCenterIdx'}[n]
    return {'inv': 'QInv', 'geom': 'QGeom', 'xf_to': 'QXfTo', 'xf_from': 'QXfFrom', 'sp2': 'QSp2',
            'dirsp': 'QDirSp', 'pos': 'QPos', 'center': 'QCenter', 'hand': 'QHand'}[n]


def coq_term(c):
    k = c['kind']
    if k == 'closest':
        a = _coq_aff(c['affine'])
        return f'(VL [run_closest {a}; run_is_left {a}])'
    if k == 'geom_with_array':
        op = c['ops'][0]
        return f"(run_geom_with_array {_coq_vol(c)} ({_coq_with_array(op)}))"
    if k == 'get_badtype':
        return f"(run_get_ext {_coq_vol(c)} {_coq_xindex(c['xindex'])})"
    shapes = _shapes_along(c) if any(op[0] == 'rand_crop' for op in c['ops']) else [None] * len(c['ops'])
    if any(op[0] == 'query' for op in c['ops']):
        evs = '[' + '; '.join(
            ('EQuery [' + '; '.join(_coq_query(q) for q in op[1]) + ']') if op[0] == 'query'
            else f'EOp ({_coq_op(op, sh)})' for op, sh in zip(c['ops'], shapes)) + ']'
        return f'(run_hist_q {_coq_vol(c)} {evs})'
    ops = '[' + '; '.join(_coq_op(op, sh) for op, sh in zip(c['ops'], shapes)) + ']'
    return f'(run_hist {_coq_vol(c)} {ops})'


# --------------------------------------------------------------------------- np.random draws
def _rand_axes_ok(axes):
    return 2 <= len(axes) <= 3 and len(set(axes)) == len(axes) and set(axes) <= {0, 1, 2}


def _rand_draws(op, shape):
    """What np.random hands to the random_* method after np.random.seed(op[2]) (harness-side
    prediction; the model takes these values as inputs)."""
    import numpy as np
    k, arg, seed = op[0], op[1], op[2]
    np.random.seed(seed)
    if k == 'rand_flip':
        return [int(np.random.randint(2)) for d in range(3) if d in arg] if _rand_axes_ok(arg) else []
    if k == 'rand_permute':
        return [int(x) for x in np.random.permutation(arg).tolist()] if _rand_axes_ok(arg) else []
    out = []
    for c_, d_ in zip(arg, shape):
        if d_ - c_ < 0:
            break
        out.append(int(np.random.randint(0, d_ - c_ + 1)))
    return out


def _shapes_along(c):
    """Spatial shape of the receiver before every operation (real code, as _track)."""
    v = _mk_volume(c)
    out = []
    for op in c['ops']:
        out.append([int(x) for x in v.spatial_shape])
        r = catch(_apply, v, op)
        if not isinstance(r, Err):
            v = r
    return out


# --------------------------------------------------------------------------- generators
def _rand_slice(rng, n, valid):
    """A slice for an axis of length n; valid => in bounds and non-empty by construction."""
    for _ in range(30):
        step = rng.choice([None, 1, 1, 2, -1, -1, -2, 3, -3, n, -n])
        start = rng.choice([None, None, 0, n - 1, -1, -n] + list(range(-n, n)))
        stop = rng.choice([None, None, 0, n, -1, -n - 1] + list(range(-n - 1, n + 1)))
        if not valid:
            return {'s': [start, stop, step]}
        if len(range(*slice(start, stop, step).indices(n))) > 0:
            return {'s': [start, stop, step]}
    return {'s': [None, None, rng.choice([1, -1])]}


def _rand_item(rng, n):
    if rng.random() < 0.25:
        return rng.choice([0, n - 1, -1, -n, rng.randrange(-n, n)])
    return _rand_slice(rng, n, True)


def _rand_pad(rng, shape, room):
    def w():
        return rng.choice([0, 0, 1, 1, 2]) if room else rng.choice([0, 0, 0, 1])
    form = rng.randrange(4)
    if form == 0:
        pw = ['int', w()]
    elif form == 1:
        pw = ['flat', [w(), w()]]
    elif form == 2:
        pw = ['nest', [[w()] for _ in range(3)]]
    else:
        pw = ['nest', [[w(), w()] for _ in range(3)]]
    return pw


def _rand_mode(rng):
    m = rng.choice(MODES)
    r = rng.random()
    return m if r < 0.7 else (m.lower() if r < 0.85 else m.capitalize())


def _rand_cval(rng, dtype):
    return str(rng.choice([F(0), F(-7), F(999), F(5, 2), F(-7, 2), F(-1)]))


def _valid_op(rng, shape, chans, cs, budget_ok):
    """One operation that is valid by construction for a volume of this shape/channels."""
    n = shape
    k = rng.choice(['get', 'get', 'get', 'flip', 'permute', 'swap', 'pad', 'pad', 'pad_to', 'crop_to',
                    'pad_or_crop', 'orient', 'handed', 'copy', 'with_array', 'get_channel',
                    'permute_channels', 'squeeze', 'rand_flip', 'rand_permute', 'rand_crop'])
    if k == 'get':
        form = rng.random()
        if form < 0.12:
            return ['get', _rand_item(rng, n[0])]
        return ['get', [_rand_item(rng, n[d]) for d in range(rng.randint(0 if form < 0.2 else 1, 3))]]
    if k == 'flip':
        return ['flip', rng.choice([rng.randrange(3), rng.sample(range(3), rng.randint(0, 3)),
                                    [rng.randrange(3)] * 2])]
    if k == 'permute':
        p = list(range(3))
        rng.shuffle(p)
        return ['permute', p]
    if k == 'swap':
        a, b = rng.sample(range(3), 2)
        return ['swap', a, b]
    if k == 'pad':
        return ['pad', _rand_pad(rng, n, budget_ok), _rand_mode(rng), _rand_cval(rng, None), rng.random() < 0.4]
    if k == 'pad_to':
        return ['pad_to', [x + (rng.choice([0, 1, 2, 3]) if budget_ok else rng.choice([0, 0, 1])) for x in n],
                _rand_mode(rng), _rand_cval(rng, None), rng.random() < 0.4]
    if k == 'crop_to':
        return ['crop_to', [rng.randint(1, x) for x in n]]
    if k == 'pad_or_crop':
        return ['pad_or_crop', [max(1, x + rng.randint(-2, 2 if budget_ok else 0)) for x in n],
                _rand_mode(rng), _rand_cval(rng, None), rng.random() < 0.4]
    if k == 'orient':
        if cs != 'PATIENT':
            return ['copy']
        o = ''.join(rng.choice(p) for p in rng.sample(['LR', 'AP', 'HF'], 3))
        return ['orient', o if rng.random() < 0.5 else list(o)]
    if k == 'handed':
        h = rng.choice(['LEFT_HANDED', 'RIGHT_HANDED'])
        if rng.random() < 0.5:
            return ['handed', h, rng.randrange(3), None]
        return ['handed', h, None, rng.sample(range(3), 2)]
    if k == 'copy':
        return ['copy']
    if k == 'with_array':
        r = rng.random()
        if r < 0.5 or not chans:
            ch, sh = None, list(n) + [len(v) for _, v in chans]
        elif r < 0.7:
            ch, sh = None, list(n)                     # 3-D array: channels are dropped
        else:
            ds = rng.sample(range(NDESC), rng.randint(0, 2))
            ch = [[d, rng.sample(range(0, 3), rng.randint(1, 2)) if d == 3 else
                   rng.sample(range(1, 9), rng.randint(1, 2))] for d in ds]
            sh = list(n) + [len(v) for _, v in ch]
        size = 1
        for x in sh:
            size *= x
        if size > 200:
            return ['copy']
        return ['with_array', sh, rng.sample(range(1000, 3000), size), rng.choice(['int', 'float']), ch]
    if k == 'get_channel':
        if not chans:
            return ['copy']
        sel = rng.sample(chans, rng.randint(1, len(chans)))
        return ['get_channel', rng.random() < 0.5, [[d, rng.choice(v)] for d, v in sel]]
    if k == 'permute_channels':
        ds = [d for d, _ in chans]
        rng.shuffle(ds)
        return ['permute_channels', ds]
    if k == 'squeeze':
        single = [d for d, v in chans if len(v) == 1]
        if rng.random() < 0.4:
            return ['squeeze', None]
        if SQUEEZE_SUBSETS and single:
            return ['squeeze', rng.sample(single, rng.randint(0, len(single)))]
        if len(single) == len(chans):
            rng.shuffle(single)
            return ['squeeze', single]
        return ['squeeze', None]
    if k == 'rand_flip':
        return ['rand_flip', rng.choice([[0, 1, 2], rng.sample(range(3), 2), rng.sample(range(3), 3)]),
                rng.randrange(10**6)]
    if k == 'rand_permute':
        return ['rand_permute', rng.choice([[0, 1, 2], rng.sample(range(3), 2), rng.sample(range(3), 3)]),
                rng.randrange(10**6)]
    if k == 'rand_crop':
        return ['rand_crop', [rng.randint(1, x) for x in n][:rng.choice([3, 3, 3, 2])] +
                ([1] if rng.random() < 0.1 else []), rng.randrange(10**6)]
    raise ValueError(k)


def _malformed_op(rng, shape, chans, cs):
    n = shape
    d = rng.randrange(3)
    nd = n[d]

    def at(item):
        l = [{'s': [None, None, None]}] * d + [item]
        return ['get', l]
    cands = [
        (at(nd), 'err'), (at(-nd - 1), 'err'),
        (at({'s': [nd, None, None]}), 'err'), (at({'s': [-nd - 1, None, None]}), 'err'),
        (at({'s': [None, nd + 1, None]}), 'err'), (at({'s': [None, -nd - 2, None]}), 'err'),
        (at({'s': [None, None, 0]}), 'err'), (at({'s': [0, 0, None]}), 'err'),
        (at({'s': [0, nd, -1]}), 'err'), (at({'s': [nd - 1, 0, 1]}) if nd > 1 else at({'s': [0, 0, 1]}), 'err'),
        (at({'s': [None, -nd - 1, None]}), 'err'), (at({'s': [None, -nd, 1]}), 'err'),
        (['get', nd if d == 0 else n[0]], 'err'), (['get', {'s': [n[0], None, None]}], 'err'),
        # more than three index items: nothing may reach the channel axes (D92)
        (['get', [{'s': [None, None, None]}] * 3 + [{'s': [None, None, rng.choice([-1, None, 2, 0])]}]], 'err'),
        (['get', [{'s': [None, None, None]}] * rng.choice([4, 5])], 'err'),
        (['get', [0, {'s': [None, None, None]}, -1, 0]], 'err'),
        (['get', [nd, {'s': [0, 0, None]}, {'s': [None, None, 0]}, {'s': [0, 1, None]}]], 'err'),
        (['rand_flip', rng.choice([[0], [1, 1], [0, 3], [-1, 1], [0, 1, 2, 0], []]), 7], 'err'),
        (['rand_permute', rng.choice([[2], [2, 2], [1, 3], [-1, 0, 1], [0, 1, 2, 1], []]), 7], 'err'),
        (['rand_crop', [n[0] + 1, n[1], n[2]], 3], 'err'), (['rand_crop', [n[0], n[1], n[2] + 2], 3], 'err'),
        (['rand_crop', [n[0], 0, n[2]], 3], 'err'), (['rand_crop', [1, n[1] + 1], 3], 'err'),
        (['squeeze', [[x for x in range(NDESC) if x not in [c[0] for c in chans]][0]]], 'err'),
        (['flip', 3], 'err'), (['flip', -1], 'err'), (['flip', [0, 1, 2, 0]], 'err'), (['flip', [0, 5]], 'err'),
        (['permute', [0, 1]], 'err'), (['permute', [0, 0, 1]], 'err'), (['permute', [0, 1, 3]], 'err'),
        (['permute', [0, 1, 2, 0]], 'err'), (['permute', [-1, 0, 1]], 'err'), (['permute', []], 'err'),
        (['swap', 0, 0], 'err'), (['swap', 0, 3], 'err'), (['swap', -1, 1], 'err'),
        (['pad', ['int', -1], 'CONSTANT', '0', False], 'err'),
        (['pad', ['flat', [1]], 'EDGE', '0', False], 'err'),
        (['pad', ['flat', [1, 1, 1]], 'MEAN', '0', False], 'err'),
        (['pad', ['flat', [1, -1]], 'CONSTANT', '0', False], 'err'),
        (['pad', ['flat', [-2, 0]], 'CONSTANT', '0', False], 'err'),
        (['pad', ['flat', []], 'CONSTANT', '0', False], 'err'),
        (['pad', ['nest', [[1], [1]]], 'CONSTANT', '0', False], 'err'),
        (['pad', ['nest', [[1], [1, 1], [1]]], 'CONSTANT', '0', False], 'err'),
        (['pad', ['nest', [[1, 1], [1], [1, 1]]], 'MINIMUM', '0', False], 'err'),
        (['pad', ['nest', [[1, 2, 3], [1, 2, 3], [1, 2, 3]]], 'CONSTANT', '0', False], 'err'),
        (['pad', ['nest', [[], [], []]], 'CONSTANT', '0', False], 'err'),
        (['pad', ['nest', [[1, 1], [1, 1], [1, 1], [1, 1]]], 'CONSTANT', '0', False], 'err'),
        (['pad', ['nest', [[0, 1], [-1, 0], [0, 0]]], 'CONSTANT', '0', False], 'err'),
        (['pad', ['nest', [[0], [0], [-1]]], 'EDGE', '0', True], 'err'),
        (['pad', ['nest', [[0, 0], [0, 0], [0, -2]]], 'MEAN', '0', False], 'err'),
        (['pad', ['int', 1], 'BOGUS', '0', False], 'badmode'),
        (['pad_to', [n[0], n[1]], 'CONSTANT', '0', False], 'err'),
        (['pad_to', [n[0], n[1], n[2], 1], 'CONSTANT', '0', False], 'err'),
        (['pad_to', [n[0], n[1] - 1, n[2] + 1], 'CONSTANT', '0', False], 'err'),
        (['crop_to', [n[0], n[1]]], 'err'), (['crop_to', [n[0], n[1] + 1, n[2]]], 'err'),
        (['crop_to', [n[0], 0, n[2]]], 'err'), (['crop_to', [-1, n[1], n[2]]], 'err'),
        (['crop_to', [n[0], n[1], -3 * n[2] - 2]], 'err'),
        (['pad_or_crop', [n[0], n[1]], 'CONSTANT', '0', False], 'err'),
        (['pad_or_crop', [0, n[1], n[2]], 'CONSTANT', '0', False], 'err'),
        (['pad_or_crop', [n[0] + 1, -2, n[2]], 'EDGE', '0', False], 'err'),
        (['pad_or_crop', [n[0], n[1], -3 * n[2] - 1], 'EDGE', '0', False], 'err'),
        (['orient', 'LLP'], 'err'), (['orient', 'XPL'], 'err'), (['orient', 'LP'], 'err'),
        (['orient', 'LPHF'], 'err'), (['orient', 'LRH'], 'err'), (['orient', ['L', 'P', 'X']], 'err'),
        (['handed', 'LEFT_HANDED', None, None], 'err'), (['handed', 'RIGHT_HANDED', 0, [0, 1]], 'err'),
        (['handed', 'BOGUS', 0, None], 'err'),
        (['handed', rng.choice(['LEFT_HANDED', 'RIGHT_HANDED']), None, [0, 1, 2]], None),
        (['handed', rng.choice(['LEFT_HANDED', 'RIGHT_HANDED']), None, [1]], None),
        (['handed', rng.choice(['LEFT_HANDED', 'RIGHT_HANDED']), 3, None], None),
        (['handed', rng.choice(['LEFT_HANDED', 'RIGHT_HANDED']), None, [1, 1]], None),
        (['with_array', [n[0] + 1, n[1], n[2]], list(range((n[0] + 1) * n[1] * n[2])), 'int', None], 'err'),
        (['with_array', [n[0], n[1]], list(range(n[0] * n[1])), 'int', None], 'err'),
        (['with_array', list(n) + [2, 2, 2], list(range(8 * n[0] * n[1] * n[2])), 'int', None], 'err')
        if n[0] * n[1] * n[2] <= 30 else (['swap', 1, 1], 'err'),
        (['with_array', list(n) + [2], list(range(2 * n[0] * n[1] * n[2])), 'float', [[0, [1, 2, 3]]]], 'err')
        if n[0] * n[1] * n[2] <= 60 else (['swap', 2, 2], 'err'),
        (['with_array', list(n) + [1, 1], list(range(n[0] * n[1] * n[2])), 'float', [[4, [1]], [4, [2]]]], 'err'),
        (['with_array', list(n) + [1], list(range(n[0] * n[1] * n[2])), 'float', []], 'err'),
        (['get_channel', False, [[[x for x in range(NDESC) if x not in [c[0] for c in chans]][0], 1]]], 'err'),
        (['permute_channels', [[x for x in range(NDESC) if x not in [c[0] for c in chans]][0]]], 'err'),
    ]
    if cs != 'PATIENT':
        cands.append((['orient', 'LPH'], 'err'))
    if chans:
        nons = [d_ for d_, v_ in chans if len(v_) > 1]
        sing = [d_ for d_, v_ in chans if len(v_) == 1]
        if nons:
            cands.append((['squeeze', [nons[0]]], 'err'))
            cands.append((['squeeze', [c_[0] for c_ in chans]], 'err'))
        if sing:
            cands.append((['squeeze', [sing[0], sing[0]]], 'err'))
        d0, v0 = chans[0]
        missing = [x for x in (range(3) if d0 == 3 else range(1, 10)) if x not in v0]
        if missing:
            cands.append((['get_channel', rng.random() < 0.5, [[d0, missing[0]]]], 'err'))
        cands.append((['permute_channels', [c[0] for c in chans] + [d0]], 'err'))
        if len(chans) > 1:
            cands.append((['permute_channels', [d0]], 'err'))
            cands.append((['permute_channels', [d0, d0]], 'err'))
    return rng.choice(cands)


def _track(c):
    """Current shape / channels after the history so far, by running the real code (state
    tracking for the generator only; the drawn operations are recorded in the case)."""
    try:
        v = _mk_volume(c)
        for op in c['ops']:
            r = catch(_apply, v, op)
            if not isinstance(r, Err):
                v = r
        return [int(x) for x in v.spatial_shape], _chan_table(v)
    except Exception:
        return list(c['shape']), list(c['chans'])


def _gen_history(rng, malformed, maxlen=8):
    c = _gen_volume(rng)
    c['kind'] = 'history_malformed' if malformed else 'history'
    c['ops'], c['expect'] = [], []
    nops = rng.choice([1, 2, 3, 3, 4, 5, 6, 8]) if maxlen >= 8 else rng.randint(1, maxlen)
    shape, chans = list(c['shape']), [list(x) for x in c['chans']]
    for _ in range(nops):
        budget_ok = _size(shape, chans) <= 120 and max(shape) <= 6
        if malformed and rng.random() < 0.45:
            op, exp = _malformed_op(rng, shape, chans, c['cs'])
        else:
            op, exp = _valid_op(rng, shape, chans, c['cs'], budget_ok), 'ok'
        c['ops'].append(op)
        c['expect'].append(exp)
        shape, chans = _track(c)
    return c


def _gen_single(rng):
    """One boundary operation on a small volume."""
    c = _gen_volume(rng, small=True)
    c['kind'] = 'single'
    n = c['shape']
    k = rng.random()
    if k < 0.55:
        d = rng.randrange(3)
        nd = n[d]
        rngv = [None] + list(range(-nd - 2, nd + 3))
        it = {'s': [rng.choice(rngv), rng.choice(rngv), rng.choice([None, 1, 2, 3, -1, -2, -3, 0, nd, -nd])]}
        if rng.random() < 0.2:
            it = rng.randrange(-nd - 1, nd + 1)
        op = ['get', [{'s': [None, None, None]}] * d + [it]]
    elif k < 0.85:
        op = ['pad', _rand_pad(rng, n, True), _rand_mode(rng), _rand_cval(rng, None), rng.random() < 0.5]
    else:
        op = _valid_op(rng, n, c['chans'], c['cs'], True)
    c['ops'], c['expect'] = [op], [None]
    return c


def _rand_query(rng, shape, shape0, names=None, full=False):
    """A query event on an object of spatial shape `shape` (shape0 = initial shape)."""
    n = shape

    def pts_any():
        k = rng.choice([1, 2, 3])
        base = [[0, 0, 0], [n[0] - 1, n[1] - 1, n[2] - 1], [1, 0, 0], [0, 1, 0], [0, 0, 1], [-1, n[1], 2]]
        return [rng.choice(base + [[rng.randint(-2, 6) for _ in range(3)]]) for _ in range(k)]

    def pts_in(sh):
        k = rng.choice([1, 2, 3])
        return [rng.choice([[0, 0, 0], [sh[0] - 1, sh[1] - 1, sh[2] - 1], [(x - 1) // 2 for x in sh],
                            [rng.randrange(x) for x in sh]]) for _ in range(k)]

    def mk(name):
        if name == 'rt':
            return ['rt', pts_any()]
        if name == 'find':
            return ['find', pts_in(n)]
        if name == 'probe':
            return ['probe', pts_in(shape0)]
        if name == 'plane_pos':
            return ['plane_pos', [rng.choice([0, n[0] - 1, -1, n[0], rng.randint(-2, n[0] + 1)])
                                  for _ in range(rng.choice([1, 2, 3]))]]
        if name == 'aff_conv':
            r = rng.random()
            conv = None if r < 0.08 else (rng.choice(BAD_CONVENTIONS) if r < 0.2 else rng.choice(CONVENTIONS))
            return ['aff_conv', conv, rng.random() < 0.5]
        if name == 'xf_call':
            return ['xf_call', pts_in(shape0) if rng.random() < 0.5 else pts_any()]
        if name == 'xf_round':
            return ['xf_round', pts_in(shape0) if rng.random() < 0.7 else pts_any()]
        return [name]
    if names is None:
        if full:
            names = ['inv', 'probe'] + rng.sample([x for x in QUERY_NAMES if x not in ('inv', 'probe')],
                                                  rng.choice([1, 2]))
            rng.shuffle(names)
        else:
            pool = INVERSE_QUERIES * 2 + QUERY_NAMES
            names = [rng.choice(pool) for _ in range(rng.choice([1, 1, 2, 3]))]
    return ['query', [mk(x) for x in names]]


def _gen_history_query(rng):
    """A history with coordinate -> index queries before, between and after the operations."""
    c = _gen_volume(rng, small=rng.random() < 0.5)
    c['kind'] = 'history_query'
    c['ops'], c['expect'] = [], []
    malformed = rng.random() < 0.15
    nops = rng.choice([1, 1, 2, 2, 3, 4, 6])
    shape, chans = list(c['shape']), [list(x) for x in c['chans']]
    if rng.random() < 0.6:
        c['ops'].append(_rand_query(rng, shape, c['shape']))
        c['expect'].append(None)
    for n in range(nops):
        budget_ok = _size(shape, chans) <= 100 and max(shape) <= 5
        if malformed and rng.random() < 0.4:
            op, exp = _malformed_op(rng, shape, chans, c['cs'])
        else:
            op, exp = _valid_op(rng, shape, chans, c['cs'], budget_ok), 'ok'
        c['ops'].append(op)
        c['expect'].append(exp)
        shape, chans = _track(c)
        if n < nops - 1 and rng.random() < 0.5:
            c['ops'].append(_rand_query(rng, shape, c['shape']))
            c['expect'].append(None)
    c['ops'].append(_rand_query(rng, shape, c['shape'], full=True))
    c['expect'].append(None)
    return c


# one representative of every API entry point that derives a new object (shape-independent ones are
# fixed, the others are drawn for the shape at hand)
ENTRY_POINTS = ['get_slice', 'get_int', 'get_step', 'flip', 'permute', 'swap', 'crop_to', 'pad', 'pad_to',
                'pad_or_crop', 'orient', 'handed_flip', 'handed_swap', 'rand_flip', 'rand_permute', 'rand_crop',
                'copy', 'with_array', 'get_channel', 'permute_channels', 'squeeze']


def _entry_op(rng, name, c):
    n, chans = c['shape'], c['chans']
    d = rng.randrange(3)
    sl = {'s': [None, None, None]}
    if name == 'get_slice':
        return ['get', [{'s': [min(1, x - 1), None, None]} for x in n]]
    if name == 'get_int':
        return ['get', [sl] * d + [rng.choice([n[d] - 1, -1, 0])]]
    if name == 'get_step':
        return ['get', [sl] * d + [{'s': [None, None, rng.choice([-1, 2, -2])]}]]
    if name == 'flip':
        return ['flip', rng.choice([d, rng.sample(range(3), 2)])]
    if name == 'permute':
        return ['permute', rng.choice([[2, 0, 1], [1, 2, 0], [0, 2, 1], [2, 1, 0]])]
    if name == 'swap':
        a, b = rng.sample(range(3), 2)
        return ['swap', a, b]
    if name == 'crop_to':
        return ['crop_to', [max(1, x - rng.choice([1, 1, 2])) for x in n]]
    if name == 'pad':
        return ['pad', _rand_pad(rng, n, True), _rand_mode(rng), _rand_cval(rng, None), rng.random() < 0.4]
    if name == 'pad_to':
        return ['pad_to', [x + rng.choice([1, 2, 3]) for x in n], _rand_mode(rng), _rand_cval(rng, None), False]
    if name == 'pad_or_crop':
        return ['pad_or_crop', [max(1, x + rng.choice([-2, -1, 1, 2])) for x in n], _rand_mode(rng),
                _rand_cval(rng, None), rng.random() < 0.4]
    if name == 'orient':
        o = ''.join(rng.choice(p) for p in rng.sample(['LR', 'AP', 'HF'], 3))
        return ['orient', o]
    if name == 'handed_flip':
        return ['handed', rng.choice(['LEFT_HANDED', 'RIGHT_HANDED']), d, None]
    if name == 'handed_swap':
        return ['handed', rng.choice(['LEFT_HANDED', 'RIGHT_HANDED']), None, rng.sample(range(3), 2)]
    if name == 'rand_flip':
        return ['rand_flip', [0, 1, 2], rng.randrange(10**6)]
    if name == 'rand_permute':
        return ['rand_permute', [0, 1, 2], rng.randrange(10**6)]
    if name == 'rand_crop':
        return ['rand_crop', [max(1, x - 1) for x in n], rng.randrange(10**6)]
    if name == 'copy':
        return ['copy']
    if name == 'with_array':
        sh = list(n) + [len(v) for _, v in chans]
        return ['with_array', sh, rng.sample(range(1000, 3000), _size(n, chans)), 'int', None]
    if name == 'get_channel':
        return ['get_channel', rng.random() < 0.5, [[chans[0][0], chans[0][1][0]]]] if chans else ['copy']
    if name == 'permute_channels':
        return ['permute_channels', [x[0] for x in chans][::-1]] if chans else ['copy']
    if name == 'squeeze':
        return ['squeeze', None]
    raise ValueError(name)


def _gen_query_op_query(rng, first=None, entry=None):
    """query kind x entry point: one query, one deriving operation, every query kind on the result
    (and, half of the time, a second deriving operation and the queries again: inheritance down a chain)."""
    c = _gen_volume(rng, small=True)
    c['cs'] = 'PATIENT'
    c['kind'] = 'query_op_query'
    first = first or rng.choice(QUERY_NAMES + [None])
    entry = entry or rng.choice(ENTRY_POINTS)
    c['ops'] = []
    if first is not None:
        c['ops'].append(_rand_query(rng, c['shape'], c['shape'], names=[first]))
    c['ops'].append(_entry_op(rng, entry, c))
    shape, chans = _track(c)
    c['ops'].append(_rand_query(rng, shape, c['shape'], names=list(QUERY_NAMES)))
    if rng.random() < 0.5:
        c2 = dict(c, shape=shape, chans=chans)
        c['ops'].append(_entry_op(rng, rng.choice(ENTRY_POINTS[:16]), c2))
        shape, chans = _track(c)
        c['ops'].append(_rand_query(rng, shape, c['shape'], names=rng.sample(QUERY_NAMES, 4) + ['probe']))
    c['expect'] = [None if op[0] == 'query' else 'ok' for op in c['ops']]
    return c


# every entry point that touches the affine, applied to a volume of every scale (see UNITS) whose axes are
# tilted by a small angle against the reference axes: the affine then holds legitimate non-zero entries
# far below the voxel size, and an origin of which a component may be tiny
SCALE_ENTRIES = ['permute_id', 'permute', 'swap', 'orient', 'handed_swap', 'handed_flip', 'flip', 'get_step',
                 'get_int', 'get_slice', 'crop_to', 'pad', 'pad_to', 'pad_or_crop', 'rand_permute', 'rand_flip',
                 'rand_crop', 'copy']
PERMUTING_ENTRIES = ['permute', 'swap', 'orient', 'handed_swap', 'rand_permute', 'get_step', 'permute_id']


def _scale_entry_op(rng, name, c, aff=None):
    if name == 'permute_id':
        return ['permute', [0, 1, 2]]
    if name in ('handed_swap', 'handed_flip') and aff is not None:
        # ask for the handedness the object does not have, so that the operation acts
        h = 'RIGHT_HANDED' if _det_sign(aff) < 0 else 'LEFT_HANDED'
        if name == 'handed_flip':
            return ['handed', h, rng.randrange(3), None]
        return ['handed', h, None, rng.sample(range(3), 2)]
    return _entry_op(rng, name, c)


def _gen_scale_entry(rng, scale=None, entry=None, tilt=None):
    c = _gen_volume(rng, hi=[2, 2, 3, 3, 4, 5])
    scale = scale or rng.choice(['um', 'um', 'nm', 'km', 'mm'])
    entry = entry or rng.choice(SCALE_ENTRIES)
    c['affine'] = _gen_affine(rng, scale=scale, tilt=(rng.random() < 0.85) if tilt is None else tilt)
    c['cs'] = 'SLIDE' if (scale in ('um', 'nm') and entry != 'orient' and rng.random() < 0.5) else 'PATIENT'
    c['kind'] = 'scale_entry'
    c['scale'] = scale
    c['ops'] = []
    if rng.random() < 0.4:
        c['ops'].append(_rand_query(rng, c['shape'], c['shape'], names=rng.sample(['dirsp', 'pos', 'inv', 'sp2'], 2)))
    c['ops'].append(_scale_entry_op(rng, entry, c, c['affine']))
    shape, chans = _track(c)
    c['ops'].append(_rand_query(rng, shape, c['shape'],
                                names=['dirsp', 'pos', 'sp2', 'probe', rng.choice(['inv', 'find', 'center', 'xf_to']),
                                       rng.choice(DICOM_QUERIES)]))
    if rng.random() < 0.6:
        c2 = dict(c, shape=shape, chans=chans)
        names = [x for x in PERMUTING_ENTRIES if x != 'orient' or c['cs'] == 'PATIENT']
        c['ops'].append(_scale_entry_op(rng, rng.choice(names), c2))
        shape, chans = _track(c)
        c['ops'].append(_rand_query(rng, shape, c['shape'],
                                    names=['dirsp', 'pos', 'probe', rng.choice(['rt', 'xf_from', 'geom', 'sp2']),
                                           rng.choice(DICOM_QUERIES)]))
    c['expect'] = [None if op[0] == 'query' else 'ok' for op in c['ops']]
    return c


BAD_ITEM_KINDS = ['np64', 'np64', 'np32', 'npu8', 'float', 'list', 'none', 'ellipsis', 'str', 'nparr', 'tuple']


def _gen_get_badtype(rng):
    """__getitem__ with index items that are neither int nor slice (numpy integers, floats, lists, None,
    Ellipsis, ...) and with bool items (bool IS an int): alone, inside tuples of 1..5 items, before and after
    out-of-range items."""
    c = _gen_volume(rng, small=True)
    c['kind'] = 'get_badtype'
    n = c['shape']

    def good(d):
        r = rng.random()
        nd = n[min(d, 2)]
        if r < 0.35:
            return rng.randrange(-nd, nd)
        if r < 0.45:
            return {'bool': rng.random() < 0.5 and nd > 1}
        return _rand_slice(rng, nd, True)

    def bad():
        return {'bad': rng.choice(BAD_ITEM_KINDS), 'v': rng.choice([0, 0, 1, -1])}
    r = rng.random()
    if r < 0.12:
        c['xindex'] = rng.choice([bad(), {'bad': 'listidx', 'v': 0}])
        if c['xindex']['bad'] == 'tuple':
            c['xindex']['bad'] = 'np64'       # (n,) alone IS a valid tuple index; it is foreign only as an item
    elif r < 0.2:
        c['xindex'] = {'bool': rng.random() < 0.5 and n[0] > 1}
    else:
        k = rng.choice([1, 2, 2, 3, 3, 3, 4, 5])
        items = [good(d) for d in range(k)]
        if rng.random() < 0.85:
            items[rng.randrange(k)] = bad()
            if rng.random() < 0.15:
                items[rng.randrange(k)] = bad()
        if rng.random() < 0.3:
            d = rng.randrange(k)
            if not _x_is_bad(items[d]):
                nd = n[min(d, 2)]
                items[d] = rng.choice([nd, -nd - 1, {'s': [nd, None, None]}, {'s': [None, nd + 1, None]},
                                       {'s': [None, None, 0]}, {'s': [0, 0, None]}])
        c['xindex'] = items
    return c


def gen_cases(rng, tier):
    common.import_highdicom()
    nh = {'quick': 300, 'thorough': 9000, 'search': 3000}[tier]
    cases = []
    for _ in range(nh):
        cases.append(_gen_history(rng, False))
    for _ in range(nh // 3):
        cases.append(_gen_history(rng, True))
    for _ in range(nh // 2):
        cases.append(_gen_single(rng))
    for _ in range(nh // 4):
        cases.append({'kind': 'closest', 'affine': _gen_affine(rng)})
    for _ in range(nh // 8):
        c = _gen_volume(rng, small=True)
        c['kind'] = 'geom_with_array'
        op = None
        while op is None or op[0] != 'with_array':
            op = (_valid_op(rng, c['shape'], c['chans'], c['cs'], True) if rng.random() < 0.7
                  else _malformed_op(rng, c['shape'], c['chans'], c['cs'])[0])
        c['ops'] = [op]
        cases.append(c)
    for _ in range(nh // 3):
        cases.append(_gen_history_query(rng))
    for _ in range(nh // 6):
        cases.append(_gen_get_badtype(rng))
    if tier == 'quick':
        # every entry point at least once, every query kind as the first query at least once
        firsts = QUERY_NAMES + [None]
        for n, e in enumerate(ENTRY_POINTS):
            cases.append(_gen_query_op_query(rng, firsts[n % len(firsts)] or 'inv', e))
        for _ in range(nh // 10):
            cases.append(_gen_query_op_query(rng))
    else:
        for f in QUERY_NAMES:
            for e in ENTRY_POINTS:
                cases.append(_gen_query_op_query(rng, f, e))
        for _ in range(nh // 10):
            cases.append(_gen_query_op_query(rng))
    # scale x entry point: every entry point on a sub-micron volume, and on one of the other scales in turn
    others = ['nm', 'km', 'mm']
    reps = 1 if tier == 'quick' else 6
    for rep in range(reps):
        for n, e in enumerate(SCALE_ENTRIES):
            cases.append(_gen_scale_entry(rng, 'um', e, True))
            if tier != 'quick' or e in PERMUTING_ENTRIES:
                cases.append(_gen_scale_entry(rng, others[(n + rep) % 3], e))
    for _ in range(nh // 10):
        cases.append(_gen_scale_entry(rng))
    if tier == 'thorough':
        cases += _exhaustive_small()
    # the model evaluates consecutive blocks of 300 cases in parallel: deal the kinds out evenly so that the
    # expensive ones (queries = exact inverses, small tilts = long rationals) do not end up in one block
    n_sh = max(1, -(-(len(cases) + 12) // 300))
    return [c for r in range(n_sh) for c in cases[r::n_sh]]


def _exhaustive_small():
    """All histories of length <= 2 over a fixed op list on a 2x3x2 volume."""
    base = {'shape': [2, 3, 2], 'chans': [[0, [1, 2]]], 'data': list(range(1, 25)), 'dtype': 'int',
            'affine': [str(x) for x in [0, 2, 0, -3, 0, 0, 0, 0, F(1, 2), 1, -2, F(7, 2)]],
            'cs': 'PATIENT', 'for': 3}
    ops = [['get', [{'s': [None, None, -1]}, 1]], ['get', [{'s': [1, None, None]}, {'s': [-1, 0, -2]}]],
           ['get', -1], ['flip', [0, 2]], ['permute', [2, 0, 1]], ['swap', 0, 1],
           ['pad', ['int', 1], 'MEAN', '0', True], ['pad', ['nest', [[1, 0], [0, 2], [0, 0]]], 'EDGE', '0', False],
           ['pad', ['flat', [0, 1]], 'CONSTANT', '-7/2', False], ['pad_to', [3, 3, 4], 'MEDIAN', '0', False],
           ['crop_to', [1, 2, 2]], ['pad_or_crop', [3, 1, 2], 'MAXIMUM', '0', True],
           ['orient', 'FPL'], ['orient', 'RAH'], ['handed', 'LEFT_HANDED', 1, None],
           ['handed', 'RIGHT_HANDED', None, [0, 2]], ['copy'], ['get_channel', True, [[0, 2]]],
           ['get_channel', False, [[0, 1]]], ['permute_channels', [0]]]
    out = []
    for a in ops:
        out.append(dict(base, kind='history', ops=[a], expect=[None]))
        for b in ops:
            out.append(dict(base, kind='history', ops=[a, b], expect=[None, None]))
    return out


# --------------------------------------------------------------------------- oracle
def _A(aff12):
    import numpy as np
    A = np.eye(4)
    for d in range(3):
        A[:3, d] = aff12[3 * d:3 * d + 3]
    A[:3, 3] = aff12[9:12]
    return A


def _scaled_orthogonal(aff12):
    cols = [[F(x) for x in aff12[3 * d:3 * d + 3]] for d in range(3)]
    for d in range(3):
        if all(x == 0 for x in cols[d]):
            return f'column {d} of the affine is zero'
    for a, b in ((0, 1), (0, 2), (1, 2)):
        dot = sum(x * y for x, y in zip(cols[a], cols[b]))
        na = sum(x * x for x in cols[a])
        nb = sum(x * x for x in cols[b])
        if dot * dot > F(1, 10**16) * na * nb:
            return f'columns {a},{b} of the affine are not orthogonal'
    return None


def _scales(*affs):
    """(voxel size, magnitude) of numpy 4x4 affines: the smallest column norm of the 3x3 parts and the
    largest absolute entry.  Every tolerance of the oracle is relative to the voxel size (the property has no
    length scale of its own: 1e-5 mm is nothing for a CT volume and 4% of a voxel on a slide at 40x); the
    magnitude bounds the rounding noise float64 puts on a coordinate."""
    import numpy as np
    vox = min(float(np.sqrt((A[:3, d] ** 2).sum())) for A in affs for d in range(3))
    mag = max(float(np.abs(A[:3, :]).max()) for A in affs)
    return vox, mag


def _phys_tol(*affs):
    vox, mag = _scales(*affs)
    return 1e-6 * vox + 1e-12 * mag


def _locate(prev, new):
    """For every voxel of `new` the index of the voxel of `prev` at the same physical
    coordinate (or -1).  prev/new = (shape, affine12).  "Same" = within 1e-6 of the smallest voxel."""
    import numpy as np
    (ps, pa), (ns, na) = prev, new
    Ap, An = _A(pa), _A(na)
    J = np.stack(np.meshgrid(*[np.arange(s) for s in ns], indexing='ij'), -1).reshape(-1, 3)
    P = J @ An[:3, :3].T + An[:3, 3]
    inv = np.linalg.inv(Ap[:3, :3])
    I = (P - Ap[:3, 3]) @ inv.T
    Ir = np.rint(I).astype(int)
    back = Ir @ Ap[:3, :3].T + Ap[:3, 3]
    hit = (np.abs(back - P).max(axis=1) <= _phys_tol(Ap, An))
    inr = np.all((Ir >= 0) & (Ir < np.array(ps)), axis=1)
    flat = (Ir[:, 0] * ps[1] + Ir[:, 1]) * ps[2] + Ir[:, 2]
    return np.where(hit & inr, flat, -1).reshape(ns)


def _ref_ids(op, ps, orient_ok=True):
    """numpy's own answer for which previous voxel ends where (None = not predictable)."""
    import numpy as np
    ids = np.arange(ps[0] * ps[1] * ps[2]).reshape(ps)
    k = op[0]
    if k == 'get':
        ix = op[1]
        items = ix if isinstance(ix, list) else [ix]
        sl = []
        for it in items:
            if isinstance(it, dict):
                sl.append(slice(*it['s']))
            else:
                sl.append(slice(it, it + 1 if it != -1 else None))
        return ids[tuple(sl)]
    if k == 'flip':
        ax = op[1] if isinstance(op[1], list) else [op[1]]
        return np.flip(ids, axis=tuple(sorted(set(ax)))) if ax else ids
    if k == 'permute':
        return np.transpose(ids, op[1])
    if k == 'swap':
        return np.swapaxes(ids, op[1], op[2])
    if k == 'pad':
        t, x = op[1]
        w = {'int': lambda: [[x, x]] * 3, 'flat': lambda: [list(x)] * 3,
             'nest': lambda: [[r[0], r[-1]] for r in x]}[t]()
        return np.pad(ids, w, mode='constant', constant_values=-1)
    if k == 'pad_to':
        w = [[(o - i) // 2, (o - i) - (o - i) // 2] for i, o in zip(ps, op[1])]
        return np.pad(ids, w, mode='constant', constant_values=-1)
    if k == 'crop_to':
        sl = [slice((i - o) // 2, (i - o) // 2 + o) for i, o in zip(ps, op[1])]
        return ids[tuple(sl)]
    if k == 'pad_or_crop':
        sl, w = [], []
        for i, o in zip(ps, op[1]):
            if o >= i:
                sl.append(slice(None))
                w.append([(o - i) // 2, (o - i) - (o - i) // 2])
            else:
                sl.append(slice((i - o) // 2, (i - o) // 2 + o))
                w.append([0, 0])
        return np.pad(ids[tuple(sl)], w, mode='constant', constant_values=-1)
    if k in ('copy', 'with_array', 'get_channel', 'permute_channels', 'squeeze'):
        return ids
    if k in ('rand_flip', 'rand_permute', 'rand_crop'):
        dr = _rand_draws(op, ps)             # numpy's own draws for this seed
        if k == 'rand_flip':
            ax = tuple(d for d, x in zip(sorted(set(op[1])), dr) if x == 1)
            return np.flip(ids, axis=ax) if ax else ids
        if k == 'rand_permute':
            if len(dr) == 2:
                m = 3 - sum(dr)
                dr = dr[:m] + [m] + dr[m:]
            return np.transpose(ids, dr)
        return ids[tuple(slice(st, st + c_) for st, c_ in zip(dr, op[1]))]
    return None


def _closest_ref(aff12):
    """argmax |component| per column; None when the simple rule is ambiguous."""
    res, used = [], set()
    for d in range(3):
        col = [abs(F(x)) for x in aff12[3 * d:3 * d + 3]]
        m = max(col)
        if sum(1 for x in col if x > m * F(999999, 1000000)) != 1:
            return None
        i = col.index(m)
        if i in used:
            return None
        used.add(i)
        res.append(2 * i if F(aff12[3 * d + i]) > 0 else 2 * i + 1)
    return res


def _det_sign(aff12):
    a, b, c = [[F(x) for x in aff12[3 * d:3 * d + 3]] for d in range(3)]
    det = (a[0] * (b[1] * c[2] - b[2] * c[1]) - a[1] * (b[0] * c[2] - b[2] * c[0]) +
           a[2] * (b[0] * c[1] - b[1] * c[0]))
    return (det > 0) - (det < 0)


def _np_mode(m):
    return m.upper()


def _check_step(op, prev, new, prev_dtype_int, expect):
    """prev/new: vol snapshots.  Returns (message | None, step map new->prev flat ids)."""
    import numpy as np
    ps, pa, pch, pdata = prev[0], prev[1], prev[2], prev[3]
    ns, na, nch, ndata = new[0], new[1], new[2], new[3]
    m = _scaled_orthogonal(na)
    if m:
        return m, None
    if new[4] != prev[4] or new[5] != prev[5]:
        return 'coordinate system / frame of reference changed', None
    loc = _locate((ps, pa), (ns, na))
    k = op[0]
    pc = [len(v) for _, v in pch]
    nc = [len(v) for _, v in nch]
    parr = np.array(pdata, dtype=float).reshape(list(ps) + pc)
    narr = np.array(ndata, dtype=float).reshape(list(ns) + nc)
    ref = _ref_ids(op, ps)
    if ref is not None:
        if list(ref.shape) != list(ns):
            return f'{k}: spatial shape {ns}, numpy reference gives {list(ref.shape)}', None
        if not np.array_equal(ref, loc):
            j = tuple(int(x) for x in np.argwhere(ref != loc)[0])
            return (f'{k}: voxel {j} of the result lies at the physical position of previous voxel '
                    f'{int(loc[j])} (-1 = none) but numpy puts previous voxel {int(ref[j])} there'), None
    else:
        # orient / handed: a rearrangement - every previous voxel exactly once
        if sorted(loc.ravel().tolist()) != list(range(ps[0] * ps[1] * ps[2])):
            return f'{k}: result is not a rearrangement of the previous voxels in physical space', None
    # channels
    if k in ('get_channel', 'permute_channels', 'with_array', 'squeeze'):
        if list(ns) != list(ps) or [F(x) for x in na] != [F(x) for x in pa]:
            return f'{k}: geometry changed', None
        if k == 'with_array':
            want_ch = pch if op[4] is None and len(op[1]) != 3 else (op[4] or [])
            if nch != [list(x) for x in want_ch] or [_num(x) for x in ndata] != [_num(x) for x in op[2]]:
                return 'with_array: array or channels are not the ones given', None
        elif k == 'get_channel':
            indexer = [slice(None)] * parr.ndim
            want_ch = [list(x) for x in pch]
            for d, x in op[2]:
                pos = [c[0] for c in pch].index(d)
                ind = pch[pos][1].index(x)
                indexer[3 + pos] = slice(ind, ind + 1) if op[1] else ind
                want_ch[pos] = [d, [x]] if op[1] else None
            want_ch = [x for x in want_ch if x is not None]
            if nch != want_ch or not np.array_equal(parr[tuple(indexer)], narr):
                return 'get_channel: wrong channel table or values', None
        elif k == 'squeeze':
            gone = [i for i, (d, v) in enumerate(pch) if len(v) == 1 and (op[1] is None or d in op[1])]
            if nch != [x for i, x in enumerate(pch) if i not in gone] or not np.array_equal(
                    parr.reshape(narr.shape), narr):
                return 'squeeze_channel: wrong channel table or values', None
        else:
            perm = [[c[0] for c in pch].index(d) for d in op[1]]
            if nch != [pch[i] for i in perm] or not np.array_equal(
                    np.transpose(parr, [0, 1, 2] + [3 + i for i in perm]), narr):
                return 'permute_channel_axes: wrong channel table or values', None
        return None, loc
    if nch != pch:
        return f'{k}: channel table changed from {pch} to {nch}', None
    # retained voxels keep their values in every channel
    flatp = parr.reshape([ps[0] * ps[1] * ps[2]] + pc)
    kept = loc >= 0
    if kept.any():
        got = narr[kept]
        want = flatp[loc[kept]]
        if not np.array_equal(got, want):
            return f'{k}: a retained voxel changed its value', None
    # new voxels are padding
    if (~kept).any():
        if k not in ('pad', 'pad_to', 'pad_or_crop'):
            return f'{k}: result contains voxels at positions the previous volume did not have', None
        mode = _np_mode(op[2])
        cval, per_channel = float(F(op[3])), op[4]
        src = narr[kept].reshape([-1] + nc)          # the retained block = what was padded
        if mode == 'EDGE':
            Ir = np.stack(np.meshgrid(*[np.arange(s) for s in ns], indexing='ij'), -1)
            box = np.argwhere(kept)
            lo, hi = box.min(axis=0), box.max(axis=0)
            Ic = np.clip(Ir, lo, hi)
            want = narr[Ic[..., 0], Ic[..., 1], Ic[..., 2]]
            if not np.array_equal(want, narr):
                return f'{k}: EDGE padding is not the nearest edge voxel', None
        else:
            def stat(a):
                v = {'CONSTANT': lambda: cval, 'MINIMUM': a.min, 'MAXIMUM': a.max, 'MEAN': a.mean,
                     'MEDIAN': lambda: float(np.median(a))}[mode]()
                return float(np.trunc(v)) if prev_dtype_int else float(v)
            stat_mode = mode in ('MINIMUM', 'MAXIMUM', 'MEAN', 'MEDIAN')
            if per_channel and stat_mode and nc and nc != [1]:
                for cidx in itertools.product(*[range(x) for x in nc]):
                    sub = narr[(slice(None),) * 3 + cidx]
                    want = stat(src[(slice(None),) + cidx])
                    if not np.allclose(sub[~kept], want, rtol=1e-9, atol=1e-9):
                        return f'{k}: per-channel {mode} padding of channel {cidx} is not {want}', None
            else:
                want = stat(src)
                if not np.allclose(narr[~kept], want, rtol=1e-9, atol=1e-9):
                    return f'{k}: {mode} padding value is not {want}', None
    if k == 'orient':
        want = _coq_orient_codes(op[1])
        got = _closest_ref(na)
        if _closest_ref(pa) is not None and got is not None and got != want:
            return f'to_patient_orientation({op[1]}): closest orientation of the result is {got}', None
    if k == 'handed':
        want = -1 if op[1] == 'LEFT_HANDED' else 1
        if _det_sign(na) != want:
            return f'ensure_handedness({op[1]}): determinant sign of the result is {_det_sign(na)}', None
    return None, loc


def _check_query(q, ans, cur, first, comp, values_ok, is_geom):
    """Judge one answer of a query against what the object ITSELF reports (cur = its snapshot) and the
    oracle's own location map.  Independent of the model: numpy's inverse of the reported affine."""
    import numpy as np
    name = q[0]
    if name == 'aff_conv' and q[1] is not None and q[1] not in CONVENTIONS:
        return (None if isinstance(ans, Err) and ans.kind == 'ValueError'
                else f'aff_conv: the invalid convention {q[1]!r} was not refused with ValueError')
    if isinstance(ans, Err):
        return f'{name}: raised {ans.kind}'
    A, A0 = _A(cur[1]), _A(first[1])
    ns = cur[0]
    vox, mag = _scales(A)
    ptol = 1e-9 * vox + 1e-12 * mag          # physical quantities (mm): relative to the voxel size

    def close(a, b, t):
        # index-space / dimensionless quantities
        a, b = np.asarray(a, dtype=float), np.asarray(b, dtype=float)
        return a.shape == b.shape and bool(np.all(np.abs(a - b) <= t * (1 + np.abs(b))))

    def near(a, b, t):
        # physical quantities: absolute tolerance t (already scaled to the voxel) + 1e-9 relative
        a, b = np.asarray(a, dtype=float), np.asarray(b, dtype=float)
        return a.shape == b.shape and bool(np.all(np.abs(a - b) <= t + 1e-9 * np.abs(b)))
    if name in ('inv', 'geom'):
        M = _A(ans)
        MA, AM = M @ A, A @ M
        # M @ A is dimensionless; A @ M has the unit of a length in its last column
        if not close(MA, np.eye(4), 1e-7) or not close(AM[:3, :3], np.eye(3), 1e-7) or not near(
                AM[:3, 3], np.zeros(3), 1e-7 * vox + 1e-10 * mag):
            return (f'{name}: inverse_affine is not the inverse of the affine of the same object '
                    f'(inverse_affine @ affine = {np.round(MA, 6).tolist()})')
        return None
    if name == 'rt':
        want = [float(x) for p_ in q[1] for x in p_]
        if not close(ans, want, 1e-6):
            return f'rt: map_reference_to_indices(map_indices_to_reference({q[1]})) = {ans}'
        return None
    if name == 'find':
        if list(ans) != [x for p_ in q[1] for x in p_]:
            return f'find: looking up the coordinates of voxels {q[1]} leads to {ans}'
        return None
    if name in ('xf_to', 'xf_from'):
        T = _A(ans)
        ref = np.linalg.inv(A) @ A0 if name == 'xf_to' else np.linalg.inv(A0) @ A
        if not close(T, ref, 1e-6):
            return (f'{name}: VolumeToVolumeTransformer.affine {np.round(T, 6).tolist()} is not '
                    f'inv(to.affine) @ from.affine = {np.round(ref, 6).tolist()}')
        # voxel level: a voxel that descends from initial voxel i is mapped from / to i
        kept = np.argwhere(comp >= 0)
        if len(kept):
            fs = first[0]
            ids = comp[tuple(kept.T)]
            I = np.stack([ids // (fs[1] * fs[2]), (ids // fs[2]) % fs[1], ids % fs[2]], -1)
            src, dst = (I, kept) if name == 'xf_to' else (kept, I)
            got = src @ T[:3, :3].T + T[:3, 3]
            if not close(got, dst, 1e-6):
                n_ = int(np.argmax(np.abs(got - dst).max(axis=1)))
                return (f'{name}: the transformer sends voxel {src[n_].tolist()} to {np.round(got[n_], 6).tolist()} '
                        f'but the voxel with the same physical coordinate is {dst[n_].tolist()}')
        return None
    if name == 'probe':
        loc0 = _locate((first[0], first[1]), (ns, cur[1]))
        fs = first[0]
        nc = [len(v) for _, v in cur[2]] if not is_geom else []
        arr = None if is_geom else np.array(cur[3], dtype=float).reshape(list(ns) + nc)
        a0 = np.array(first[3], dtype=float).reshape(list(fs) + [len(v) for _, v in first[2]])
        if len(ans) != len(q[1]):
            return 'probe: wrong number of answers'
        for p_, a in zip(q[1], ans):
            i = (p_[0] * fs[1] + p_[1]) * fs[2] + p_[2]
            hit = np.argwhere(loc0 == i)
            if len(hit) == 0:
                if a is not None:
                    return f'probe: initial voxel {p_} is found at {a[0]} but no voxel of the object lies there'
                continue
            j = tuple(int(x) for x in hit[0])
            if a is None:
                return (f'probe: voxel {list(j)} lies at the coordinate initial voxel {p_} had, but looking that '
                        f'coordinate up in the object does not find it')
            if list(a[0]) != list(j):
                return (f'probe: voxel {list(j)} lies at the coordinate initial voxel {p_} had, but looking that '
                        f'coordinate up in the object leads to voxel {a[0]}')
            if not is_geom:
                if not np.array_equal(np.array(a[1], dtype=float), arr[j].ravel()):
                    return f'probe: values reported for voxel {list(j)} are not the ones the array holds'
                if values_ok and comp[j] == i and not np.array_equal(arr[j].ravel(), a0[tuple(p_)].ravel()):
                    return f'probe: initial voxel {p_} is found at {list(j)} with other values'
        return None
    if name == 'plane_pos':
        if len(ans) != len(q[1]):
            return 'plane_pos: wrong number of answers'
        for k_, a in zip(q[1], ans):
            if k_ < 0 or k_ >= ns[0]:
                if not (isinstance(a, Err) and a.kind == 'ValueError'):
                    return f'plane_pos: plane {k_} of a volume with {ns[0]} planes was not refused with ValueError'
                continue
            want = [float(x) for x in (A @ np.array([k_, 0, 0, 1.0]))[:3]]
            if isinstance(a, Err) or not near(a, want, ptol):
                return f'plane_pos: plane {k_} is reported at {a}, voxel ({k_},0,0) lies at {want}'
        return None
    if name == 'xf_round':
        T = np.linalg.inv(A) @ A0
        fs = first[0]
        if len(ans) != len(q[1]):
            return 'xf_round: wrong number of answers'
        for p_, a in zip(q[1], ans):
            ref = T @ np.array([p_[0], p_[1], p_[2], 1.0])
            ref = ref[:3]
            if a is None or np.any(np.abs(np.abs(ref - np.floor(ref)) - 0.5) < 1e-5):
                continue
            r = [int(x) for x in np.rint(ref)]
            inside = all(0 <= x < n_ for x, n_ in zip(r, ns))
            if isinstance(a, Err):
                if a.kind != 'ValueError' or inside:
                    return f'xf_round: initial index {p_} -> {a.kind}, but it lies at voxel {r} of the object'
                continue
            if list(a) != r or not inside:
                return f'xf_round: initial index {p_} is sent to {a}; the affines give {r} (inside={inside})'
            if all(0 <= x < n_ for x, n_ in zip(p_, fs)):
                i = (p_[0] * fs[1] + p_[1]) * fs[2] + p_[2]
                hit = np.argwhere(comp == i)
                if len(hit) and [int(x) for x in hit[0]] != list(a):
                    return (f'xf_round: initial voxel {p_} survives as voxel {hit[0].tolist()} but the transformer '
                            f'sends it to {a}')
        return None
    if name == 'center_idx':
        want = [(n_ - 1) // 2 for n_ in ns] + [n_ - 1 for n_ in ns]
        return None if list(ans) == want else f'center_idx: {ans}, the shape gives {want}'
    if name == 'planes':
        want = [float(x) for k_ in range(ns[0]) for x in (A @ np.array([k_, 0, 0, 1.0]))[:3]]
        ok = near(ans, want, ptol)
    elif name == 'plane_ori':
        want = [float(x) for x in A[:3, 2]] + [float(x) for x in A[:3, 1]]
        ok = near(ans, want, 1e-9 * vox)
    elif name == 'pix_meas':
        sq = [float((A[:3, d] ** 2).sum()) for d in range(3)]
        want = [sq[1], sq[2], sq[0], sq[0]]
        ok = near(ans, want, 0.0)
    elif name == 'aff_conv':
        conv = q[1] or 'LPH'
        M = np.zeros((4, 4))
        M[3, 3] = 1.0
        for r_, letter in enumerate(conv):
            M[r_, 'LRPAHF'.index(letter) // 2] = 1.0 if letter in 'LPH' else -1.0
        want = _aff_out(M @ A)
        ok = near(ans, want, ptol)
    elif name == 'sp_vec':
        want = [float(A[i, d]) for d in range(3) for i in range(3)] * 2
        ok = near(ans, want, 1e-9 * vox)
    elif name == 'extent2':
        sq = [float((A[:3, d] ** 2).sum()) for d in range(3)]
        vv = sq[0] * sq[1] * sq[2]
        want = [ns[d] ** 2 * sq[d] for d in range(3)] + [vv, float(ns[0] * ns[1] * ns[2]) ** 2 * vv]
        ok = near(ans, want, 0.0)
    elif name == 'xf_call':
        T = np.linalg.inv(A) @ A0
        pts = np.array(q[1], dtype=float).reshape(-1, 3)
        want = (pts @ T[:3, :3].T + T[:3, 3]).ravel().tolist()
        ok = close(ans, want, 1e-6)
        if ok:
            fs = first[0]
            got = np.array(ans, dtype=float).reshape(-1, 3)
            for p_, g_ in zip(q[1], got):
                if all(0 <= x < n_ for x, n_ in zip(p_, fs)):
                    hit = np.argwhere(comp == (p_[0] * fs[1] + p_[1]) * fs[2] + p_[2])
                    if len(hit) and not close(g_, hit[0], 1e-6):
                        return (f'xf_call: initial voxel {p_} survives as voxel {hit[0].tolist()} but the '
                                f'transformer sends it to {np.round(g_, 6).tolist()}')
    elif name == 'sp2':
        want = [float((A[:3, d] ** 2).sum()) for d in range(3)]
        ok = near(ans, want, 0.0)
    elif name == 'dirsp':
        want = [float(A[i, d]) for d in range(3) for i in range(3)]
        ok = near(ans, want, 1e-9 * vox)
    elif name == 'pos':
        want = [float(x) for x in A[:3, 3]]
        ok = near(ans, want, ptol)
    elif name == 'center':
        want = [float(x) for x in (A @ np.array([(n_ - 1) / 2 for n_ in ns] + [1.0]))[:3]]
        ok = near(ans, want, ptol)
    elif name == 'hand':
        return None if ans == (_det_sign(cur[1]) < 0) else f'hand: left={ans} but det sign is {_det_sign(cur[1])}'
    else:
        return f'unknown query {name}'
    return None if ok else f'{name}: {ans}, the affine of the object gives {want}'


def _same_answer(q, a, b):
    """Volume and geometry must answer alike (the geometry has no values)."""
    import numpy as np
    if isinstance(a, Err) or isinstance(b, Err):
        return isinstance(a, Err) and isinstance(b, Err) and a.kind == b.kind
    if q[0] == 'probe':
        return [None if x is None else x[0] for x in a] == [None if x is None else x[0] for x in b]
    if q[0] in ('hand', 'find', 'center_idx'):
        return a == b
    if q[0] in ('plane_pos', 'xf_round'):
        if len(a) != len(b):
            return False
        for x, y in zip(a, b):
            if isinstance(x, Err) or isinstance(y, Err):
                if not (isinstance(x, Err) and isinstance(y, Err) and x.kind == y.kind):
                    return False
            elif x is None or y is None:
                if x is not y:
                    return False
            elif not np.allclose(x, y, rtol=1e-9, atol=1e-9 * max([abs(t) for t in y] + [0.0])):
                return False
        return True
    if len(a) != len(b):
        return False
    # the same float64 operations on the same affine: equal up to a relative 1e-9 of the largest entry
    top = max([abs(x) for x in b] + [0.0])
    return bool(np.allclose(a, b, rtol=1e-9, atol=1e-9 * top))


def _close_list(a, b):
    """Affines (12 numbers) of a volume and of its geometry: equal relative to the voxel size."""
    if len(a) != len(b):
        return False
    vox, mag = _scales(_A(b))
    return all(abs(x - y) <= 1e-9 * vox + 1e-12 * mag for x, y in zip(a, b))


def _coq_orient_codes(o):
    return [LETTERS.index(x) for x in o]


def oracle(c, out):
    import numpy as np
    k = c['kind']
    if k == 'closest':
        ref = _closest_ref(c['affine'])
        if ref is not None and out[0] != ref:
            return f'closest orientation {out[0]}, dominant components give {ref}'
        if sorted(x // 2 for x in out[0]) != [0, 1, 2]:
            return f'closest orientation {out[0]} does not use each patient axis once'
        if out[1] != (_det_sign(c['affine']) < 0):
            return f'handedness left={out[1]} but determinant sign is {_det_sign(c["affine"])}'
        return None
    if k == 'geom_with_array':
        if c['ops'][0][1][:3] != c['shape']:
            return None if isinstance(out, Err) else 'VolumeGeometry.with_array accepted an array of another spatial shape'
        if isinstance(out, Err):
            return None
        if out[0] != c['shape'] or [F(x) for x in out[1]] != [F(float(F(x))) for x in c['affine']]:
            return 'VolumeGeometry.with_array changed the geometry'
        if [_num(x) for x in out[3]] != [_num(x) for x in c['ops'][0][2]]:
            return 'VolumeGeometry.with_array changed the array'
        return None
    if k == 'get_badtype':
        return _check_get_badtype(c, out)
    v0 = _mk_volume(c)
    prev = _snap_vol(v0)
    first = prev
    dtype_int = c['dtype'] == 'int'
    comp = np.arange(prev[0][0] * prev[0][1] * prev[0][2]).reshape(prev[0])
    values_comparable = True
    for n, (op, o) in enumerate(zip(c['ops'], out)):
        exp = (c.get('expect') or [None] * len(c['ops']))[n]
        if o == 'RECEIVER-MUTATED':
            return f'step {n} {op[0]}: the receiver was modified'
        ov, og = o
        if op[0] == 'query':
            vok = values_comparable and prev[2] == first[2]
            for q, av, ag in zip(op[1], ov, og):
                m = _check_query(q, av, prev, first, comp, vok, False)
                if m:
                    return f'step {n} query on the volume (after {[x[0] for x in c["ops"][:n]]}): {m}'
                m = _check_query(q, ag, prev, first, comp, False, True)
                if m:
                    return f'step {n} query on the geometry (after {[x[0] for x in c["ops"][:n]]}): {m}'
                if not _same_answer(q, av, ag):
                    return f'step {n} query {q[0]}: the volume answers {av}, its geometry answers {ag}'
            continue
        if op[0] == 'get' and isinstance(op[1], list) and len(op[1]) > 3:
            if not (isinstance(ov, Err) and ov.kind == 'IndexError' and isinstance(og, Err)
                    and og.kind == 'IndexError'):
                return (f'step {n}: an index with {len(op[1])} items must be refused with IndexError by volume '
                        f'and geometry (got {ov if isinstance(ov, Err) else "accepted"} / '
                        f'{og if isinstance(og, Err) else "accepted"})')
            continue
        if isinstance(ov, Err):
            if exp == 'ok':
                return f'step {n} {op}: a valid operation was refused with {ov.kind}'
            if og is not None and not isinstance(og, Err) and exp != 'badmode':
                return f'step {n} {op}: refused on the volume ({ov.kind}) but accepted on its geometry'
            if og is not None and isinstance(og, Err) and og.kind != ov.kind:
                return f'step {n} {op}: volume raises {ov.kind}, its geometry raises {og.kind}'
            continue
        if exp in ('err', 'badmode'):
            return f'step {n} {op}: an invalid operation was accepted'
        if og is not None:
            if isinstance(og, Err):
                return f'step {n} {op}: accepted on the volume but refused on its geometry ({og.kind})'
            if og[0] != ov[0] or not _close_list(og[1], ov[1]) or og[2] != ov[4] or og[3] != ov[5]:
                return (f'step {n} {op[0]}: geometry object got shape {og[0]} affine {og[1]}, '
                        f'volume got shape {ov[0]} affine {ov[1]}')
        msg, loc = _check_step(op, prev, ov, dtype_int, exp)
        if msg:
            return f'step {n}: {msg}'
        # composed map and dtype bookkeeping
        flat = comp.ravel()
        comp = np.where(loc >= 0, flat[np.clip(loc, 0, None)], -1)
        if op[0] in ('with_array', 'get_channel', 'permute_channels', 'squeeze'):
            values_comparable = values_comparable and op[0] != 'with_array'
            if op[0] == 'with_array':
                dtype_int = op[3] == 'int'
        if op[0] in ('pad', 'pad_to', 'pad_or_crop') and op[4] and _np_mode(op[2]) in (
                'MINIMUM', 'MAXIMUM', 'MEAN', 'MEDIAN'):
            pcs = [len(v) for _, v in prev[2]]
            if pcs and pcs != [1]:
                dtype_int = False
        prev = ov
    # whole history: every voxel that descends from an initial voxel is where that voxel was
    loc0 = _locate((first[0], first[1]), (prev[0], prev[1]))
    bad = (comp >= 0) & (comp != loc0)
    if bad.any():
        j = tuple(int(x) for x in np.argwhere(bad)[0])
        return (f'after the whole history voxel {j} descends from initial voxel {int(comp[j])} '
                f'but lies at the position of initial voxel {int(loc0[j])}')
    if values_comparable and prev[2] == first[2]:
        pc = [len(v) for _, v in first[2]]
        a0 = np.array(first[3], dtype=float).reshape([-1] + pc)
        a1 = np.array(prev[3], dtype=float).reshape(list(prev[0]) + pc)
        kept = comp >= 0
        if kept.any() and not np.array_equal(a1[kept], a0[comp[kept]]):
            return 'after the whole history a retained voxel does not carry its initial value'
    return None


def _check_get_badtype(c, out):
    """Independent of the model: the documented rule (int / slice / tuple of them, at most three items,
    items checked in order) and numpy's own indexing for the accepted (bool) ones."""
    import numpy as np
    if out == 'RECEIVER-MUTATED':
        return 'the receiver was modified'
    ov, og = out
    xi, n = c['xindex'], c['shape']
    items = xi if isinstance(xi, list) else [xi]
    want = None
    if not isinstance(xi, list) and _x_is_bad(xi):
        want = 'TypeError'
    elif len(items) > 3:
        want = 'IndexError'
    else:
        for d, x in enumerate(items):
            if _x_is_bad(x):
                want = 'TypeError'
            else:
                x = _x_plain(x)
                if isinstance(x, dict):
                    a, b, _ = x['s']
                    if (a is not None and not -n[d] <= a < n[d]) or (b is not None and not -n[d] - 1 <= b <= n[d]):
                        want = 'ValueError'
                elif not -n[d] <= x < n[d]:
                    want = 'IndexError'
            if want:
                break
    if want:
        for who, o in (('volume', ov), ('geometry', og)):
            if not isinstance(o, Err):
                return f'{who}: index {xi} was accepted; expected {want}'
            if o.kind != want:
                return f'{who}: index {xi} raised {o.kind}; the first offending item calls for {want}'
        return None
    if isinstance(ov, Err) or isinstance(og, Err):
        if not (isinstance(ov, Err) and isinstance(og, Err) and ov.kind == og.kind):
            return f'volume and geometry disagree on index {xi}: {ov if isinstance(ov, Err) else "ok"} / {og if isinstance(og, Err) else "ok"}'
        # second loop of _prepare_getitem_index: empty selection / zero step
        sl = [slice(*x['s']) if isinstance(x, dict) else None for x in map(_x_plain, items)]
        zero = any(s_ is not None and s_.step == 0 for s_ in sl)
        empty = any(s_ is not None and s_.step != 0 and len(range(*s_.indices(n[d]))) == 0 for d, s_ in enumerate(sl))
        if not (zero or empty):
            return f'the valid index {xi} was refused with {ov.kind}'
        return None
    v0 = _mk_volume(c)
    key = []
    for d, x in enumerate(map(_x_plain, items)):
        key.append(slice(*x['s']) if isinstance(x, dict) else slice(x, None if x == -1 else x + 1))
    ref = np.asarray(v0.array)[tuple(key)]
    if list(ref.shape[:3]) != ov[0] or [_num(x) for x in ref.ravel().tolist()] != ov[3]:
        return f'index {xi}: the array is not what numpy selects with the same index'
    loc = _locate((c['shape'], [float(F(x)) for x in c['affine']]), (ov[0], ov[1]))
    ids = np.arange(n[0] * n[1] * n[2]).reshape(n)[tuple(key)]
    if not np.array_equal(loc, ids):
        return f'index {xi}: a retained voxel is not at the physical coordinate it had'
    if og[0] != ov[0] or not _close_list(og[1], ov[1]):
        return f'index {xi}: the geometry got shape {og[0]} affine {og[1]}, the volume {ov[0]} {ov[1]}'
    return None


def nontrivial(c, out):
    if c['kind'] in ('closest', 'geom_with_array', 'get_badtype'):
        return True
    v = _snap_vol(_mk_volume(c))
    outs = [o for op, o in zip(c['ops'], out) if op[0] != 'query']
    for o in outs:
        if isinstance(o, list) and not isinstance(o[0], Err) and (o[0][0] != v[0] or o[0][1] != v[1]
                                                                  or o[0][3] != v[3]):
            return True
    return any(isinstance(o, list) and isinstance(o[0], Err) for o in outs)


def shrink(c):
    if 'ops' not in c or c['kind'] in ('closest', 'geom_with_array', 'get_badtype'):
        return
    n = len(c['ops'])
    for i in range(n):
        if n > 1:
            yield dict(c, ops=c['ops'][:i] + c['ops'][i + 1:], expect=[None] * (n - 1))
    if n > 1:
        yield dict(c, ops=c['ops'][:n // 2], expect=[None] * (n // 2))
    if c['chans']:
        # drop the channel dimensions (keep the first value of each)
        import numpy as np
        arr = np.array(c['data']).reshape(c['shape'] + [len(v) for _, v in c['chans']])
        sub = arr[(slice(None),) * 3 + (0,) * len(c['chans'])]
        ops = [op for op in c['ops'] if op[0] not in ('get_channel', 'permute_channels', 'with_array', 'squeeze')]
        if ops:
            yield dict(c, chans=[], data=[int(x) for x in sub.ravel()], ops=ops, expect=[None] * len(ops))
    if c['affine'] != [str(x) for x in [1, 0, 0, 0, 1, 0, 0, 0, 1, 0, 0, 0]]:
        yield dict(c, affine=[str(x) for x in [1, 0, 0, 0, 1, 0, 0, 0, 1, 0, 0, 0]])


def extra_obligations(work):
    # T-int: the integer helpers this model mirrors, re-translated from the current source
    import translate_int
    return translate_int.obligations(work, translate_int.FOR['C08'])


if __name__ == '__main__':
    sys.exit(common.main(sys.modules[__name__]))
