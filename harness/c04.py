"""C04 - tiled images reassemble to the exact total pixel matrix.

Implementation functions driven (real code from $VERIF_REPO/src):
  _Image._standardize_row_column_indices (static, both output conventions)
  Image.get_total_pixel_matrix on synthetic TILED_FULL / TILED_SPARSE slide images
    (1 and 3 samples; complete grids, grids with missing tiles, duplicated positions)
  Segmentation(tile_pixel_array=True, tile_size=...) for BINARY / FRACTIONAL / LABELMAP,
    TILED_FULL / TILED_SPARSE, omit_empty_frames on/off, label-map and 4-D stack inputs,
  Segmentation.get_total_pixel_matrix (segment subsets, all three argument conventions)
  Segmentation(tile_pixel_array=True) with an OWN geometry relative to the source image
    (pixel_measures / plane_orientation / single plane_positions origin given by the caller, equal
    to or different from the source's; mask shape equal to or different from the source's total
    pixel matrix; tile_size None / equal to the source tile size / different), observing the
    declared Rows/Columns/TotalPixelMatrixRows/Columns besides the regions
  seg.create_segmentation_pyramid (one source + one mask per level, several sources, one
    source + downsample_factors)
  Image.get_volume(row_start, ...) on tiled slide images (kind img_vol: the region path through
    the double standardisation), Segmentation.get_volume on tiled segmentations (kind seg_reads)
  Segmentation.get_total_pixel_matrix with caller-chosen segment_numbers per read (empty, not
    described, duplicated, permuted), LABELMAP with combine_segments False / True / relabel (seg_reads)
  the same constructors fed with arrays in OTHER MEMORY LAYOUTS / dtypes holding the same values
    (axes stored in any order - Fortran, transposed, segment-major -, strided, reversed and offset
    views into larger buffers, read-only, bool / uint16 / float 0-1), and with the caller's array
    overwritten after construction (kind seg_mem; the same option on seg_geom / seg_pyr / seg_hist)
  Segmentation(tile_pixel_array=False) from a stack of frames the CALLER cut on the source image's tile
    grid (positions taken from the source frames; any memory layout), read back through
    get_total_pixel_matrix (kind seg_frames; same model term as the library's own cut)
  HISTORIES of reads on one object (kinds seg_hist / img_hist): in memory, written and re-read
    (segread / imread), lazy frame retrieval; the decoded pixel array cached (`.pixel_array`) before
    any read or in the middle; every returned array overwritten by the caller; output dtype default /
    explicit; BINARY / FRACTIONAL reads with combine_segments / relabel / rescale_fractional /
    skip_overlap_checks; at the end the stored frames and the cached array must be unchanged
  FLOATING POINT (probability) masks stored as FRACTIONAL with max_fractional_value 1 .. 255 (and refused above),
    float32 / float64, passed as a whole matrix (tile_pixel_array=True) or as frames cut by the caller, every tile
    of every segment empty / FAINT (only low levels, down to a single pixel at level 1) / confident, omit_empty_frames
    given or left at its default; read back raw and rescaled (kind seg_frac)
  described segment NUMBERS chosen by the caller: LABELMAP with sparse numbers whose highest lies at / next to the
    8 / 16 bit storage boundaries (255, 256, 257, 32767, 32768, 65535 ...), BINARY / FRACTIONAL with 255 .. 257
    segments; combined / relabelled / per-plane reads with the default and explicit output dtypes (kind seg_nums)
  Segmentation(tile_pixel_array=False, plane_positions=[...]) with frames at CALLER-CHOSEN positions - arbitrary
    offsets, shifted grids, sparse subsets of the grid, overlapping runs - observing the declared
    TotalPixelMatrixRows/Columns and regions that start strictly inside an off-grid frame (kind seg_free);
    Image.get_total_pixel_matrix / get_volume on images whose frames cover the matrix from explicit off-grid
    positions (kind img_free)
Model: coq/theories/C04_Model.v; theorems: C04_Props.v.
Kind 'np1d' compares the MODEL with pure numpy slicing (no highdicom) on the
exhaustive per-axis enumeration of start/end arguments.
"""
import itertools
import os
import sys

sys.path.insert(0, os.path.dirname(os.path.abspath(__file__)))
import common
from common import Err, catch, zlit, zl, zll, optz

PROPERTY = 'C04'
PROPS_FILE = 'C04_Props.v'
COQ_IMPORTS = ['C12_Model', 'C04_Model']
TOL = None
ORACLE_PREMISES = [
    'stored frames decode to the arrays that were encoded (native uint8 / bit-packed BINARY frames; property C01)',
    'SQLite evaluates the range WHERE clause, COUNT(*), GROUP BY uniqueness and ORDER BY as modelled '
    '(filter / length / duplicate test / insertion sort)',
    'numpy basic-slice assignment out[a:b, c:d] = frame[e:f, g:h] copies position-wise when shapes agree '
    '(shapes are proved equal: C04_slice_shapes_agree); np.zeros refuses negative shapes with ValueError',
    'float quantisation: np.around(p * max_fractional_value) is the level q for p = (q + d) / max_fractional_value, '
    '|d| <= 1/4, in float32 and float64 (the model works on levels; the oracle re-derives them with exact rationals)',
]
MODELLED = ('image.py _standardize_row_column_indices, _iterate_indices_for_tiled_region (range predicate, '
            'four max/min slices, missing-frame count, uniqueness refusal, ORDER BY), the frame loop of '
            '_get_pixels_by_frame (cell-wise: last covering tile wins, else 0), TILED_FULL implied positions; '
            'seg/sop.py tile_pixel_array constructor path (positions, _get_nonempty_tile_indices, per-segment '
            'omission, TILED_FULL+omit refusal, integer branch of _get_segment_pixel_array), '
            'Segmentation.get_total_pixel_matrix with segment subsets (combine_segments=False, raw values) and '
            'LABELMAP combine without relabel; spatial.get_tile_array / compute_tile_positions_per_frame via C12_Model; '
            'geometry relative to the source: default tile size (tile_size or source Rows/Columns), plane_positions '
            'guard, are_total_pixel_matrix_locations_preserved, shape guard, are_spatial_locations_preserved and the '
            'TotalPixelMatrixRows/Columns written by _add_slide_coordinate_metadata (stored_geom / run_seg_geom); '
            'create_segmentation_pyramid levels as a list of such constructions (array-per-level and '
            'source-per-level modes; the downsample_factors mode is oracle-only); the frame loop ALSO as numpy '
            'array updates (np.zeros + clamped slice assignment per selected frame: read_region_arr, used for '
            'half of the img cases, proved equal to the cell-wise loop); the region path of Image.get_volume / '
            'Segmentation.get_volume on tiled images (standardise to indices, then get_total_pixel_matrix with '
            'as_indices=True: vol_region); segment_numbers checks (empty / not described -> ValueError) and the '
            'LABELMAP output modes (planes, combined, relabelled) of Segmentation.get_total_pixel_matrix; '
            'combine_segments / relabel on BINARY and FRACTIONAL storage (np.maximum of label-scaled frames, overlap '
            'RuntimeError unless skip_overlap_checks, FRACTIONAL only with rescale_fractional: seg_read_combined); '
            'a history of reads as a list of independent reads followed by "stored frames unchanged" (run_seg_hist); '
            'float masks as LEVEL planes: range / max_fractional_value guards, emptiness of a tile and per-segment '
            'omission decided on the quantised levels (stored_frac / run_seg_frac); frame-wise construction from frames at '
            'caller-chosen positions: _get_nonempty_plane_indices, per-segment omission, the TotalPixelMatrixRows/Columns '
            '_add_slide_coordinate_metadata derives from the largest row and column offsets '
            '(seg_store_frames / declared_free / run_seg_free); the described segment numbers are a parameter of every '
            'seg term (any ascending list)')
STRATA = ['std', 'std_bad', 'img', 'img_missing', 'img_dup', 'seg', 'seg_full_omit', 'np1d',
          'seg_geom', 'seg_geom_bad', 'seg_pyr', 'img_vol', 'seg_reads', 'seg_mem', 'seg_frames', 'seg_hist', 'img_hist',
          'seg_frac', 'seg_nums', 'seg_free', 'img_free']
NOT_EXECUTED = ['float probabilities whose product with max_fractional_value lies within 1/4 of a rounding tie '
                '(value encoding is property C01)',
                'combine_segments without skip_overlap_checks on BINARY / FRACTIONAL frames of ONE segment that overlap each '
                'other (the code reports them as overlapping segments: RuntimeError; with skip_overlap_checks, and for '
                'LABELMAP, overlapping frames are generated)',
                'an explicit output dtype too small for the highest requested number (refused with ValueError; observed)',
                'compressed transfer syntaxes (frame codecs are property C07)',
                'multiple optical paths / focal planes (property C12 covers the implied order)',
                'a repeated segment number in a combine_segments request on BINARY / FRACTIONAL storage (the code '
                'leaks sqlite3.IntegrityError, or reports the segment as overlapping itself with relabel)']
RULE = ('std: exhaustive small sizes x all argument values in [-n-2, n+3] U {None} per axis (random for the '
        'other axis) + random; img/seg: boundary-biased sizes (every residue of size mod tile), regions drawn '
        'from tile-boundary +-1, first/last, None, negative and 0-based forms, plus a malformed stream (0 start, '
        'start > n, end > n+1, arg < -n, start > end, empty); img_missing: random tiles deleted from a '
        'TILED_SPARSE image; img_dup: one position duplicated; seg: all types x organisation x omit x '
        'label/stack input x segment subsets, sparse/empty/full masks; np1d: model vs numpy, exhaustive per axis; '
        'seg_geom: source matrix/tile size independent of the mask, caller-given spacing/orientation/origin each '
        'absent, equal to or different from the source, mask shape = source / halved / arbitrary / larger, tile_size '
        'None / = source tile / custom; seg_geom_bad: coinciding matrix with another shape, plane_positions with two '
        'items or not at (1, 1); seg_pyr: pyramids of 2-3 levels in the three single/multi source modes; '
        'img_vol: get_volume on complete / incomplete TILED_FULL / TILED_SPARSE images, same region stream as img '
        'plus the one-based end 0 on either axis; seg_reads: one construction, 7 reads each with its own '
        'segment_numbers (valid subsets/permutations/duplicates, empty, undescribed numbers), output mode '
        '(planes; LABELMAP also combined / relabelled) and entry point (get_total_pixel_matrix / get_volume). '
        'seg_mem: the seg stream with the input array re-laid out in memory (random axis storage order, steps '
        '+-1 / +-2, offsets into a larger garbage-filled buffer, read-only, dtype uint8 / uint16 / bool / float) and '
        'possibly overwritten after construction; the same option with p=0.3 on seg_geom / seg_pyr / seg_hist; '
        'seg_frames: frames cut by the caller on the source grid (TILED_FULL / TILED_SPARSE source, organisation '
        'given or defaulted, omit on/off), stack laid out like seg_mem with p=0.7; '
        'seg_hist: one construction (BINARY-biased, >= 2 segments biased), source object in memory / re-read / '
        'lazy, pixel array cached before read 0..3 or never, returned arrays overwritten or not, 7 reads with mode '
        'planes / combined / relabel for every type, rescale_fractional, skip_overlap_checks, dtype, entry point, '
        'the last read being the whole matrix in planes; img_hist: the img stream on an object from a dataset / '
        'imread / lazy imread with cache warming, overwritten results and default / explicit dtype; '
        'seg_frac: per tile and segment empty / faint (levels 1 .. max/2, p=0.6 per pixel) / one pixel at level 1 / '
        'confident, jitter d in {-1/4, 0, 1/4}, max_fractional_value from {1, 2, 3, 15, 100, 200, 254, 255}, 15 % masks '
        'with 0.0 / 1.0 only, malformed stream (value > 1, value < 0, max_fractional_value 256 / 300), whole matrix '
        '(70 %) or caller-cut frames, omit True / False / default, 5 reads planes raw / planes rescaled / combined / '
        'relabel + the whole matrix; seg_nums: LABELMAP (86 %) with highest number from {254 .. 258, 300, 511 .. 513, '
        '1000, 4000} (10 % from {32767, 32768, 65534, 65535}, 10 % uniform) and 0-3 lower numbers biased to 254 .. 257, '
        'BINARY / FRACTIONAL with 255 / 256 / 257 segments; the highest number always present in the padded edge tile; '
        '4 reads over all / highest / random subsets / undescribed numbers with dtype default or any sufficient one; '
        'seg_free: frame size 1 .. 4, positions free / shifted grid / grid subset / overlapping run, 82 % with a frame '
        'at the bottom-right corner of the bounding box, 60 % of the region starts strictly inside a frame; img_free: '
        'per-axis origins 1 = o_0 < o_1 ... with steps <= tile size (no gaps; as many frames as the grid has, 20 % one '
        'more), frames shuffled, 25 % through get_volume; '
        'non-trivial = more than one tile and a non-whole region, or a refusal; distinct by case hash')
EXHAUSTIVE = {'quick': False, 'thorough': False}

SEG_KINDS = ('seg', 'seg_full_omit', 'seg_mem')
SEG_TERM_KINDS = SEG_KINDS + ('seg_frames',)     # same model term: the library's cut = the caller's cut


# D108 (found by the img_hist kind, fixed in /repo, commit c577ff1): a tiled COLOUR image stored as ONE frame could not
# be read by get_total_pixel_matrix / get_frames once `.pixel_array` had been accessed (ValueError "Expected an image of
# shape (R, C, 3)": "single frame" was recognised by `pixel_array.ndim == 2`, true for grayscale only).  The configuration
# stays in the default img_hist stream (biased towards it) and in corpus/C04/d108_single_colour_frame_cached.json.
# D100 (tiled get_volume with the one-based end 0), found by this check, was fixed in /repo as well.
# D121 (found by the kind seg_free, fixed in /repo, commit c43ed8f): a frame-wise Segmentation with explicit plane_positions took
# TotalPixelMatrixRows AND Columns from the frame last by (column, row) offset, so frames at (1, 5) and (5, 1) declared 2 x 6 and
# the lower frame could not be read.  D122 (found by seg_frac, fixed, commit 4a7336b): an EMPTY region of a FRACTIONAL segmentation
# read as rescaled planes raised ValueError (max() of an empty array).  Both configurations stay in the default streams
# (18 % of seg_free without a frame at the bounding-box corner; empty regions with rescale_fractional in seg_frac) and in
# corpus/C04/d121_*.json / d122_*.json; the oracle demands the bounding box and the empty array.
FINDINGS = {}


# --------------------------------------------------------------------------
# independent reference semantics of the three argument conventions
# --------------------------------------------------------------------------
def ref_axis(n, as_idx, start, end):
    """0-based half-open [s0, e0) the documented conventions denote, or None
    when the arguments do not denote a region of a matrix axis of length n."""
    if start is None:
        s0 = 0
    elif start < 0:
        if start < -n:
            return None
        s0 = n + start
    elif as_idx:
        if start >= n:
            return None
        s0 = start
    else:
        if start == 0 or start > n:
            return None
        s0 = start - 1
    if end is None:
        e0 = n
    elif end < 0:
        if end < -n:
            return None
        e0 = n + end
    elif as_idx:
        if end > n:
            return None
        e0 = end
    else:
        if end == 0 or end > n + 1:
            return None
        e0 = end - 1
    if s0 > e0:
        return None
    return s0, e0


def ref_region(R, C, rg):
    ai, rs, re, cs, ce = rg
    a = ref_axis(R, ai, rs, re)
    b = ref_axis(C, ai, cs, ce)
    if a is None or b is None:
        return None
    return a + b


# --------------------------------------------------------------------------
# generators
# --------------------------------------------------------------------------
def _sizes(rng, hi=9, thi=4):
    th = rng.randint(1, thi)
    tw = rng.randint(1, thi)
    # every residue of the size modulo the tile size
    R = min(hi, max(1, th * rng.randint(0, 3) + rng.randint(0, th)))
    C = min(hi, max(1, tw * rng.randint(0, 3) + rng.randint(0, tw)))
    if rng.random() < 0.15:
        th = R + rng.randint(0, 1)
    if rng.random() < 0.15:
        tw = C + rng.randint(0, 1)
    return R, C, th, tw


def _axis_args(rng, n, t, as_idx, bad=False):
    """(start, end) for one axis, boundary-biased; `bad` violates one guard."""
    cand = {1, n, n + 1}
    for k in range(0, n // t + 2):
        for d in (-1, 0, 1, 2):
            v = k * t + d
            if 1 <= v <= n + 1:
                cand.add(v)
    cand = sorted(cand)                        # 1-based positions 1..n+1
    s = rng.choice([v for v in cand if v <= n])
    e = rng.choice([v for v in cand if v > s] or [n + 1])
    if rng.random() < 0.06:
        e = s                                   # empty region
    if rng.random() < 0.12:
        e = min(n + 1, s + 1)                   # single row/column

    def enc(v, is_end):
        k = rng.random()
        if k < 0.2 and ((not is_end and v == 1) or (is_end and v == n + 1)):
            return None
        if k < 0.5 and v <= n:
            return v - n - 1                    # negative form of position v
        return v - 1 if as_idx else v
    a, b = enc(s, False), enc(e, True)
    if bad:
        m = rng.choice(['zero', 'start_hi', 'end_hi', 'start_lo', 'end_lo', 'swap', 'end0'])
        if m == 'zero':
            a = 0 if not as_idx else n
        elif m == 'start_hi':
            a = (n if as_idx else n + 1) + rng.randint(0, 2)
        elif m == 'end_hi':
            b = (n + 1 if as_idx else n + 2) + rng.randint(0, 2)
        elif m == 'start_lo':
            a = -n - 1 - rng.randint(0, 2)
        elif m == 'end_lo':
            b = -n - 1 - rng.randint(0, 2)
        elif m == 'swap':
            s2 = rng.randint(2, n) if n >= 2 else 1
            e2 = rng.randint(1, s2 - 1) if s2 >= 2 else 0
            a, b = (s2 - 1, e2 - 1) if as_idx else (s2, e2)
            if as_idx and b < 0:
                b = 0
                a = max(a, 1) if n > 1 else a
        elif m == 'end0':
            b = 0
    return a, b


def _region(rng, R, C, th, tw, pbad=0.12):
    ai = rng.random() < 0.4
    k = rng.random()
    rs, re = _axis_args(rng, R, th, ai, bad=k < pbad / 2)
    cs, ce = _axis_args(rng, C, tw, ai, bad=pbad / 2 <= k < pbad)
    if rng.random() < 0.06:
        rs = re = cs = ce = None
    return [ai, rs, re, cs, ce]


def _pixels(rng, R, C, samples):
    vals = list(range(1, 256))
    rng.shuffle(vals)
    it = itertools.cycle(vals)
    return [[[next(it) for _ in range(samples)] for _ in range(C)] for _ in range(R)]


def _labelmap(rng, R, C, nseg):
    mode = rng.choice(['sparse', 'sparse', 'blobs', 'empty', 'full', 'random', 'corner'])
    L = [[0] * C for _ in range(R)]
    if mode == 'sparse':
        for _ in range(rng.randint(1, 4)):
            L[rng.randrange(R)][rng.randrange(C)] = rng.randint(1, nseg)
    elif mode == 'blobs':
        for _ in range(rng.randint(1, 3)):
            r0, c0 = rng.randrange(R), rng.randrange(C)
            k = rng.randint(1, nseg)
            for r in range(r0, min(R, r0 + rng.randint(1, 3))):
                for c in range(c0, min(C, c0 + rng.randint(1, 3))):
                    L[r][c] = k
    elif mode == 'full':
        k = rng.randint(1, nseg)
        L = [[k] * C for _ in range(R)]
    elif mode == 'random':
        L = [[rng.randint(0, nseg) for _ in range(C)] for _ in range(R)]
    elif mode == 'corner':
        L[R - 1][C - 1] = rng.randint(1, nseg)   # only the padded edge tile is non-empty
    return L


# ---- geometry of the segmentation relative to its source ---------------------------
_ORIS = [[0, -1, 0, -1, 0, 0], [1, 0, 0, 0, -1, 0], [0, 1, 0, 1, 0, 0], [-1, 0, 0, 0, 1, 0]]
_SPACINGS = [[0.5, 0.5], [0.25, 0.25], [1.0, 1.0], [0.5, 1.0], [2.0, 0.5]]


def _geom_flags(c):
    """Geometric relation of the segmentation to the source image, from the
    VALUES in the case (ground truth of the generator, independent of the code)."""
    pp = c['pp']
    origin_same = pp is None or [float(v) for v in pp['xyz']] == [float(c['src_origin'][0]),
                                                                  float(c['src_origin'][1]), 0.0]
    user_ori = c['ori'] is not None
    ori_same = user_ori and [float(v) for v in c['ori']] == [float(v) for v in c['src_ori']]
    user_meas = c['spacing'] is not None
    meas_same = user_meas and [float(v) for v in c['spacing']] == [float(v) for v in c['src_spacing']]
    pres = origin_same and (not user_ori or ori_same) and (not user_meas or meas_same)
    pp_bad = pp is not None and (pp['n'] != 1 or list(pp['rc']) != [1, 1])
    SR, SC = c['src'][0], c['src'][1]
    return {'origin_same': origin_same, 'user_ori': user_ori, 'ori_same': ori_same, 'user_meas': user_meas,
            'meas_same': meas_same, 'pres': pres, 'pp_bad': pp_bad,
            'refused': pp_bad or (pres and (c['R'], c['C']) != (SR, SC))}


def _eff_tile(c):
    return tuple(c['tile']) if c['tile'] is not None else (c['src'][2], c['src'][3])


# ---- memory layout of the array handed to the constructor ---------------------------------
def _mem_spec(rng, inp, nseg, L, force=False):
    """How the (same-valued) input array is laid out in memory: `order` = storage order of the
    axes (frames, rows, columns, segments; slowest first - [0, 1, 2, 3] is C order), per-axis
    step (+-1, +-2: strided / reversed views) and offset into a larger garbage-filled buffer,
    read-only flag, dtype, and whether the caller overwrites the array after construction."""
    if not force and rng.random() < 0.7:
        return None
    order = [0, 1, 2, 3]
    k = rng.random()
    if k < 0.3:
        order = [3, 2, 1, 0]                              # Fortran order
    elif k < 0.5:
        order = [0, 2, 1, 3]                              # rows/columns transposed in memory
    elif k < 0.8:
        rng.shuffle(order)
    steps = [1, 1, 1, 1]
    off = [0, 0, 0, 0]
    if rng.random() < 0.4:
        steps = [1] + [rng.choice([1, 1, 2, -1, -2]) for _ in range(3)]
        off = [0] + [rng.randint(0, 2) for _ in range(3)]
    small = inp == 'stack' or (nseg == 1 and max(max(r) for r in L) <= 1)
    dt = rng.choice(['uint8', 'uint8', 'uint16'] + (['bool', 'float32', 'float64'] if small else []))
    mem = {'order': order, 'steps': steps, 'off': off, 'ro': rng.random() < 0.25, 'dtype': dt,
           'clobber': rng.random() < 0.3}
    if force and order == [0, 1, 2, 3] and steps == [1, 1, 1, 1] and dt == 'uint8' and not mem['clobber']:
        mem['order'] = [3, 2, 1, 0]
    return mem


def _relayout(a, mem):
    """The array `a` (values unchanged) as a view with the memory layout `mem` describes."""
    import numpy as np
    if not mem:
        return a
    a = a.astype(mem['dtype'])
    nd = a.ndim
    perm = [p for p in mem['order'] if p < nd]
    steps, off = mem['steps'][:nd], mem['off'][:nd]
    big_shape = [a.shape[k] * abs(steps[k]) + off[k] + 1 for k in range(nd)]
    inv = [perm.index(k) for k in range(nd)]
    big = np.ones([big_shape[q] for q in perm], a.dtype).transpose(inv)      # garbage: ones
    assert list(big.shape) == big_shape
    sl = []
    for k in range(nd):
        n, st, o = a.shape[k], steps[k], off[k]
        if st > 0:
            sl.append(slice(o, o + n * st, st))
        else:
            start, stop = o + (n - 1) * (-st), o + st
            sl.append(slice(start, stop if stop >= 0 else None, st))
    v = big[tuple(sl)]
    assert v.shape == a.shape, (v.shape, a.shape)
    v[...] = a
    assert np.array_equal(v, a)
    if mem['ro']:
        v.setflags(write=False)
    return v


def _clobber(arr, mem):
    """the caller reuses its buffer after the segmentation has been constructed"""
    if mem and mem.get('clobber') and arr.flags.writeable:
        arr[...] = (arr == 0)


def _mask_case(rng, R, C, allow_labelmap=True, ty=None, nseg=None, mem=True):
    ty = ty or rng.choice(['BINARY', 'BINARY', 'FRACTIONAL'] + (['LABELMAP'] if allow_labelmap else []))
    nseg = nseg or rng.randint(1, 3)
    L = _labelmap(rng, R, C, nseg)
    inp, stack = 'label', None
    if ty != 'LABELMAP' and rng.random() < 0.25:
        inp = 'stack'
        stack = [[[1 if (L[r][c] == k or (L[r][c] and rng.random() < 0.2)) else 0 for c in range(C)]
                  for r in range(R)] for k in range(1, nseg + 1)]
    sel = rng.sample(range(1, nseg + 1), rng.randint(1, nseg))
    if rng.random() < 0.5:
        sel = list(range(1, nseg + 1))
    return {'ty': ty, 'nseg': nseg, 'inp': inp, 'L': L, 'stack': stack, 'sel': sel,
            'mem': _mem_spec(rng, inp, nseg, L) if mem else None}


def _gen_geom(rng, force_bad=False):
    SR, SC, sth, stw = _sizes(rng, hi=12)
    src_spacing = rng.choice(_SPACINGS[:3])
    src_ori = rng.choice(_ORIS[:2])
    src_origin = rng.choice([[0.0, 0.0], [10.0, 20.0]])

    def pick(p_none, p_eq):
        k = rng.random()
        return 'none' if k < p_none else ('eq' if k < p_none + p_eq else 'diff')
    ms, mo, mp = pick(0.45, 0.15), pick(0.7, 0.1), pick(0.65, 0.1)
    if force_bad and rng.random() < 0.7:
        ms, mo, mp = [m if m != 'diff' else 'eq' for m in (ms, mo, mp)]
    spacing = None if ms == 'none' else (list(src_spacing) if ms == 'eq' else
                                         rng.choice([v for v in _SPACINGS if v != src_spacing]))
    ori = None if mo == 'none' else (list(src_ori) if mo == 'eq' else rng.choice([v for v in _ORIS if v != src_ori]))
    pp = None
    if mp != 'none':
        xyz = [src_origin[0], src_origin[1], 0.0]
        if mp == 'diff':
            i = rng.randrange(3)
            xyz[i] = xyz[i] + rng.choice([0.5, -1.0, 4.0])
        pp = {'n': 1, 'rc': [1, 1], 'xyz': xyz}
    pres = 'diff' not in (ms, mo, mp)
    # shape of the mask
    if pres and not force_bad:
        R, C = SR, SC
    else:
        k = rng.random()
        if k < 0.3:
            R, C = -(-SR // 2), -(-SC // 2)                 # next pyramid level
        elif k < 0.65:
            R, C = _sizes(rng)[:2]                            # unrelated
        elif k < 0.8 and not (pres and force_bad):
            R, C = SR, SC                                     # same shape, other geometry
        elif k < 0.9:
            R, C = min(12, SR + rng.randint(1, 3)), min(12, SC + rng.randint(0, 3))   # larger
        else:
            R, C = (SR, max(1, SC - 1)) if rng.random() < 0.5 else (max(1, SR - 1), SC)
        if pres and force_bad and (R, C) == (SR, SC):
            R = SR + 1
    if force_bad and not pres:
        # malformed plane_positions
        if pp is None:
            pp = {'n': 1, 'rc': [1, 1], 'xyz': [src_origin[0] + 1.0, src_origin[1], 0.0]}
        if rng.random() < 0.4:
            pp['n'] = 2
        else:
            pp['rc'] = rng.choice([[2, 1], [1, 2], [3, 3]])
    k = rng.random()
    tile = None if k < 0.4 else ([sth, stw] if k < 0.65 else [rng.randint(1, 4), rng.randint(1, 4)])
    full = rng.random() < 0.45
    omit = (not full) and rng.random() < 0.7
    c = {'R': R, 'C': C, 'src': [SR, SC, sth, stw], 'tile': tile, 'full': full, 'omit': omit,
         'src_spacing': src_spacing, 'src_ori': src_ori, 'src_origin': src_origin,
         'spacing': spacing, 'ori': ori, 'pp': pp, 'roundtrip': rng.random() < 0.15}
    c.update(_mask_case(rng, R, C))
    th, tw = _eff_tile(c)
    c['regions'] = [[False, None, None, None, None]] + [_region(rng, R, C, th, tw) for _ in range(5)]
    c['kind'] = 'seg_geom_bad' if _geom_flags(c)['refused'] else 'seg_geom'
    return c


def _gen_pyramid(rng):
    mode = rng.choice(['arrays', 'arrays', 'sources', 'factors'])
    sth, stw = rng.randint(1, 4), rng.randint(1, 4)
    SR, SC = rng.randint(4, 12), rng.randint(4, 12)
    nlev = rng.randint(2, 3)
    shapes = [(SR, SC)]
    factors = None
    if mode == 'factors':
        factors = sorted(rng.sample([1.5, 2, 2.5, 3, 4], nlev - 1))
        shapes += [(int(SR / f), int(SC / f)) for f in factors]
    else:
        for _ in range(nlev - 1):
            r, cc = shapes[-1]
            if r < 2 or cc < 2:
                break
            k = rng.random()
            shapes.append((-(-r // 2), -(-cc // 2)) if k < 0.5 and r > 2 and cc > 2
                          else (rng.randint(1, r - 1), rng.randint(1, cc - 1)))
    k = rng.random()
    tile = None if k < 0.5 else ([sth, stw] if k < 0.7 else [rng.randint(1, 4), rng.randint(1, 4)])
    full = rng.random() < 0.45
    omit = (not full) and rng.random() < 0.7
    m = _mask_case(rng, SR, SC, allow_labelmap=False)
    levels = [{'R': SR, 'C': SC, 'L': m['L'], 'stack': m['stack']}]
    if mode != 'factors':
        for (r, cc) in shapes[1:]:
            L = _labelmap(rng, r, cc, m['nseg'])
            stack = None
            if m['inp'] == 'stack':
                stack = [[[1 if L[a][b] == k2 else 0 for b in range(cc)] for a in range(r)]
                         for k2 in range(1, m['nseg'] + 1)]
            levels.append({'R': r, 'C': cc, 'L': L, 'stack': stack})
    c = {'kind': 'seg_pyr', 'mode': mode, 'src': [SR, SC, sth, stw], 'tile': tile, 'full': full, 'omit': omit,
         'ty': m['ty'], 'nseg': m['nseg'], 'inp': m['inp'], 'sel': m['sel'], 'levels': levels,
         'mem': (dict(m['mem'], dtype='uint8') if m['mem'] else None),
         'factors': factors, 'shapes': [list(x) for x in shapes],
         # sources mode: every level has its own source with its own tile size
         'src_tiles': [[sth, stw]] + [[rng.randint(1, 4), rng.randint(1, 4)] for _ in shapes[1:]]}
    regs = []
    for li, (r, cc) in enumerate(shapes):
        th, tw = tuple(tile) if tile is not None else tuple(c['src_tiles'][li] if mode == 'sources' else [sth, stw])
        regs.append([[False, None, None, None, None]] + [_region(rng, r, cc, th, tw, pbad=0.05) for _ in range(3)])
    c['regions'] = regs
    return c


def _gen_seg_reads(rng):
    R, C, th, tw = _sizes(rng)
    m = _mask_case(rng, R, C, mem=False)
    full = rng.random() < 0.45
    omit = (not full) and rng.random() < 0.7
    nseg = m['nseg']
    reads = []
    for _ in range(7):
        k = rng.random()
        if k < 0.08:
            sel = []
        elif k < 0.2:
            sel = rng.sample(range(1, nseg + 1), rng.randint(0, nseg - 1)) + [rng.choice([0, nseg + 1, nseg + 3, -1])]
            rng.shuffle(sel)
        else:
            sel = rng.sample(range(1, nseg + 1), rng.randint(1, nseg))
        mode = 'planes'
        if m['ty'] == 'LABELMAP':
            mode = rng.choice(['planes', 'combined', 'relabel'])
        if sel and rng.random() < (0.5 if mode == 'relabel' else 0.2):
            sel = sel + [rng.choice(sel)]            # duplicated request (first occurrence counts for relabel)
        via_volume = rng.random() < 0.4
        rg = _region(rng, R, C, th, tw, pbad=0.15)
        if via_volume and rng.random() < 0.12:
            rg[0] = False
            rg[rng.choice([2, 4])] = 0               # one-based end 0 through get_volume
        reads.append([mode, via_volume, sel, rg])
    c = {'kind': 'seg_reads', 'R': R, 'C': C, 'th': th, 'tw': tw, 'full': full, 'omit': omit,
         'src_tile': [rng.randint(1, 4), rng.randint(1, 4)], 'reads': reads}
    c.update(m)
    return c


def _gen_seg_mem(rng):
    """the seg stream with the input array in another memory layout / dtype"""
    R, C, th, tw = _sizes(rng)
    if rng.random() < 0.6:                       # interior tiles of at least 2 x 2 (a scrambled 1-wide tile is itself)
        th, tw = rng.randint(2, 4), rng.randint(2, 4)
        R, C = min(9, th * rng.randint(1, 3) + rng.randint(0, th - 1)), min(9, tw * rng.randint(1, 3) + rng.randint(0, tw - 1))
    full = rng.random() < 0.45
    omit = (not full) and rng.random() < 0.7
    m = _mask_case(rng, R, C, mem=False)
    if rng.random() < 0.5:
        m['L'] = [[rng.randint(0, m['nseg']) for _ in range(C)] for _ in range(R)]     # dense: no symmetric tiles
        if m['inp'] == 'stack':
            m['stack'] = [[[1 if m['L'][r][cc] == k else 0 for cc in range(C)] for r in range(R)]
                          for k in range(1, m['nseg'] + 1)]
    m['mem'] = _mem_spec(rng, m['inp'], m['nseg'], m['L'], force=True)
    c = {'kind': 'seg_mem', 'R': R, 'C': C, 'th': th, 'tw': tw, 'full': full, 'omit': omit,
         'src_tile': [rng.randint(1, 4), rng.randint(1, 4)], 'roundtrip': rng.random() < 0.15,
         'regions': [[False, None, None, None, None]] + [_region(rng, R, C, th, tw) for _ in range(4)]}
    c.update(m)
    return c


def _gen_seg_frames(rng):
    """the CALLER cuts the mask into the source image's tiles and passes the stack of frames
    (tile_pixel_array=False, positions taken from the source frames), in any memory layout"""
    R, C, th, tw = _sizes(rng)
    if rng.random() < 0.5:
        th, tw = rng.randint(2, 4), rng.randint(2, 4)
        R, C = min(9, th * rng.randint(1, 3) + rng.randint(0, th - 1)), min(9, tw * rng.randint(1, 3) + rng.randint(0, tw - 1))
    m = _mask_case(rng, R, C, mem=False)
    if rng.random() < 0.4:
        m['L'] = [[rng.randint(0, m['nseg']) for _ in range(C)] for _ in range(R)]
        if m['inp'] == 'stack':
            m['stack'] = [[[1 if m['L'][r][cc] == k else 0 for cc in range(C)] for r in range(R)]
                          for k in range(1, m['nseg'] + 1)]
    m['mem'] = _mem_spec(rng, m['inp'], m['nseg'], m['L'], force=rng.random() < 0.7)
    full = rng.random() < 0.4
    c = {'kind': 'seg_frames', 'R': R, 'C': C, 'th': th, 'tw': tw, 'full': full,
         'omit': (not full) and rng.random() < 0.7, 'src_full': rng.random() < 0.5,
         'org_given': full or rng.random() < 0.6, 'roundtrip': rng.random() < 0.15,
         'regions': [[False, None, None, None, None]] + [_region(rng, R, C, th, tw) for _ in range(4)]}
    c.update(m)
    return c


_READ_DTYPES = [None, None, None, 'uint8', 'uint16', 'int64', 'float32']


def _gen_seg_hist(rng):
    """a history of reads on ONE segmentation object"""
    R, C, th, tw = _sizes(rng)
    m = _mask_case(rng, R, C, ty=rng.choice(['BINARY', 'BINARY', 'BINARY', 'FRACTIONAL', 'LABELMAP']),
                   nseg=rng.choice([1, 2, 2, 3, 3]))
    if m['inp'] == 'label' and rng.random() < 0.5:
        m['L'] = [[rng.randint(0, m['nseg']) if rng.random() < 0.7 else 0 for _ in range(C)] for _ in range(R)]
    full = rng.random() < 0.45
    omit = (not full) and rng.random() < 0.7
    nseg = m['nseg']
    segs = list(range(1, nseg + 1))
    reads = []
    for _ in range(6):
        mode = rng.choice(['planes', 'combined', 'combined', 'relabel'])
        k = rng.random()
        if k < 0.05:
            sel = []
        elif k < 0.12:
            sel = rng.sample(segs, rng.randint(0, nseg - 1)) + [rng.choice([0, nseg + 1, nseg + 3])]
            rng.shuffle(sel)
        elif k < 0.5:
            sel = list(segs)
        else:
            sel = rng.sample(segs, rng.randint(1, nseg))
        if sel and (mode == 'planes' or m['ty'] == 'LABELMAP') and rng.random() < 0.15:
            sel = sel + [rng.choice(sel)]            # repeated request (not for BINARY / FRACTIONAL combine)
        opts = {'rescale': rng.random() < 0.5, 'skip': rng.random() < 0.25, 'dtype': rng.choice(_READ_DTYPES)}
        if m['ty'] == 'FRACTIONAL':
            opts['rescale'] = (mode != 'planes') and rng.random() < 0.85
        rg = _region(rng, R, C, th, tw, pbad=0.08)
        if rng.random() < 0.3:
            rg = [False, None, None, None, None]
        reads.append([mode, rng.random() < 0.25, sel, rg, opts])
    # the last read shows the whole matrix, plane by plane
    reads.append(['planes', False, list(segs), [False, None, None, None, None],
                  {'rescale': False, 'skip': False, 'dtype': None}])
    hist = {'src': rng.choice(['mem', 'mem', 'file', 'lazy']),
            'warm': rng.choice([None, 0, 0, 0, 1, 2, 3]),      # `.pixel_array` accessed before this read
            'scribble': rng.random() < 0.5}                     # the caller overwrites every returned array
    c = {'kind': 'seg_hist', 'R': R, 'C': C, 'th': th, 'tw': tw, 'full': full, 'omit': omit,
         'src_tile': [rng.randint(1, 4), rng.randint(1, 4)], 'reads': reads, 'hist': hist}
    c.update(m)
    return c


def _gen_img_hist(rng):
    R, C, th, tw = _sizes(rng)
    samples = 3 if rng.random() < 0.3 else 1
    if rng.random() < 0.12:
        th, tw = R + rng.randint(0, 1), C + rng.randint(0, 1)       # ONE stored frame (D108 with 3 samples)
    full = rng.random() < 0.5
    nt = (-(-R // th)) * (-(-C // tw))
    drop = []
    if not full and nt >= 2 and rng.random() < 0.2:
        drop = sorted(rng.sample(range(nt), rng.randint(1, max(1, nt // 3))))
    regions = [_region(rng, R, C, th, tw) for _ in range(6)] + [[False, None, None, None, None]]
    c = {'kind': 'img_hist', 'R': R, 'C': C, 'th': th, 'tw': tw, 'full': full, 'samples': samples,
            'arr': rng.random() < 0.5, 'px': _pixels(rng, R, C, samples), 'drop': drop, 'dup': None,
            'regions': regions,
            'hist': {'src': rng.choice(['mem', 'mem', 'file', 'lazy']), 'warm': rng.choice([None, 0, 0, 1, 3]),
                     'scribble': rng.random() < 0.6,
                     'dtypes': [rng.choice([None, 'uint8', 'int64', 'float32']) for _ in regions]}}
    return c



# ---- described segment NUMBERS (sparse, at the 8 / 16 bit storage boundaries) ------------------
_NUM_TOPS = [254, 255, 255, 256, 256, 256, 257, 258, 300, 511, 512, 513, 1000, 4000]
_NUM_TOPS_HI = [32767, 32768, 65534, 65535]       # (reads of such objects take the library 0.1 s each)


def _gen_seg_nums(rng):
    """one construction with caller-chosen segment numbers + a history of reads: LABELMAP with sparse
    numbers whose highest lies at / around a power of two, or BINARY / FRACTIONAL with 254..258 segments"""
    R, C, th, tw = _sizes(rng, hi=6, thi=3)
    k = rng.random()
    if k < 0.86:
        ty = 'LABELMAP'
        top = rng.choice(_NUM_TOPS)
        kk = rng.random()
        if kk < 0.1:
            top = rng.choice(_NUM_TOPS_HI)
        elif kk < 0.2:
            top = rng.randint(2, 2000)
        lower = set()
        for _ in range(rng.randint(0, 3)):
            lower.add(rng.choice([1, 2, 7, 200, 254, 255, 256, 257, top - 1, rng.randint(1, top)]))
        numbers = sorted(n for n in lower | {top} if 1 <= n <= top)
    else:
        ty = 'BINARY' if k < 0.97 else 'FRACTIONAL'
        numbers = list(range(1, rng.choice([255, 256, 256, 257]) + 1))
        R, C = min(R, 4), min(C, 4)
    top = numbers[-1]
    L = [[0] * C for _ in range(R)]
    pool = [top, top, numbers[0]] + rng.sample(numbers, min(3, len(numbers)))
    mode = rng.choice(['sparse', 'dense', 'corner'])
    for r in range(R):
        for cc in range(C):
            if mode == 'dense' or (mode == 'sparse' and rng.random() < 0.3):
                L[r][cc] = rng.choice(pool + [0])
    L[R - 1][C - 1] = top                          # the highest number certainly occurs (padded edge tile)
    if rng.random() < 0.5:
        L[0][0] = top
    full = rng.random() < 0.4
    omit = (not full) and rng.random() < 0.8
    few = len(numbers) <= 8
    reads = []
    for _ in range(4):
        mode = rng.choice(['planes', 'combined', 'combined', 'relabel'])
        kk = rng.random()
        if kk < 0.35:
            sel = list(numbers) if (few or mode != 'planes') else [1, top]
        elif kk < 0.45:
            sel = [top]
        elif kk < 0.52:
            sel = [rng.choice([0, top + 1, 65536 if top < 65535 else 0])] + [top]
        else:
            sel = rng.sample(numbers, rng.randint(1, min(4, len(numbers))))
            if rng.random() < 0.6 and top not in sel:
                sel.append(top)
            rng.shuffle(sel)
        hi = len(sel) if mode == 'relabel' else (max(sel) if mode == 'combined' else 1)
        dts = [None, None, None, 'uint16', 'int32', 'int64', 'float64', 'uint32'] + (['uint8'] if hi <= 255 else []) \
            + (['int16'] if hi <= 32767 else [])
        opts = {'rescale': ty == 'FRACTIONAL' and mode != 'planes', 'skip': rng.random() < 0.3, 'dtype': rng.choice(dts)}
        rg = _region(rng, R, C, th, tw, pbad=0.05)
        if rng.random() < 0.35:
            rg = [False, None, None, None, None]
        reads.append([mode, rng.random() < 0.2, sel, rg, opts])
    reads.append(['planes', False, list(numbers) if few else sorted({1, numbers[len(numbers) // 2], top}),
                  [False, None, None, None, None], {'rescale': False, 'skip': False, 'dtype': None}])
    hist = {'src': rng.choice(['mem', 'mem', 'file']), 'warm': rng.choice([None, None, 0, 2]),
            'scribble': rng.random() < 0.3}
    return {'kind': 'seg_nums', 'R': R, 'C': C, 'th': th, 'tw': tw, 'ty': ty, 'nseg': len(numbers),
            'numbers': numbers, 'inp': 'label', 'L': L, 'stack': None, 'sel': [top], 'mem': None,
            'full': full, 'omit': omit, 'src_tile': [rng.randint(1, 4), rng.randint(1, 4)],
            'reads': reads, 'hist': hist}


# ---- FLOATING POINT (probability) masks stored as FRACTIONAL ------------------------------------
_MAXFRACS = [1, 2, 3, 15, 100, 200, 254, 255, 255, 255]


def _gen_seg_frac(rng):
    """probabilities p = (level + d / 4) / max_fractional_value, d in {-1, 0, 1}: quantise to `level`
    far from any rounding tie.  Every tile of every segment is empty, FAINT (all levels <= half of
    max_fractional_value, possibly only level 1) or confident; passed as a whole matrix or as frames
    cut by the caller on the source grid."""
    R, C, th, tw = _sizes(rng)
    if rng.random() < 0.6:
        th, tw = rng.randint(1, 3), rng.randint(1, 3)
        R, C = min(9, th * rng.randint(2, 3) + rng.randint(0, th - 1)), min(9, tw * rng.randint(2, 3) + rng.randint(0, tw - 1))
    nseg = rng.randint(1, 3)
    mf = rng.choice(_MAXFRACS)
    lev = [[[0] * C for _ in range(R)] for _ in range(nseg)]
    jit = [[[0] * C for _ in range(R)] for _ in range(nseg)]
    binary = rng.random() < 0.15                     # only 0.0 / 1.0: combined reads possible
    for a in range(0, R, th):
        for b in range(0, C, tw):
            for s_ in range(nseg):
                kind = rng.choice(['empty', 'empty', 'faint', 'faint', 'one', 'conf'])
                cells = [(r, cc) for r in range(a, min(R, a + th)) for cc in range(b, min(C, b + tw))]
                if binary:
                    for (r, cc) in cells:
                        lev[s_][r][cc] = mf if (kind != 'empty' and rng.random() < 0.5) else 0
                    continue
                if kind == 'faint':
                    for (r, cc) in cells:
                        if rng.random() < 0.6:
                            lev[s_][r][cc] = rng.randint(1, max(1, mf // 2))
                elif kind == 'one':                  # a single pixel at the lowest non-zero level
                    r, cc = rng.choice(cells)
                    lev[s_][r][cc] = 1
                elif kind == 'conf':
                    for (r, cc) in cells:
                        lev[s_][r][cc] = rng.choice([0, mf, rng.randint(0, mf)])
                for (r, cc) in cells:
                    q = lev[s_][r][cc]
                    jit[s_][r][cc] = rng.choice([0, 0, 1, -1]) if 0 < q < mf else (rng.choice([0, 1]) if q == 0 else rng.choice([0, -1]))
    if rng.random() < 0.06:
        lev = [[[0] * C for _ in range(R)] for _ in range(nseg)]       # wholly empty: omission is cancelled
        jit = [[[max(0, v) for v in row] for row in pl] for pl in jit]  # (values that round to level 0 stay)
    bad = None
    k = rng.random()
    if k < 0.04:
        bad = 'gt1'
    elif k < 0.08:
        bad = 'neg'
    elif k < 0.11:
        bad, mf = 'mf', rng.choice([256, 300])
        lev = [[[min(v, 255) for v in row] for row in pl] for pl in lev]
        jit = [[[0] * C for _ in range(R)] for _ in range(nseg)]
    entry = 'tile' if rng.random() < 0.7 else 'frames'
    full = rng.random() < 0.35
    omit = (False if full else rng.choice([True, True, None, None, False]))
    if full and rng.random() < 0.15:
        omit = True                                   # TILED_FULL + omission: refused unless empty
    segs = list(range(1, nseg + 1))
    reads = []
    for _ in range(5):
        kk = rng.random()
        mode = 'planes' if kk < 0.7 else rng.choice(['combined', 'relabel'])
        sel = list(segs) if rng.random() < 0.5 else rng.sample(segs, rng.randint(1, nseg))
        if rng.random() < 0.06:
            sel = sel + [nseg + 1]
        opts = {'rescale': rng.random() < 0.5 if mode == 'planes' else rng.random() < 0.9,
                'skip': True if nseg > 1 else rng.random() < 0.5, 'dtype': None}
        rg = _region(rng, R, C, th, tw, pbad=0.05)
        if rng.random() < 0.3:
            rg = [False, None, None, None, None]
        reads.append([mode, rng.random() < 0.2, sel, rg, opts])
    reads.append(['planes', False, list(segs), [False, None, None, None, None],
                  {'rescale': False, 'skip': True, 'dtype': None}])
    return {'kind': 'seg_frac', 'R': R, 'C': C, 'th': th, 'tw': tw, 'nseg': nseg, 'mf': mf, 'lev': lev, 'jit': jit,
            'fdt': rng.choice(['float32', 'float64']), 'bad': bad, 'entry': entry, 'full': full, 'omit': omit,
            'inp3d': nseg == 1 and rng.random() < 0.5, 'src_tile': [rng.randint(1, 4), rng.randint(1, 4)],
            'src_full': rng.random() < 0.5, 'src': rng.choice(['mem', 'mem', 'file']), 'reads': reads}


# ---- frames at CALLER-CHOSEN positions (explicit positions off the tile grid) -------------------
def _free_positions(rng, th, tw):
    """distinct 1-based (row, column) frame origins: arbitrary, a shifted grid, a subset of the
    regular grid, or a run of overlapping frames"""
    mode = rng.choice(['free', 'free', 'shifted', 'subset', 'overlap'])
    pos = set()
    if mode == 'free':
        for _ in range(rng.randint(1, 6)):
            pos.add((rng.randint(1, 9), rng.randint(1, 9)))
    elif mode == 'shifted':
        dr, dc = rng.randint(0, th), rng.randint(0, tw)
        if (dr % th, dc % tw) == (0, 0):
            dr += 1
        for a in range(rng.randint(1, 3)):
            for b in range(rng.randint(1, 3)):
                if rng.random() < 0.8:
                    pos.add((1 + dr + a * th, 1 + dc + b * tw))
        pos.add((1 + dr, 1 + dc))
    elif mode == 'subset':
        for a in range(3):
            for b in range(3):
                if rng.random() < 0.4:
                    pos.add((1 + a * th, 1 + b * tw))
        if not pos:
            pos.add((1 + th, 1))
    else:
        r, cc = rng.randint(1, 3), rng.randint(1, 3)
        for _ in range(rng.randint(2, 4)):
            pos.add((r, cc))
            r, cc = r + rng.randint(0, th), cc + rng.randint(0 if th > 1 else 1, tw)
    pos = sorted(pos)
    if rng.random() < 0.82:                        # a frame at the bottom-right corner of the bounding box
        pos = sorted(set(pos) | {(max(p[0] for p in pos), max(p[1] for p in pos))})
    rng.shuffle(pos)
    return [list(p) for p in pos]


def _free_axis(rng, n, origins, t, as_idx):
    """(start, end) biased to starts strictly INSIDE a frame (origin + 1 .. origin + t - 1)"""
    a, b = _axis_args(rng, n, t, as_idx)
    if rng.random() < 0.6:
        inside = sorted({p + k for p in origins for k in range(1, t)} & set(range(1, n + 1))) or [1]
        s = rng.choice(inside)
        e = rng.choice([n + 1, n + 1, min(n + 1, s + rng.randint(1, t + 1))])
        a = s - 1 if as_idx else (s if rng.random() < 0.7 else s - n - 1)
        b = None if (e == n + 1 and rng.random() < 0.5) else (e - 1 if as_idx else e)
    return a, b


def _free_region(rng, R, C, pos, th, tw):
    ai = rng.random() < 0.4
    rs, re = _free_axis(rng, R, [p[0] for p in pos], th, ai)
    cs, ce = _free_axis(rng, C, [p[1] for p in pos], tw, ai)
    if rng.random() < 0.08:
        rs, re = _axis_args(rng, R, th, ai, bad=True)
    return [ai, rs, re, cs, ce]


def _footprints_overlap(pos, th, tw):
    return any(abs(p[0] - q[0]) < th and abs(p[1] - q[1]) < tw for i, p in enumerate(pos) for q in pos[:i])


def _gen_seg_free(rng):
    th, tw = rng.choice([1, 2, 2, 3, 3, 4]), rng.choice([1, 2, 2, 3, 3, 4])
    pos = _free_positions(rng, th, tw)
    R, C = max(p[0] for p in pos) + th - 1, max(p[1] for p in pos) + tw - 1      # bounding box of the frames
    ty = rng.choice(['BINARY', 'BINARY', 'LABELMAP', 'LABELMAP', 'FRACTIONAL'])
    nseg = rng.randint(1, 3)
    L = [[rng.randint(0, nseg) if rng.random() < 0.75 else 0 for _ in range(C)] for _ in range(R)]
    if rng.random() < 0.3:                          # some frames entirely empty
        r, cc = rng.choice(pos)
        for a in range(r - 1, r - 1 + th):
            for b in range(cc - 1, cc - 1 + tw):
                L[a][b] = 0
    segs = list(range(1, nseg + 1))
    overlap = _footprints_overlap(pos, th, tw)
    reads = []
    for _ in range(6):
        mode = rng.choice(['planes', 'combined', 'combined', 'relabel'])
        sel = list(segs) if rng.random() < 0.5 else rng.sample(segs, rng.randint(1, nseg))
        opts = {'rescale': rng.random() < 0.5, 'dtype': rng.choice([None, None, 'int64']),
                # frames of ONE segment that overlap each other are reported as overlapping segments
                'skip': True if (overlap and ty != 'LABELMAP') else rng.random() < 0.25}
        if ty == 'FRACTIONAL':
            opts['rescale'] = (mode != 'planes') and rng.random() < 0.9
        rg = _free_region(rng, R, C, pos, th, tw)
        reads.append([mode, rng.random() < 0.25, sel, rg, opts])
    reads.append(['planes', False, list(segs), [False, None, None, None, None],
                  {'rescale': False, 'skip': True, 'dtype': None}])
    return {'kind': 'seg_free', 'R': R, 'C': C, 'th': th, 'tw': tw, 'pos': pos, 'ty': ty, 'nseg': nseg,
            'mf': rng.choice([255, 255, 100, 1]) if ty == 'FRACTIONAL' else 255,
            'inp': 'label' if (ty == 'LABELMAP' or rng.random() < 0.7) else 'stack', 'L': L,
            'omit': rng.choice([True, True, None, False]), 'org_given': rng.random() < 0.5,
            'src': [rng.randint(4, 12), rng.randint(4, 12), rng.randint(1, 5), rng.randint(1, 5)],
            'obj': rng.choice(['mem', 'mem', 'file']), 'reads': reads}


def _gen_img_free(rng):
    """a slide image whose frames COVER the matrix from explicit positions off the regular grid
    (overlapping neighbours; the last frame may reach beyond the matrix), stored in any order"""
    R, C, th, tw = _sizes(rng)
    th, tw = max(2, th), max(2, tw)
    R, C = max(R, th + 1), max(C, tw + 1)

    def origins(n, t):
        cnt = -(-n // t)                            # as many frames as the regular grid has: whole reads pass
        slack = cnt * t - n
        if rng.random() < 0.2:
            cnt, slack = cnt + 1, slack + t         # one more: the frame-count test of the reader differs
        steps = [t] * (cnt - 1)
        for _ in range(rng.randint(0, slack)):
            i = rng.randrange(len(steps))
            if steps[i] > 1:
                steps[i] -= 1
        o = [1]
        for st in steps:
            o.append(o[-1] + st)
        return [x for x in o if x <= n]             # every frame starts inside the matrix
    rows, cols = origins(R, th), origins(C, tw)
    pos = [[r, cc] for r in rows for cc in cols]
    rng.shuffle(pos)
    regions = [[False, None, None, None, None]] + [_free_region(rng, R, C, pos, th, tw) for _ in range(6)]
    return {'kind': 'img_free', 'R': R, 'C': C, 'th': th, 'tw': tw, 'full': False, 'samples': 1,
            'arr': rng.random() < 0.5, 'px': _pixels(rng, R, C, 1), 'drop': [], 'dup': None, 'pos': pos,
            'vol': rng.random() < 0.25, 'regions': regions}


def _std_values(n):
    return [None] + list(range(-n - 2, n + 4))


def _np1d_lists(n):
    vals = [None] + list(range(-n - 2, n + 4))
    return vals, vals


def gen_cases(rng, tier):
    cases = []
    nrand = {'quick': 1, 'thorough': 12, 'search': 5}[tier]
    # ---- the standardiser alone ------------------------------------------------
    top = {'quick': 4, 'thorough': 7, 'search': 5}[tier]
    for n in range(1, top + 1):
        for ai in (False, True):
            for a in _std_values(n):
                for b in _std_values(n):
                    m = rng.randint(1, 7)
                    o = _region(rng, m, m, 2, 2, pbad=0.0)
                    oi = rng.random() < 0.3
                    if rng.random() < 0.5:
                        c = {'R': n, 'C': m, 'rg': [ai, a, b, o[3] if o[0] == ai else None, o[4] if o[0] == ai else None]}
                    else:
                        c = {'R': m, 'C': n, 'rg': [ai, o[1] if o[0] == ai else None, o[2] if o[0] == ai else None, a, b]}
                    c['oi'] = oi
                    c['kind'] = 'std' if ref_region(c['R'], c['C'], c['rg']) is not None else 'std_bad'
                    cases.append(c)
    for _ in range(200 * nrand):
        R, C = rng.randint(1, 40), rng.randint(1, 40)
        rg = _region(rng, R, C, rng.randint(1, 8), rng.randint(1, 8), pbad=0.3)
        c = {'R': R, 'C': C, 'rg': rg, 'oi': rng.random() < 0.3}
        c['kind'] = 'std' if ref_region(R, C, rg) is not None else 'std_bad'
        cases.append(c)
    # ---- Image.get_total_pixel_matrix ----------------------------------------------
    for _ in range(220 * nrand):
        R, C, th, tw = _sizes(rng)
        samples = 3 if rng.random() < 0.25 else 1
        full = rng.random() < 0.5
        c = {'kind': 'img', 'R': R, 'C': C, 'th': th, 'tw': tw, 'full': full, 'samples': samples,
             'arr': rng.random() < 0.5,            # model side: array-update loop instead of the cell-wise one
             'px': _pixels(rng, R, C, samples), 'drop': [], 'dup': None,
             'regions': [[False, None, None, None, None]] + [_region(rng, R, C, th, tw) for _ in range(7)]}
        cases.append(c)
    for _ in range(70 * nrand):
        R, C, th, tw = _sizes(rng)
        nt = (-(-R // th)) * (-(-C // tw))
        if nt < 2:
            R, C, th, tw = 5, 6, 2, 3
            nt = 6
        drop = sorted(rng.sample(range(nt), rng.randint(1, max(1, nt // 2))))
        c = {'kind': 'img_missing', 'R': R, 'C': C, 'th': th, 'tw': tw, 'full': False, 'samples': 1,
             'arr': rng.random() < 0.5,
             'px': _pixels(rng, R, C, 1), 'drop': drop, 'dup': None,
             'regions': [[False, None, None, None, None]] + [_region(rng, R, C, th, tw, pbad=0.08) for _ in range(9)]}
        cases.append(c)
    for _ in range(12 * nrand):
        R, C, th, tw = _sizes(rng)
        nt = (-(-R // th)) * (-(-C // tw))
        if nt < 2:
            R, C, th, tw = 4, 4, 2, 2
            nt = 4
        i, j = rng.sample(range(nt), 2)
        c = {'kind': 'img_dup', 'R': R, 'C': C, 'th': th, 'tw': tw, 'full': False, 'samples': 1,
             'px': _pixels(rng, R, C, 1), 'drop': [], 'dup': [i, j],
             'regions': [_region(rng, R, C, th, tw) for _ in range(3)]}
        cases.append(c)
    # ---- Image.get_volume on tiled images (region path) --------------------------------
    for _ in range(70 * nrand):
        R, C, th, tw = _sizes(rng)
        samples = 3 if rng.random() < 0.2 else 1
        full = rng.random() < 0.5
        nt = (-(-R // th)) * (-(-C // tw))
        drop = []
        if not full and nt >= 2 and rng.random() < 0.3:
            drop = sorted(rng.sample(range(nt), rng.randint(1, max(1, nt // 3))))
        regions = [[False, None, None, None, None]] + [_region(rng, R, C, th, tw) for _ in range(6)]
        # the one-based end 0 (denotes no region) on either axis
        # the one-based end 0 (denotes no region; D100) on either axis
        rg0 = _region(rng, R, C, th, tw, pbad=0.0)
        rg0[0] = False
        rg0[rng.choice([2, 4])] = 0
        regions.append(rg0)
        cases.append({'kind': 'img_vol', 'R': R, 'C': C, 'th': th, 'tw': tw, 'full': full, 'samples': samples,
                      'px': _pixels(rng, R, C, samples), 'drop': drop, 'dup': None, 'regions': regions})
    # ---- Segmentation reads: segment_numbers, output modes, get_volume ---------------------
    for _ in range(90 * nrand):
        cases.append(_gen_seg_reads(rng))
    # ---- Segmentation(tile_pixel_array=True) + get_total_pixel_matrix ---------------
    for _ in range(230 * nrand):
        R, C, th, tw = _sizes(rng)
        ty = rng.choice(['BINARY', 'BINARY', 'FRACTIONAL', 'LABELMAP'])
        nseg = rng.randint(1, 3)
        full = rng.random() < 0.45
        omit = (not full) and rng.random() < 0.7
        inp = 'label'
        L = _labelmap(rng, R, C, nseg)
        stack = None
        if ty != 'LABELMAP' and rng.random() < 0.3:
            inp = 'stack'
            stack = [[[1 if (L[r][c] == k or (L[r][c] and rng.random() < 0.2)) else 0 for c in range(C)]
                      for r in range(R)] for k in range(1, nseg + 1)]
        sel = rng.sample(range(1, nseg + 1), rng.randint(1, nseg))
        if rng.random() < 0.5:
            sel = list(range(1, nseg + 1))
        c = {'kind': 'seg', 'R': R, 'C': C, 'th': th, 'tw': tw, 'ty': ty, 'nseg': nseg, 'full': full,
             'omit': omit, 'inp': inp, 'L': L, 'stack': stack, 'sel': sel,
             'src_tile': [rng.randint(1, 4), rng.randint(1, 4)],
             'roundtrip': rng.random() < 0.15,     # save_as + segread before reading regions
             'regions': [[False, None, None, None, None]] + [_region(rng, R, C, th, tw) for _ in range(6)]}
        cases.append(c)
    for _ in range(20 * nrand):
        R, C, th, tw = _sizes(rng)
        ty = rng.choice(['BINARY', 'FRACTIONAL', 'LABELMAP'])
        nseg = rng.randint(1, 2)
        L = _labelmap(rng, R, C, nseg)
        if rng.random() < 0.4:
            L = [[0] * C for _ in range(R)]      # wholly empty mask: omission is cancelled, accepted
        c = {'kind': 'seg_full_omit', 'R': R, 'C': C, 'th': th, 'tw': tw, 'ty': ty, 'nseg': nseg, 'full': True,
             'omit': True, 'inp': 'label', 'L': L, 'stack': None, 'sel': list(range(1, nseg + 1)),
             'src_tile': [2, 2], 'regions': [[False, None, None, None, None], _region(rng, R, C, th, tw)]}
        cases.append(c)
    # ---- memory layout of the input array; histories of reads ------------------------------
    for _ in range(70 * nrand):
        cases.append(_gen_seg_mem(rng))
    for _ in range(40 * nrand):
        cases.append(_gen_seg_frames(rng))
    for _ in range(70 * nrand):
        cases.append(_gen_seg_hist(rng))
    for _ in range(40 * nrand):
        cases.append(_gen_img_hist(rng))
    # ---- own geometry relative to the source image / pyramids -----------------------------
    for _ in range(150 * nrand):
        cases.append(_gen_geom(rng))
    for _ in range(30 * nrand):
        cases.append(_gen_geom(rng, force_bad=True))
    for _ in range(40 * nrand):
        cases.append(_gen_pyramid(rng))
    # ---- model vs numpy, exhaustive per axis ---------------------------------------------
    top_n, top_t = {'quick': (5, 3), 'thorough': (7, 4), 'search': (6, 4)}[tier]
    for n in range(1, top_n + 1):
        for t in range(1, top_t + 1):
            for axis in ('row', 'col'):
                for ai in (False, True):
                    cases.append({'kind': 'np1d', 'n': n, 't': t, 'axis': axis, 'ai': ai,
                                  'm': rng.randint(1, 3), 'u': rng.randint(1, 2)})
    # ---- (appended last: the streams of the kinds above stay what they were) --------------------
    # float probability masks / max_fractional_value; described segment numbers at the storage
    # boundaries; frames and image tiles at explicit positions off the regular grid
    for _ in range(60 * nrand):
        cases.append(_gen_seg_frac(rng))
    for _ in range(36 * nrand):
        cases.append(_gen_seg_nums(rng))
    for _ in range(60 * nrand):
        cases.append(_gen_seg_free(rng))
    for _ in range(40 * nrand):
        cases.append(_gen_img_free(rng))
    return cases


# --------------------------------------------------------------------------
# implementation side
# --------------------------------------------------------------------------
def _quiet():
    import logging
    import warnings
    warnings.filterwarnings('ignore')
    logging.disable(logging.CRITICAL)


def _img_dataset(c):
    import numpy as np
    import synth
    R, C, th, tw, samples = c['R'], c['C'], c['th'], c['tw'], c['samples']
    px = np.array(c['px'], np.uint8).reshape(R, C, samples)
    ds = synth.sm_tiled(R, C, th, tw, tiled_full=c['full'], samples=samples, pixels=px)
    if c['drop'] or c['dup']:
        n = int(ds.NumberOfFrames)
        fl = th * tw * samples
        data = bytes(ds.PixelData)
        frames = [data[k * fl:(k + 1) * fl] for k in range(n)]
        items = list(ds.PerFrameFunctionalGroupsSequence)
        if c['dup']:
            i, j = c['dup']
            src = items[i].PlanePositionSlideSequence[0]
            dst = items[j].PlanePositionSlideSequence[0]
            dst.RowPositionInTotalImagePixelMatrix = src.RowPositionInTotalImagePixelMatrix
            dst.ColumnPositionInTotalImagePixelMatrix = src.ColumnPositionInTotalImagePixelMatrix
            items[j].FrameContentSequence[0].DimensionIndexValues = \
                items[i].FrameContentSequence[0].DimensionIndexValues
        keep = [k for k in range(n) if k not in c['drop']]
        ds.PerFrameFunctionalGroupsSequence = [items[k] for k in keep]
        ds.NumberOfFrames = len(keep)
        pd = b''.join(frames[k] for k in keep)
        ds.PixelData = pd + (b'\0' if len(pd) % 2 else b'')
    return ds


def _kw(rg):
    ai, rs, re, cs, ce = rg
    return dict(row_start=rs, row_end=re, column_start=cs, column_end=ce, as_indices=ai)


def _np1d_matrix(c):
    n, m = c['n'], c['m']
    R, C = (n, m) if c['axis'] == 'row' else (m, n)
    th, tw = (c['t'], c['u']) if c['axis'] == 'row' else (c['u'], c['t'])
    M = [[1 + r * C + cc for cc in range(C)] for r in range(R)]
    return R, C, th, tw, M


def _numbers(m):
    """the described segment numbers: 1..nseg unless the case names them (kind seg_nums)"""
    return list(m.get('numbers') or range(1, m['nseg'] + 1))


def _mask_array(m, R, C):
    import numpy as np
    if m['inp'] == 'label':
        big = max(max(r) for r in m['L']) > 255
        a = np.array(m['L'], np.uint16 if big else np.uint8).reshape(1, R, C)
    else:
        a = np.stack([np.array(p, np.uint8).reshape(R, C) for p in m['stack']], axis=-1)[None]
    return _relayout(a, m.get('mem'))


def _observe_seg(seg, c, regions, roundtrip=False, geom=False):
    import numpy as np
    if roundtrip:
        import highdicom as hd
        import synth
        seg = synth.write_read(seg, hd.seg.segread)
    outs = [int(seg.NumberOfFrames)]
    if geom:
        outs += [int(seg.Rows), int(seg.Columns), int(seg.TotalPixelMatrixRows), int(seg.TotalPixelMatrixColumns)]
    for rg in regions:
        def f():
            if c['ty'] == 'LABELMAP':
                return seg.get_total_pixel_matrix(segment_numbers=c['sel'], combine_segments=True,
                                                  **_kw(rg)).astype(np.int64).tolist()
            a = seg.get_total_pixel_matrix(segment_numbers=c['sel'], combine_segments=False,
                                           rescale_fractional=False, **_kw(rg))
            return a.astype(np.int64).transpose(2, 0, 1).tolist()
        outs.append(catch(f))
    return outs


def _run_geom(c):
    import numpy as np
    import highdicom as hd
    import synth
    SR, SC, sth, stw = c['src']
    src = synth.sm_tiled(SR, SC, sth, stw, origin=c['src_origin'], spacing=c['src_spacing'],
                         orientation=c['src_ori'])
    arr = _mask_array(c, c['R'], c['C'])
    before = arr.copy()
    kw = {}
    if c['spacing'] is not None:
        kw['pixel_measures'] = hd.PixelMeasuresSequence(pixel_spacing=tuple(c['spacing']), slice_thickness=1.0)
    if c['ori'] is not None:
        kw['plane_orientation'] = hd.PlaneOrientationSequence('SLIDE', tuple(c['ori']))
    if c['pp'] is not None:
        rp, cp = c['pp']['rc']
        kw['plane_positions'] = [hd.PlanePositionSequence('SLIDE', image_position=tuple(c['pp']['xyz']),
                                                          pixel_matrix_position=(cp, rp))
                                 for _ in range(c['pp']['n'])]

    def build():
        return synth.make_seg([src], arr, c['ty'], list(range(1, c['nseg'] + 1)), tile_pixel_array=True,
                              tile_size=tuple(c['tile']) if c['tile'] is not None else None,
                              dimension_organization_type='TILED_FULL' if c['full'] else 'TILED_SPARSE',
                              omit_empty_frames=c['omit'], **kw)
    seg = catch(build)
    if isinstance(seg, Err):
        return seg
    assert np.array_equal(arr, before)
    _clobber(arr, c.get('mem'))
    return _observe_seg(seg, c, c['regions'], c.get('roundtrip'), geom=True)


def _run_pyramid(c):
    import highdicom as hd
    import synth
    SR, SC, sth, stw = c['src']
    mode = c['mode']
    if mode == 'sources':
        series, pyr = hd.UID(), hd.UID()
        sources = []
        for (r, cc), (a, b) in zip(c['shapes'], c['src_tiles']):
            ds = synth.sm_tiled(r, cc, a, b, spacing=(0.5 * SR / r, 0.5 * SC / cc))
            ds.SeriesInstanceUID = series
            ds.PyramidUID = pyr
            sources.append(ds)
    else:
        sources = [synth.sm_tiled(SR, SC, sth, stw)]
    arrays = [_mask_array(dict(c, **lv), lv['R'], lv['C']) for lv in c['levels']]
    kw = {}
    if c['tile'] is not None:
        kw['tile_size'] = tuple(c['tile'])
    if mode == 'factors':
        kw['downsample_factors'] = list(c['factors'])

    def build():
        return hd.seg.create_segmentation_pyramid(
            source_images=sources, pixel_arrays=arrays, segmentation_type=c['ty'],
            segment_descriptions=[synth.seg_description(n) for n in range(1, c['nseg'] + 1)],
            series_instance_uid=hd.UID(), series_number=1, manufacturer='m', manufacturer_model_name='mm',
            software_versions='1', device_serial_number='sn',
            dimension_organization_type='TILED_FULL' if c['full'] else 'TILED_SPARSE',
            omit_empty_frames=c['omit'], **kw)
    segs = catch(build)
    if isinstance(segs, Err):
        return segs
    if mode == 'factors':
        # level 0 in full; of the library-resampled levels only sizes and the whole matrix
        outs = [_observe_seg(segs[0], c, c['regions'][0], geom=True)]
        for sg in segs[1:]:
            outs.append(_observe_seg(sg, c, [[False, None, None, None, None]], geom=True))
        return outs
    return [_observe_seg(sg, c, rgs, geom=True) for sg, rgs in zip(segs, c['regions'])]


def _run_seg_reads(c):
    import numpy as np
    import synth
    R, C = c['R'], c['C']
    src = synth.sm_tiled(R, C, c['src_tile'][0], c['src_tile'][1])
    arr = _mask_array(c, R, C)

    def build():
        return synth.make_seg([src], arr, c['ty'], list(range(1, c['nseg'] + 1)),
                              tile_pixel_array=True, tile_size=(c['th'], c['tw']),
                              dimension_organization_type='TILED_FULL' if c['full'] else 'TILED_SPARSE',
                              omit_empty_frames=c['omit'])
    seg = catch(build)
    if isinstance(seg, Err):
        return seg
    outs = [int(seg.NumberOfFrames)]
    for mode, via_volume, sel, rg in c['reads']:
        def f():
            kw = dict(segment_numbers=list(sel), combine_segments=mode != 'planes', relabel=mode == 'relabel',
                      rescale_fractional=False, **_kw(rg))
            if via_volume:
                a = seg.get_volume(**kw).array
                assert a.shape[0] == 1
                a = a[0]
            else:
                a = seg.get_total_pixel_matrix(**kw)
            a = a.astype(np.int64)
            return a.tolist() if mode != 'planes' else a.transpose(2, 0, 1).tolist()
        outs.append(catch(f))
    return outs


def _as_ints(a):
    """integer view of a returned array (float outputs must hold integers exactly)"""
    import numpy as np
    if a.dtype.kind == 'f':
        if not np.all(a == np.round(a)):
            return a.astype(np.float64)
    return a.astype(np.int64)


def _reopen(obj, src, reader):
    """the object as the caller holds it: as constructed, written and re-read, or re-read lazily"""
    import synth
    if src == 'file':
        return synth.write_read(obj, reader)
    if src == 'lazy':
        return synth.write_read(obj, reader, as_file=True, lazy_frame_retrieval=True)
    return obj


class _History:
    """bookkeeping of one history of reads: cache warming, overwritten results, final state"""

    def __init__(self, obj, hist):
        self.obj, self.hist, self.snap, self.broken = obj, hist, None, False
        try:
            self.pd0 = bytes(obj.PixelData)
        except Exception:      # noqa  (lazy retrieval: pixel data stay in the file)
            self.pd0 = None

    def before(self, i):
        if self.hist.get('warm') == i:
            try:
                self.snap = self.obj.pixel_array.copy()
            except Exception:      # noqa  (stored frames that cannot be decoded as a whole: reported by unchanged())
                self.broken = True

    def after(self, a):
        if self.hist.get('scribble') and a.flags.writeable:
            a[...] = 1 if a.dtype.kind == 'b' else 201

    def unchanged(self):
        import numpy as np
        if self.broken:
            return False
        ok = self.snap is None or np.array_equal(self.obj.pixel_array, self.snap)
        if self.pd0 is not None:
            ok = ok and bytes(self.obj.PixelData) == self.pd0
        return bool(ok)


def _run_seg_hist(c):
    import numpy as np
    import highdicom as hd
    import synth
    R, C = c['R'], c['C']
    src = synth.sm_tiled(R, C, c['src_tile'][0], c['src_tile'][1])
    arr = _mask_array(c, R, C)
    before = arr.copy()

    def build():
        return synth.make_seg([src], arr, c['ty'], _numbers(c),
                              tile_pixel_array=True, tile_size=(c['th'], c['tw']),
                              dimension_organization_type='TILED_FULL' if c['full'] else 'TILED_SPARSE',
                              omit_empty_frames=c['omit'])
    seg = catch(build)
    if isinstance(seg, Err):
        return seg
    assert np.array_equal(arr, before)
    _clobber(arr, c.get('mem'))
    seg = _reopen(seg, c['hist']['src'], hd.seg.segread)
    h = _History(seg, c['hist'])
    outs = [int(seg.NumberOfFrames)]
    for i, (mode, via_volume, sel, rg, opts) in enumerate(c['reads']):
        h.before(i)

        def f():
            kw = dict(segment_numbers=list(sel), combine_segments=mode != 'planes', relabel=mode == 'relabel',
                      rescale_fractional=opts['rescale'], skip_overlap_checks=opts['skip'], **_kw(rg))
            if opts['dtype'] is not None:
                kw['dtype'] = np.dtype(opts['dtype'])
            if via_volume:
                a = seg.get_volume(**kw).array
                assert a.shape[0] == 1
                a = a[0]
            else:
                a = seg.get_total_pixel_matrix(**kw)
            if opts['dtype'] is not None:
                assert a.dtype == np.dtype(opts['dtype']), (a.dtype, opts['dtype'])
            b = _as_ints(a)
            b = b.tolist() if mode != 'planes' else b.transpose(2, 0, 1).tolist()
            h.after(a)
            return b
        outs.append(catch(f))
    outs.append(h.unchanged())
    return outs


def _run_seg_frames(c):
    import numpy as np
    import synth
    R, C, th, tw = c['R'], c['C'], c['th'], c['tw']
    src = synth.sm_tiled(R, C, th, tw, tiled_full=c['src_full'])
    whole = _mask_array(dict(c, mem=None), R, C)[0]                  # R x C or R x C x S
    nr, nc = -(-R // th), -(-C // tw)
    pad = np.zeros((nr * th, nc * tw) + whole.shape[2:], np.uint8)
    pad[:R, :C] = whole
    frames = np.stack([pad[a * th:(a + 1) * th, b * tw:(b + 1) * tw] for a in range(nr) for b in range(nc)])
    arr = _relayout(frames, c.get('mem'))
    before = arr.copy()
    kw = {}
    if c['org_given']:
        kw['dimension_organization_type'] = 'TILED_FULL' if c['full'] else 'TILED_SPARSE'

    def build():
        return synth.make_seg([src], arr, c['ty'], list(range(1, c['nseg'] + 1)), omit_empty_frames=c['omit'], **kw)
    seg = catch(build)
    if isinstance(seg, Err):
        return seg
    assert np.array_equal(arr, before)
    _clobber(arr, c.get('mem'))
    return _observe_seg(seg, c, c['regions'], c.get('roundtrip'))


def _run_img_hist(c):
    import numpy as np
    import highdicom as hd
    im = hd.Image.from_dataset(_img_dataset(c), copy=False)
    im = _reopen(im, c['hist']['src'], hd.imread)
    h = _History(im, c['hist'])
    outs = []
    for i, (rg, dt) in enumerate(zip(c['regions'], c['hist']['dtypes'])):
        h.before(i)

        def f():
            kw = {} if dt is None else {'dtype': np.dtype(dt)}
            a = im.get_total_pixel_matrix(apply_icc_profile=False, **kw, **_kw(rg))
            if dt is not None:
                assert a.dtype == np.dtype(dt), (a.dtype, dt)
            b = _as_ints(a)
            if b.ndim == 2:
                b = b[:, :, None]
            b = b.transpose(2, 0, 1).tolist()
            h.after(a)
            return b
        outs.append(catch(f))
    outs.append(h.unchanged())
    return outs


def _frac_array(c):
    """the float array passed: (1, R, C, S) or (1, R, C); values (level + d / 4) / max_fractional_value"""
    import numpy as np
    lev = np.array(c['lev'], np.float64)
    jit = np.array(c['jit'], np.float64)
    a = (lev + 0.25 * jit) / float(min(c['mf'], 255))
    if c['bad'] == 'gt1':
        a[0, -1, -1] = 1.0 + 1.0 / 64
    elif c['bad'] == 'neg':
        a[-1, 0, 0] = -1.0 / 64
    a = a.astype(c['fdt'])
    a = np.moveaxis(a, 0, -1)[None]                # 1 x R x C x S
    if c['inp3d']:
        a = a[..., 0]
    return np.ascontiguousarray(a)


def _levels_of(a, mf):
    """levels a rescaled read denotes (value * MaximumFractionalValue must be integral)"""
    import numpy as np
    b = a.astype(np.float64) * mf
    r = np.rint(b)
    return r.astype(np.int64) if np.all(np.abs(b - r) < 1e-3) else b


def _do_reads(seg, c, ty, mf):
    """the reads of a case with read options; rescaled FRACTIONAL planes are shown as levels"""
    import numpy as np
    outs = []
    for mode, via_volume, sel, rg, opts in c['reads']:
        def f():
            kw = dict(segment_numbers=list(sel), combine_segments=mode != 'planes', relabel=mode == 'relabel',
                      rescale_fractional=opts['rescale'], skip_overlap_checks=opts['skip'], **_kw(rg))
            if opts['dtype'] is not None:
                kw['dtype'] = np.dtype(opts['dtype'])
            if via_volume:
                a = seg.get_volume(**kw).array
                assert a.shape[0] == 1
                a = a[0]
            else:
                a = seg.get_total_pixel_matrix(**kw)
            if opts['dtype'] is not None:
                assert a.dtype == np.dtype(opts['dtype']), (a.dtype, opts['dtype'])
            if ty == 'FRACTIONAL' and mode == 'planes' and opts['rescale']:
                assert a.dtype.kind == 'f', a.dtype
                b = _levels_of(a, mf)
            else:
                b = _as_ints(a)
            return b.tolist() if mode != 'planes' else b.transpose(2, 0, 1).tolist()
        outs.append(catch(f))
    return outs


def _run_seg_frac(c):
    import numpy as np
    import highdicom as hd
    import synth
    R, C, th, tw = c['R'], c['C'], c['th'], c['tw']
    arr = _frac_array(c)
    before = arr.copy()
    kw = {'max_fractional_value': c['mf']}
    if c['omit'] is not None:
        kw['omit_empty_frames'] = c['omit']
    segs = list(range(1, c['nseg'] + 1))
    if c['entry'] == 'tile':
        src = synth.sm_tiled(R, C, c['src_tile'][0], c['src_tile'][1])
        kw.update(tile_pixel_array=True, tile_size=(th, tw),
                  dimension_organization_type='TILED_FULL' if c['full'] else 'TILED_SPARSE')
    else:
        src = synth.sm_tiled(R, C, th, tw, tiled_full=c['src_full'])
        nr, nc = -(-R // th), -(-C // tw)
        pad = np.zeros((nr * th, nc * tw) + arr.shape[3:], arr.dtype)
        pad[:R, :C] = arr[0]
        arr = np.stack([pad[a * th:(a + 1) * th, b * tw:(b + 1) * tw] for a in range(nr) for b in range(nc)])
        before = arr.copy()
        if c['full']:
            kw['dimension_organization_type'] = 'TILED_FULL'
    seg = catch(lambda: synth.make_seg([src], arr, 'FRACTIONAL', segs, **kw))
    if isinstance(seg, Err):
        return seg
    assert np.array_equal(arr, before)
    if c['src'] == 'file':
        seg = synth.write_read(seg, hd.seg.segread)
    return [int(seg.NumberOfFrames)] + _do_reads(seg, c, 'FRACTIONAL', c['mf'])


def _free_frames(c):
    """frames cut from the R x C matrix L at the positions of the case: (n, th, tw) labels or
    (n, th, tw, S) binary planes"""
    import numpy as np
    L = np.array(c['L'], np.uint8).reshape(c['R'], c['C'])
    fr = np.stack([L[r - 1:r - 1 + c['th'], cc - 1:cc - 1 + c['tw']] for r, cc in c['pos']])
    if c['inp'] == 'stack':
        fr = np.stack([(fr == k).astype(np.uint8) for k in range(1, c['nseg'] + 1)], axis=-1)
    return fr


def _run_seg_free(c):
    import numpy as np
    import highdicom as hd
    import synth
    SR, SC, sth, stw = c['src']
    src = synth.sm_tiled(SR, SC, sth, stw)
    arr = _free_frames(c)
    before = arr.copy()
    pps = [hd.PlanePositionSequence('SLIDE', image_position=(100.0 + 0.5 * cc, 200.0 + 0.5 * r, 0.0),
                                    pixel_matrix_position=(cc, r)) for r, cc in c['pos']]
    kw = {'plane_positions': pps}
    if c['omit'] is not None:
        kw['omit_empty_frames'] = c['omit']
    if c['org_given']:
        kw['dimension_organization_type'] = 'TILED_SPARSE'
    if c['ty'] == 'FRACTIONAL':
        kw['max_fractional_value'] = c['mf']
    seg = catch(lambda: synth.make_seg([src], arr, c['ty'], list(range(1, c['nseg'] + 1)), **kw))
    if isinstance(seg, Err):
        return seg
    assert np.array_equal(arr, before)
    if c['obj'] == 'file':
        seg = synth.write_read(seg, hd.seg.segread)
    return [int(seg.NumberOfFrames), int(seg.TotalPixelMatrixRows), int(seg.TotalPixelMatrixColumns)] \
        + _do_reads(seg, c, c['ty'], c['mf'])


def _img_free_dataset(c):
    """TILED_SPARSE slide image whose frames sit at the explicit positions of the case"""
    import copy
    import numpy as np
    import synth
    R, C, th, tw = c['R'], c['C'], c['th'], c['tw']
    ds = synth.sm_tiled(R, C, th, tw, tiled_full=False, samples=1)
    px = np.array(c['px'], np.uint8).reshape(R, C)
    pad = np.zeros((R + th, C + tw), np.uint8)
    pad[:R, :C] = px
    it0 = ds.PerFrameFunctionalGroupsSequence[0]
    items, frames = [], []
    for r, cc in c['pos']:
        it = copy.deepcopy(it0)
        pp = it.PlanePositionSlideSequence[0]
        pp.RowPositionInTotalImagePixelMatrix = r
        pp.ColumnPositionInTotalImagePixelMatrix = cc
        pp.XOffsetInSlideCoordinateSystem = 0.5 * cc
        pp.YOffsetInSlideCoordinateSystem = 0.5 * r
        it.FrameContentSequence[0].DimensionIndexValues = [cc, r]
        items.append(it)
        frames.append(pad[r - 1:r - 1 + th, cc - 1:cc - 1 + tw].tobytes())
    ds.PerFrameFunctionalGroupsSequence = items
    ds.NumberOfFrames = len(items)
    pd = b''.join(frames)
    ds.PixelData = pd + (b'\0' if len(pd) % 2 else b'')
    return ds


def run_impl(c):
    import numpy as np
    _quiet()
    k = c['kind']
    if k in ('seg_hist', 'seg_nums'):
        return _run_seg_hist(c)
    if k == 'seg_frac':
        return _run_seg_frac(c)
    if k == 'seg_free':
        return _run_seg_free(c)
    if k == 'img_hist':
        return _run_img_hist(c)
    if k == 'seg_frames':
        return _run_seg_frames(c)
    if k in ('std', 'std_bad'):
        from highdicom.image import _Image
        ai, rs, re, cs, ce = c['rg']
        return catch(lambda: [int(x) for x in _Image._standardize_row_column_indices(
            rs, re, cs, ce, rows=c['R'], columns=c['C'], as_indices=ai, outputs_as_indices=c['oi'])])
    if k in ('img', 'img_missing', 'img_dup', 'img_free'):
        import highdicom as hd
        im = hd.Image.from_dataset(_img_free_dataset(c) if k == 'img_free' else _img_dataset(c), copy=False)
        outs = []
        for rg in c['regions']:
            def f():
                if c.get('vol'):
                    a = im.get_volume(dtype=np.int64, apply_icc_profile=False, **_kw(rg)).array
                    assert a.shape[0] == 1
                    a = a[0]
                else:
                    a = im.get_total_pixel_matrix(dtype=np.int64, apply_icc_profile=False, **_kw(rg))
                if a.ndim == 2:
                    a = a[:, :, None]
                return a.transpose(2, 0, 1).tolist()
            outs.append(catch(f))
        return outs
    if k == 'img_vol':
        import highdicom as hd
        im = hd.Image.from_dataset(_img_dataset(c), copy=False)
        outs = []
        for rg in c['regions']:
            def f():
                a = im.get_volume(dtype=np.int64, apply_icc_profile=False, **_kw(rg)).array
                assert a.shape[0] == 1
                a = a[0]
                if a.ndim == 2:
                    a = a[:, :, None]
                return a.transpose(2, 0, 1).tolist()
            outs.append(catch(f))
        return outs
    if k == 'seg_reads':
        return _run_seg_reads(c)
    if k in SEG_KINDS:
        import synth
        R, C = c['R'], c['C']
        src = synth.sm_tiled(R, C, c['src_tile'][0], c['src_tile'][1])
        arr = _mask_array(c, R, C)
        before = arr.copy()

        def build():
            return synth.make_seg([src], arr, c['ty'], list(range(1, c['nseg'] + 1)),
                                  tile_pixel_array=True, tile_size=(c['th'], c['tw']),
                                  dimension_organization_type='TILED_FULL' if c['full'] else 'TILED_SPARSE',
                                  omit_empty_frames=c['omit'])
        seg = catch(build)
        if isinstance(seg, Err):
            return seg
        assert np.array_equal(arr, before)
        _clobber(arr, c.get('mem'))
        if c.get('roundtrip'):
            import highdicom as hd
            seg = synth.write_read(seg, hd.seg.segread)
        outs = [int(seg.NumberOfFrames)]
        for rg in c['regions']:
            def f():
                if c['ty'] == 'LABELMAP':
                    return seg.get_total_pixel_matrix(segment_numbers=c['sel'], combine_segments=True,
                                                      **_kw(rg)).astype(np.int64).tolist()
                a = seg.get_total_pixel_matrix(segment_numbers=c['sel'], combine_segments=False,
                                               rescale_fractional=False, **_kw(rg))
                return a.astype(np.int64).transpose(2, 0, 1).tolist()
            outs.append(catch(f))
        return outs
    if k in ('seg_geom', 'seg_geom_bad'):
        return _run_geom(c)
    if k == 'seg_pyr':
        return _run_pyramid(c)
    if k == 'np1d':
        # MODEL vs numpy: no highdicom involved
        R, C, th, tw, M = _np1d_matrix(c)
        A = np.array(M, np.int64)
        starts, ends = _np1d_lists(c['n'])
        outs = []
        for s in starts:
            for e in ends:
                rg = [c['ai'], s, e, None, None] if c['axis'] == 'row' else [c['ai'], None, None, s, e]
                ref = ref_region(R, C, rg)
                if ref is None:
                    outs.append(Err('ValueError'))
                else:
                    outs.append([A[ref[0]:ref[1], ref[2]:ref[3]].tolist()])
        return outs
    raise ValueError(k)


# --------------------------------------------------------------------------
# model terms
# --------------------------------------------------------------------------
def _b(x):
    return 'true' if x else 'false'


def _rg_args(rg):
    ai, rs, re, cs, ce = rg
    return f'{_b(ai)} {optz(rs)} {optz(re)} {optz(cs)} {optz(ce)}'


def _cut_py(M, R, C, th, tw, ro, co):
    """padded th x tw tile at 0-based (ro, co) (plain python, for rendering stored frames)"""
    return [[M[r][cc] if r < R and cc < C else 0 for cc in range(co, co + tw)] for r in range(ro, ro + th)]


def _img_tiles(c):
    """per sample plane: list of (rp, cp, frame) in stored order (after drop/dup)"""
    R, C, th, tw = c['R'], c['C'], c['th'], c['tw']
    nr, nc = -(-R // th), -(-C // tw)
    pos = [(a * th + 1, b * tw + 1) for a in range(nr) for b in range(nc)]
    eff = list(pos)
    if c['dup']:
        i, j = c['dup']
        eff[j] = pos[i]
    planes = []
    for s in range(c['samples']):
        M = [[c['px'][r][cc][s] for cc in range(C)] for r in range(R)]
        ts = []
        for k, (rp, cp) in enumerate(pos):
            if k in c['drop']:
                continue
            ts.append((eff[k][0], eff[k][1], _cut_py(M, R, C, th, tw, rp - 1, cp - 1)))
        planes.append(ts)
    return planes


def _planes_term(m):
    """(planes, segs_model) of a mask description"""
    segs = _numbers(m)
    if m['ty'] == 'LABELMAP':
        return f"[(0, {zll(m['L'])})]", [0]
    if m['inp'] == 'label':
        return f"(planes_of_labelmap {zll(m['L'])} {zl(segs)})", segs
    return '[' + '; '.join(f'({i + 1}, {zll(p)})' for i, p in enumerate(m['stack'])) + ']', segs


def _opt_reads_term(reads):
    """list of Coq `opt_read`s: (mode, via get_volume, (rescale_fractional, skip_overlap_checks), numbers, region)"""
    md = {'planes': 'Planes', 'combined': 'Combined', 'relabel': 'Relabelled'}
    return '[' + '; '.join(
        f"({md[mode]}, {_b(vv)}, ({_b(o['rescale'])}, {_b(o['skip'])}), {zl(sel)}, "
        f"({_b(rg[0])}, ({optz(rg[1])}, {optz(rg[2])}, {optz(rg[3])}, {optz(rg[4])})))"
        for mode, vv, sel, rg, o in reads) + ']'


def _rgs_term(regions):
    return '[' + '; '.join(
        f'({_b(rg[0])}, ({optz(rg[1])}, {optz(rg[2])}, {optz(rg[3])}, {optz(rg[4])}))' for rg in regions) + ']'


def _geom_term(m, R, C, src, tile, pp, fl, full, omit, regions):
    ty = {'BINARY': 'Binary', 'FRACTIONAL': 'Fractional', 'LABELMAP': 'Labelmap'}[m['ty']]
    planes, segs_model = _planes_term(m)
    t = 'None' if tile is None else f'(Some ({tile[0]}, {tile[1]}))'
    ppt = 'None' if pp is None else f"(Some ({pp['n']}, {pp['rc'][0]}, {pp['rc'][1]}))"
    g = (f"(mkGeom {src[0]} {src[1]} {src[2]} {src[3]} {t} {ppt} {_b(fl['origin_same'])} {_b(fl['user_ori'])} "
         f"{_b(fl['ori_same'])} {_b(fl['user_meas'])} {_b(fl['meas_same'])})")
    return (f"(run_seg_geom {ty} 255 {_b(full)} {_b(omit)} {planes} {zl(segs_model)} {zl(m['sel'])} "
            f"{R} {C} {g} {_rgs_term(regions)})")


def coq_term(c):
    k = c['kind']
    if k in ('std', 'std_bad'):
        ai, rs, re, cs, ce = c['rg']
        return (f"(run_std {_b(ai)} {_b(c['oi'])} {optz(rs)} {optz(re)} {optz(cs)} {optz(ce)} "
                f"{zlit(c['R'])} {zlit(c['C'])})")
    if k == 'seg_frac':
        lev = [[list(row) for row in pl] for pl in c['lev']]
        if c['bad'] == 'gt1':
            lev[0][-1][-1] = c['mf'] + 1              # a probability above 1
        elif c['bad'] == 'neg':
            lev[-1][0][0] = -1                        # a negative probability
        segs = list(range(1, c['nseg'] + 1))
        planes = '[' + '; '.join(f'({i + 1}, {zll(pl)})' for i, pl in enumerate(lev)) + ']'
        omit = True if c['omit'] is None else c['omit']
        return (f"(run_seg_frac {c['mf']} {_b(c['full'])} {_b(omit)} {planes} {zl(segs)} {zl(segs)} "
                f"{c['R']} {c['C']} {c['th']} {c['tw']} {_opt_reads_term(c['reads'])})")
    if k == 'seg_free':
        ty = {'BINARY': 'Binary', 'FRACTIONAL': 'Fractional', 'LABELMAP': 'Labelmap'}[c['ty']]
        segs = list(range(1, c['nseg'] + 1))
        frames = []
        for r, cc in c['pos']:
            T = [[c['L'][a][b] for b in range(cc - 1, cc - 1 + c['tw'])] for a in range(r - 1, r - 1 + c['th'])]
            if c['ty'] == 'LABELMAP':
                pls = f'[(0, {zll(T)})]'
            else:
                pls = '[' + '; '.join(f'({k2}, {zll([[1 if v == k2 else 0 for v in row] for row in T])})'
                                      for k2 in segs) + ']'
            frames.append(f'mkF {r} {cc} {pls}')
        omit = True if c['omit'] is None else c['omit']
        return (f"(run_seg_free {ty} {c['mf']} {_b(omit)} [{'; '.join(frames)}] {zl(segs)} "
                f"{c['th']} {c['tw']} {_opt_reads_term(c['reads'])})")
    if k == 'img_free':
        R, C, th, tw = c['R'], c['C'], c['th'], c['tw']
        M = [[c['px'][r][cc][0] for cc in range(C)] for r in range(R)]
        P = '[[' + '; '.join(f'mkT {r} {cc} {zll(_cut_py(M, R, C, th, tw, r - 1, cc - 1))}' for r, cc in c['pos']) + ']]'
        sfx = '_vol' if c.get('vol') else ('_arr' if c.get('arr') else '')
        calls = [f'run_img{sfx} false {R} {C} {th} {tw} P {_rg_args(rg)}' for rg in c['regions']]
        return f"(let P := {P} in VL [{'; '.join(calls)}])"
    if k in ('img', 'img_missing', 'img_dup', 'img_vol', 'img_hist'):
        planes = _img_tiles(c)
        dims = f"{c['R']} {c['C']} {c['th']} {c['tw']}"
        sfx = '_vol' if k == 'img_vol' else ('_arr' if c.get('arr') else '')
        if c['full']:
            P = '[' + '; '.join('[' + '; '.join(zll(t[2]) for t in ts) + ']' for ts in planes) + ']'
            calls = [f'run_img_full{sfx} {dims} P {_rg_args(rg)}' for rg in c['regions']]
        else:
            P = '[' + '; '.join('[' + '; '.join(f'mkT {t[0]} {t[1]} {zll(t[2])}' for t in ts) + ']'
                                for ts in planes) + ']'
            calls = [f'run_img{sfx} false {dims} P {_rg_args(rg)}' for rg in c['regions']]
        if k == 'img_hist':
            calls.append('VB true')      # reads are functions of the stored frames, which stay what they were
        return f"(let P := {P} in VL [{'; '.join(calls)}])"
    if k == 'seg_reads':
        ty = {'BINARY': 'Binary', 'FRACTIONAL': 'Fractional', 'LABELMAP': 'Labelmap'}[c['ty']]
        planes, segs_model = _planes_term(c)
        md = {'planes': 'Planes', 'combined': 'Combined', 'relabel': 'Relabelled'}
        reads = '[' + '; '.join(
            f"({md[mode]}, {_b(vv)}, {zl(sel)}, ({_b(rg[0])}, ({optz(rg[1])}, {optz(rg[2])}, {optz(rg[3])}, {optz(rg[4])})))"
            for mode, vv, sel, rg in c['reads']) + ']'
        return (f"(run_seg_reads {ty} 255 {_b(c['full'])} {_b(c['omit'])} {planes} {zl(segs_model)} "
                f"{zl(list(range(1, c['nseg'] + 1)))} {c['R']} {c['C']} {c['th']} {c['tw']} {reads})")
    if k in ('seg_hist', 'seg_nums'):
        ty = {'BINARY': 'Binary', 'FRACTIONAL': 'Fractional', 'LABELMAP': 'Labelmap'}[c['ty']]
        planes, segs_model = _planes_term(c)
        return (f"(run_seg_hist {ty} 255 {_b(c['full'])} {_b(c['omit'])} {planes} {zl(segs_model)} "
                f"{zl(_numbers(c))} {c['R']} {c['C']} {c['th']} {c['tw']} {_opt_reads_term(c['reads'])})")
    if k in SEG_TERM_KINDS:
        ty = {'BINARY': 'Binary', 'FRACTIONAL': 'Fractional', 'LABELMAP': 'Labelmap'}[c['ty']]
        segs = list(range(1, c['nseg'] + 1))
        if c['ty'] == 'LABELMAP':
            planes = f"[(0, {zll(c['L'])})]"
            segs_model = [0]
        elif c['inp'] == 'label':
            planes = f"(planes_of_labelmap {zll(c['L'])} {zl(segs)})"
            segs_model = segs
        else:
            planes = '[' + '; '.join(f'({i + 1}, {zll(p)})' for i, p in enumerate(c['stack'])) + ']'
            segs_model = segs
        rgs = '[' + '; '.join(
            f'({_b(rg[0])}, ({optz(rg[1])}, {optz(rg[2])}, {optz(rg[3])}, {optz(rg[4])}))' for rg in c['regions']) + ']'
        return (f"(run_seg {ty} 255 {_b(c['full'])} {_b(c['omit'])} {planes} {zl(segs_model)} {zl(c['sel'])} "
                f"{c['R']} {c['C']} {c['th']} {c['tw']} {rgs})")
    if k in ('seg_geom', 'seg_geom_bad'):
        return _geom_term(c, c['R'], c['C'], c['src'], c['tile'], c['pp'], _geom_flags(c), c['full'], c['omit'],
                          c['regions'])
    if k == 'seg_pyr':
        if c['mode'] == 'factors':
            return None          # library-resampled levels: outside the model (oracle-only)
        terms = []
        for li, lv in enumerate(c['levels']):
            m = dict(c, **lv)
            if c['mode'] == 'arrays':
                # create_segmentation_pyramid passes pixel_measures scaled by the shape ratio
                fl = {'origin_same': True, 'user_ori': False, 'ori_same': False, 'user_meas': True,
                      'meas_same': (lv['R'], lv['C']) == (c['src'][0], c['src'][1])}
                src = c['src']
            else:
                fl = {'origin_same': True, 'user_ori': False, 'ori_same': False, 'user_meas': False,
                      'meas_same': False}
                src = [lv['R'], lv['C']] + list(c['src_tiles'][li])
            terms.append(_geom_term(m, lv['R'], lv['C'], src, c['tile'], None, fl, c['full'], c['omit'],
                                    c['regions'][li]))
        return f"(VL [{'; '.join(terms)}])"
    if k == 'np1d':
        R, C, th, tw, M = _np1d_matrix(c)
        nr, nc = -(-R // th), -(-C // tw)
        frames = [_cut_py(M, R, C, th, tw, a * th, b * tw) for a in range(nr) for b in range(nc)]
        starts, ends = _np1d_lists(c['n'])
        ol = lambda xs: '[' + '; '.join(optz(x) for x in xs) + ']'  # noqa
        return (f"(run_grid1d {_b(c['axis'] == 'row')} {_b(c['ai'])} {R} {C} {th} {tw} "
                f"[[{'; '.join(zll(f) for f in frames)}]] {ol(starts)} {ol(ends)})")
    raise ValueError(k)


# --------------------------------------------------------------------------
# independent oracle: TPM[slice]
# --------------------------------------------------------------------------
def _expect_region(c, rg, planes, missing=None):
    """planes: list of numpy R x C arrays (what each output plane must show).
    Returns ('err',) | ('arr', list) | ('missing',)"""
    ref = ref_region(c['R'], c['C'], rg)
    if ref is None:
        return ('err',)
    r0, r1, c0, c1 = ref
    if missing is not None and (r0 == r1 or c0 == c1):
        # empty region of an image with missing tiles: the empty array or the
        # "missing frames" refusal are both acceptable
        return ('either', [p[r0:r1, c0:c1].tolist() for p in planes])
    if missing is not None and missing[r0:r1, c0:c1].any():
        return ('missing',)
    return ('arr', [p[r0:r1, c0:c1].tolist() for p in planes])


def _seg_oracle(c, R, C, th, tw, regions, out, geom):
    """c: mask description (ty, nseg, inp, L, stack, sel, full, omit); the mask is R x C and must
    have been cut into th x tw tiles.  out = [frames, (Rows, Columns, TPM rows, TPM columns,)
    region...]"""
    import numpy as np
    L = np.array(c['L'], np.int64).reshape(R, C)
    nseg = c['nseg']
    if c['inp'] == 'label':
        masks = {s: (L == s).astype(np.int64) for s in _numbers(c)}
    else:
        masks = {s + 1: np.array(p, np.int64).reshape(R, C) for s, p in enumerate(c['stack'])}
    anym = np.zeros((R, C), bool)
    for m in masks.values():
        anym |= m > 0
    all_empty = not anym.any()
    if c['full'] and c['omit'] and not all_empty:
        return None if (isinstance(out, Err) and out.kind == 'ValueError') else \
            f'TILED_FULL with omit_empty_frames and a non-empty mask must be refused, got {str(out)[:80]}'
    if isinstance(out, Err):
        return f'valid construction refused: {out}'
    # number of stored frames, by direct counting
    tiles = [(a, b) for a in range(0, R, th) for b in range(0, C, tw)]
    omit = c['omit'] and not all_empty

    def ne(m, a, b):
        return bool(m[a:a + th, b:b + tw].any())
    if c['ty'] == 'LABELMAP':
        want_n = sum(1 for a, b in tiles if (not omit) or ne(anym, a, b))
    else:
        want_n = sum(1 for s in masks for a, b in tiles if (not omit) or ne(masks[s], a, b))
    first = 1
    if geom:
        first = 5
        if list(out[1:3]) != [th, tw]:
            return f'frames are {out[1]}x{out[2]}, tile size {th}x{tw} expected'
        if list(out[3:5]) != [R, C]:
            return (f'declares TotalPixelMatrixRows/Columns {out[3]}x{out[4]} for a mask of shape {R}x{C} '
                    f'passed as the whole matrix')
    if out[0] != want_n:
        return f'{out[0]} frames stored, expected {want_n}'
    if c['ty'] == 'LABELMAP':
        planes = [np.where(np.isin(L, c['sel']), L, 0)]
    else:
        scale = 255 if c['ty'] == 'FRACTIONAL' else 1
        planes = [masks[s] * scale for s in c['sel']]
    dims = {'R': R, 'C': C}
    for rg, o in zip(regions, out[first:]):
        exp = _expect_region(dims, rg, planes)
        if exp[0] == 'err':
            if not isinstance(o, Err):
                return f'region {rg} outside the conventions accepted: {str(o)[:120]}'
        else:
            if isinstance(o, Err):
                return f'valid region {rg} refused: {o}'
            want = exp[1][0] if c['ty'] == 'LABELMAP' else exp[1]
            if o != want:
                return f'region {rg}: got {str(o)[:200]} expected {str(want)[:200]}'
    return None


def _seg_reads_oracle(c, out):
    import numpy as np
    R, C, th, tw = c['R'], c['C'], c['th'], c['tw']
    head = _seg_oracle(c, R, C, th, tw, [], out if isinstance(out, Err) else out[:1], geom=False)
    if head is not None or isinstance(out, Err):
        return head
    L = np.array(c['L'], np.int64).reshape(R, C)
    nseg = c['nseg']
    if c['inp'] == 'label':
        masks = {s: (L == s).astype(np.int64) for s in range(1, nseg + 1)}
    else:
        masks = {s + 1: np.array(p, np.int64).reshape(R, C) for s, p in enumerate(c['stack'])}
    scale = 255 if c['ty'] == 'FRACTIONAL' else 1
    for (mode, via_volume, sel, rg), o in zip(c['reads'], out[1:]):
        what = f"{'get_volume' if via_volume else 'get_total_pixel_matrix'}(segment_numbers={sel}, {mode}, {rg})"
        ref = ref_region(R, C, rg)
        bad_sel = len(sel) == 0 or any(s not in masks for s in sel)
        if bad_sel or ref is None:
            if not isinstance(o, Err):
                why = 'segment_numbers empty or not described' if bad_sel else 'arguments denote no region'
                return f'{what}: {why}, yet returned {str(o)[:100]}'
            continue
        if isinstance(o, Err):
            return f'{what}: valid read refused: {o}'
        r0, r1, c0, c1 = ref
        if mode == 'planes':
            want = [(masks[s] * scale)[r0:r1, c0:c1].tolist() for s in sel]
        elif mode == 'combined':
            want = np.where(np.isin(L, sel), L, 0)[r0:r1, c0:c1].tolist()
        else:
            lut = np.zeros(nseg + 1, np.int64)
            for s_ in set(sel):
                lut[s_] = sel.index(s_) + 1      # a segment requested twice is shown at its first position
            want = lut[L][r0:r1, c0:c1].tolist()
        if o != want:
            return f'{what}: got {str(o)[:200]} expected {str(want)[:200]}'
    return None


def _seg_hist_oracle(c, out):
    """every read of the history against numpy on the mask that was passed; the object must be
    left as it was (last item)"""
    import numpy as np
    R, C, th, tw = c['R'], c['C'], c['th'], c['tw']
    head = _seg_oracle(c, R, C, th, tw, [], out if isinstance(out, Err) else out[:1], geom=False)
    if head is not None or isinstance(out, Err):
        return head
    L = np.array(c['L'], np.int64).reshape(R, C)
    nseg = max(_numbers(c))
    if c['inp'] == 'label':
        masks = {s: (L == s).astype(np.int64) for s in _numbers(c)}
    else:
        masks = {s + 1: np.array(p, np.int64).reshape(R, C) for s, p in enumerate(c['stack'])}
    scale = 255 if c['ty'] == 'FRACTIONAL' else 1
    hist = c['hist']
    for n, ((mode, via_volume, sel, rg, o), got) in enumerate(zip(c['reads'], out[1:-1])):
        what = (f"read #{n} {'get_volume' if via_volume else 'get_total_pixel_matrix'}(segment_numbers={sel}, {mode}, "
                f"{rg}, {o}) [object: {hist['src']}, pixel_array cached before read {hist['warm']}, "
                f"results overwritten: {hist['scribble']}]")
        ref = ref_region(R, C, rg)
        bad_sel = len(sel) == 0 or any(s not in masks for s in sel)
        frac_raw = c['ty'] == 'FRACTIONAL' and mode != 'planes' and not o['rescale']
        if bad_sel or ref is None or frac_raw:
            if not isinstance(got, Err):
                why = ('segment_numbers empty or not described' if bad_sel else
                       'arguments denote no region' if ref is None else
                       'FRACTIONAL segments combined without rescale_fractional')
                return f'{what}: {why}, yet returned {str(got)[:100]}'
            continue
        r0, r1, c0, c1 = ref
        if mode == 'planes':
            want = [(masks[s] * scale)[r0:r1, c0:c1].tolist() for s in sel]
        elif c['ty'] == 'LABELMAP':
            if mode == 'combined':
                want = np.where(np.isin(L, sel), L, 0)[r0:r1, c0:c1].tolist()
            else:
                lut = np.zeros(nseg + 1, np.int64)
                for s_ in set(sel):
                    lut[s_] = sel.index(s_) + 1
                want = lut[L][r0:r1, c0:c1].tolist()
        else:
            window = np.stack([masks[s][r0:r1, c0:c1] for s in sel])           # requested planes, region only
            if (window > 0).sum(axis=0).max(initial=0) > 1 and not o['skip']:
                if not (isinstance(got, Err) and got.kind == 'RuntimeError'):
                    return f'{what}: two requested segments overlap inside the region, got {str(got)[:100]}'
                continue
            labels = np.array([sel.index(s) + 1 if mode == 'relabel' else s for s in sel], np.int64)
            want = (window * labels[:, None, None]).max(axis=0, initial=0).tolist()
        if isinstance(got, Err):
            return f'{what}: valid read refused: {got}'
        if got != want:
            return f'{what}: got {str(got)[:200]} expected {str(want)[:200]}'
    if out[-1] is not True:
        return (f"after the reads the object differs from what it was (PixelData bytes / cached pixel_array changed, or "
                f"`.pixel_array` could not be decoded) "
                f"[object: {hist['src']}, pixel_array cached before read {hist['warm']}]")
    return None


def _read_oracle(what, mode, sel, o, got, ref, planes, ty, mf, lab=None):
    """one read with options against numpy.  planes: {segment number: R x C array of STORED values
    (0/1, or levels for FRACTIONAL) the matrix must show}; lab: R x C label matrix for LABELMAP."""
    import numpy as np
    bad_sel = len(sel) == 0 or any(s not in planes for s in sel)
    frac_raw = ty == 'FRACTIONAL' and mode != 'planes' and not o['rescale']
    if bad_sel or ref is None or frac_raw:
        if not isinstance(got, Err):
            why = ('segment_numbers empty or not described' if bad_sel else
                   'arguments denote no region' if ref is None else
                   'FRACTIONAL segments combined without rescale_fractional')
            return f'{what}: {why}, yet returned {str(got)[:100]}'
        return None
    r0, r1, c0, c1 = ref
    if mode == 'planes':
        want = [planes[s][r0:r1, c0:c1].tolist() for s in sel]
    elif ty == 'LABELMAP':
        if mode == 'combined':
            want = np.where(np.isin(lab, sel), lab, 0)[r0:r1, c0:c1].tolist()
        else:
            want = np.vectorize(lambda v: sel.index(v) + 1 if v in sel else 0, otypes=[np.int64])(
                lab[r0:r1, c0:c1]).reshape(r1 - r0, c1 - c0).tolist()
    else:
        window = np.stack([planes[s][r0:r1, c0:c1] for s in sel])
        if ty == 'FRACTIONAL':
            if not np.isin(window, [0, mf]).all():
                if not (isinstance(got, Err) and got.kind == 'ValueError'):
                    return (f'{what}: combining FRACTIONAL planes that hold levels other than 0 / {mf} inside the '
                            f'region must be refused with ValueError, got {str(got)[:100]}')
                return None
            window = window // mf
        if (window > 0).sum(axis=0).max(initial=0) > 1 and not o['skip']:
            if not (isinstance(got, Err) and got.kind == 'RuntimeError'):
                return f'{what}: two requested segments overlap inside the region, got {str(got)[:100]}'
            return None
        labels = np.array([sel.index(s) + 1 if mode == 'relabel' else s for s in sel], np.int64)
        want = (window * labels[:, None, None]).max(axis=0, initial=0).tolist()
    if isinstance(got, Err):
        return f'{what}: valid read refused: {got}'
    if got != want:
        return f'{what}: got {str(got)[:200]} expected {str(want)[:200]}'
    return None


def _seg_frac_oracle(c, out):
    """the float mask that was passed, quantised with exact rational arithmetic (round half to even),
    is what every read must show; a tile is stored iff one of its levels is non-zero"""
    import numpy as np
    from fractions import Fraction
    R, C, th, tw, mf, nseg = c['R'], c['C'], c['th'], c['tw'], c['mf'], c['nseg']
    arr = _frac_array(c)
    vals = arr.reshape(R, C, nseg)
    if c['bad'] is not None or vals.min() < 0 or vals.max() > 1:
        return None if (isinstance(out, Err) and out.kind == 'ValueError') else \
            f"{ {'gt1': 'a value above 1.0', 'neg': 'a negative value', 'mf': f'max_fractional_value {mf}'}[c['bad']] }" \
            f" must be refused with ValueError, got {str(out)[:80]}"
    q = np.zeros((R, C, nseg), np.int64)
    for idx in np.ndindex(R, C, nseg):
        x = Fraction(float(vals[idx])) * mf
        fl = x.numerator // x.denominator
        d = x - fl
        q[idx] = fl + (1 if (d > Fraction(1, 2) or (d == Fraction(1, 2) and fl % 2 == 1)) else 0)
    planes = {k + 1: q[:, :, k] for k in range(nseg)}
    anyq = q.any(axis=2)
    omit = (True if c['omit'] is None else c['omit']) and bool(anyq.any())
    if c['full'] and omit:
        return None if (isinstance(out, Err) and out.kind == 'ValueError') else \
            f'TILED_FULL with omit_empty_frames and a non-empty mask must be refused, got {str(out)[:80]}'
    if isinstance(out, Err):
        return f'valid construction refused: {out}'
    tiles = [(a, b) for a in range(0, R, th) for b in range(0, C, tw)]
    want_n = sum(1 for k in planes for a, b in tiles if (not omit) or planes[k][a:a + th, b:b + tw].any())
    if out[0] != want_n:
        lost = [(k, a + 1, b + 1) for k in planes for a, b in tiles
                if planes[k][a:a + th, b:b + tw].any() and planes[k][a:a + th, b:b + tw].max() * 2 <= mf]
        return (f'{out[0]} frames stored, expected {want_n}: every tile of a segment holding a non-zero LEVEL '
                f'(after quantisation with max_fractional_value={mf}) must be stored; faint tiles '
                f'(segment, row, column): {lost[:6]}')
    for n, ((mode, via_volume, sel, rg, o), got) in enumerate(zip(c['reads'], out[1:])):
        what = (f"read #{n} {'get_volume' if via_volume else 'get_total_pixel_matrix'}(segment_numbers={sel}, {mode}, "
                f"{rg}, {o}) [float mask {c['fdt']}, max_fractional_value={mf}, {c['entry']}, object: {c['src']}]")
        msg = _read_oracle(what, mode, sel, o, got, ref_region(R, C, rg), planes, 'FRACTIONAL', mf)
        if msg is not None:
            return msg
    return None


def _seg_free_oracle(c, out):
    """frames cut from ONE matrix at the caller's positions: the object must declare the bounding
    box of its frames and every region must show the matrix where a stored frame holds the cell"""
    import numpy as np
    R, C, th, tw, nseg, ty = c['R'], c['C'], c['th'], c['tw'], c['nseg'], c['ty']
    if isinstance(out, Err):
        return f'valid construction refused: {out}'
    L = np.array(c['L'], np.int64).reshape(R, C)
    held = np.zeros((R, C), bool)
    for r, cc in c['pos']:
        held[r - 1:r - 1 + th, cc - 1:cc - 1 + tw] = True
    Lh = np.where(held, L, 0)
    scale = c['mf'] if ty == 'FRACTIONAL' else 1
    planes = {k: (Lh == k).astype(np.int64) * scale for k in range(1, nseg + 1)}
    frames = [L[r - 1:r - 1 + th, cc - 1:cc - 1 + tw] for r, cc in c['pos']]
    omit = (True if c['omit'] is None else c['omit']) and any(f.any() for f in frames)
    if ty == 'LABELMAP':
        want_n = sum(1 for f in frames if (not omit) or f.any())
    else:
        want_n = sum(1 for k in planes for f in frames if (not omit) or (f == k).any())
    if list(out[1:3]) != [R, C]:
        return (f'declares TotalPixelMatrixRows/Columns {out[1]}x{out[2]}, but its {th}x{tw} frames at (row, column) '
                f"{sorted(map(tuple, c['pos']))} reach row {R} and column {C}")
    if out[0] != want_n:
        return f'{out[0]} frames stored, expected {want_n}'
    for n, ((mode, via_volume, sel, rg, o), got) in enumerate(zip(c['reads'], out[3:])):
        what = (f"read #{n} {'get_volume' if via_volume else 'get_total_pixel_matrix'}(segment_numbers={sel}, {mode}, "
                f"{rg}, {o}) [{ty} frames {th}x{tw} at {sorted(map(tuple, c['pos']))}, object: {c['obj']}]")
        msg = _read_oracle(what, mode, sel, o, got, ref_region(R, C, rg), planes, ty, c['mf'], lab=Lh)
        if msg is not None:
            return msg
    return None


def oracle(c, out):
    import numpy as np
    k = c['kind']
    if k in ('seg_hist', 'seg_nums'):
        return _seg_hist_oracle(c, out)
    if k == 'seg_frac':
        return _seg_frac_oracle(c, out)
    if k == 'seg_free':
        return _seg_free_oracle(c, out)
    if k == 'img_hist':
        if out[-1] is not True:
            return 'after the reads the image differs from what it was (PixelData bytes / cached pixel_array changed)'
        return oracle(dict(c, kind='img_missing' if c['drop'] else 'img'), out[:-1])
    if k in ('std', 'std_bad'):
        ref = ref_region(c['R'], c['C'], c['rg'])
        ai, rs, re, cs, ce = c['rg']
        if ref is None:
            if isinstance(out, Err):
                return None if out.kind == 'ValueError' else f'refused with {out.kind}, ValueError expected'
            # the standardiser alone may pass an empty/inverted region on (np.zeros refuses
            # it later); it must not invent rows: every axis it passes must lie in the matrix
            d = 1 if c['oi'] else 0
            s, e, s2, e2 = [v + d for v in out]
            a = ref_axis(c['R'], ai, rs, None) is not None and ref_axis(c['R'], ai, None, re) is not None
            b = ref_axis(c['C'], ai, cs, None) is not None and ref_axis(c['C'], ai, None, ce) is not None
            if a and b and (s > e or s2 > e2):
                return None       # start beyond end: refused downstream (checked in img/seg kinds)
            return f'arguments outside the documented conventions accepted: {out}'
        if isinstance(out, Err):
            return f'valid region refused: {out}'
        d = 0 if c['oi'] else 1
        want = [ref[0] + d, ref[1] + d, ref[2] + d, ref[3] + d]
        return None if list(out) == want else f'standardised to {out}, conventions denote {want}'
    if k == 'seg_reads':
        return _seg_reads_oracle(c, out)
    if k == 'img_free':
        # the frames cover the matrix: a valid region is its slice of the matrix - or the reader's
        # "frames are missing" refusal (its frame count assumes the regular grid; which of the two is
        # pinned by the model); never other values, never another error
        R, C = c['R'], c['C']
        px = np.array(c['px'], np.int64).reshape(R, C)
        for rg, o in zip(c['regions'], out):
            ref = ref_region(R, C, rg)
            if ref is None:
                if not isinstance(o, Err):
                    return f'region {rg} outside the conventions accepted: {str(o)[:120]}'
            elif isinstance(o, Err):
                if o.kind != 'RuntimeError':
                    return f'valid region {rg} refused with {o}'
            elif o != [px[ref[0]:ref[1], ref[2]:ref[3]].tolist()]:
                return (f"region {rg} of frames at {sorted(map(tuple, c['pos']))}: got {str(o)[:200]} expected TPM slice "
                        f'{str([px[ref[0]:ref[1], ref[2]:ref[3]].tolist()])[:200]}')
        return None
    if k in ('img', 'img_missing', 'img_dup', 'img_vol'):
        R, C, th, tw = c['R'], c['C'], c['th'], c['tw']
        px = np.array(c['px'], np.int64).reshape(R, C, c['samples'])
        planes = [px[:, :, s] for s in range(c['samples'])]
        missing = None
        if c['drop']:
            nc = -(-C // tw)
            missing = np.zeros((R, C), bool)
            for t in c['drop']:
                a, b = divmod(t, nc)
                missing[a * th:(a + 1) * th, b * tw:(b + 1) * tw] = True
        for rg, o in zip(c['regions'], out):
            if k == 'img_dup':
                if not (isinstance(o, Err)):
                    return f'region {rg}: image with two frames at one position was read: {str(o)[:80]}'
                continue
            exp = _expect_region(c, rg, planes, missing)
            if exp[0] == 'err':
                if not isinstance(o, Err):
                    return f'region {rg} outside the conventions accepted: {str(o)[:120]}'
            elif exp[0] == 'missing':
                if not isinstance(o, Err):
                    return f'region {rg} meets a missing tile but was returned: {str(o)[:120]}'
            elif exp[0] == 'either':
                if not isinstance(o, Err) and o != exp[1]:
                    return f'empty region {rg}: got {str(o)[:120]}'
            else:
                if isinstance(o, Err):
                    return f'valid region {rg} refused: {o}'
                if o != exp[1]:
                    return f'region {rg}: got {str(o)[:200]} expected TPM slice {str(exp[1])[:200]}'
        return None
    if k in SEG_TERM_KINDS:
        return _seg_oracle(c, c['R'], c['C'], c['th'], c['tw'], c['regions'], out, geom=False)
    if k in ('seg_geom', 'seg_geom_bad'):
        fl = _geom_flags(c)
        if fl['refused']:
            why = ('plane_positions must be one item at pixel matrix position (1, 1)' if fl['pp_bad'] else
                   f"total pixel matrix coincides with the source's {c['src'][:2]} but the mask is {c['R']}x{c['C']}")
            return None if (isinstance(out, Err) and out.kind == 'ValueError') else \
                f'{why}: must be refused with ValueError, got {str(out)[:80]}'
        th, tw = _eff_tile(c)
        return _seg_oracle(c, c['R'], c['C'], th, tw, c['regions'], out, geom=True)
    if k == 'seg_pyr':
        if isinstance(out, Err):
            return f'valid pyramid refused: {out}'
        if len(out) != len(c['shapes']):
            return f"{len(out)} levels created, {len(c['shapes'])} expected"
        for li, (r, cc) in enumerate(c['shapes']):
            if c['tile'] is not None:
                th, tw = c['tile']
            else:
                th, tw = c['src_tiles'][li] if c['mode'] == 'sources' else c['src'][2:]
            if li < len(c['levels']):
                lv = c['levels'][li]
                msg = _seg_oracle(dict(c, **lv), r, cc, th, tw, c['regions'][li], out[li], geom=True)
            else:
                # level resampled by the library: sizes, and constant masks stay constant
                o = out[li]
                msg = None
                if isinstance(o, Err):
                    msg = f'refused: {o}'
                elif o[1:5] != [th, tw, r, cc]:
                    msg = (f'declares Rows/Columns/TotalPixelMatrixRows/Columns {o[1:5]}, expected '
                           f'{[th, tw, r, cc]} (source matrix / factor {c["factors"][li - 1]})')
                else:
                    a = o[5]
                    if isinstance(a, Err):
                        msg = f'whole matrix refused: {a}'
                    else:
                        A = np.array(a)
                        if A.shape[-2:] != (r, cc):
                            msg = f'whole matrix has shape {A.shape[-2:]}, expected {(r, cc)}'
                        else:
                            L0 = np.array(c['levels'][0]['L'])
                            if c['inp'] == 'label' and (L0 == L0.flat[0]).all():
                                k0 = int(L0.flat[0])
                                scale = 255 if c['ty'] == 'FRACTIONAL' else 1
                                want = [scale if s_ == k0 else 0 for s_ in c['sel']]
                                if any((A[i] != w).any() for i, w in enumerate(want)):
                                    msg = f'constant mask {k0} resampled to a non-constant matrix'
            if msg is not None:
                return f'pyramid level {li} ({r}x{cc}): {msg}'
        return None
    if k == 'np1d':
        return None     # model-vs-numpy kind: the comparison itself is the check
    return f'unknown kind {k}'


def nontrivial(c, out):
    k = c['kind']
    if k in ('std', 'std_bad', 'img_dup', 'seg_full_omit', 'seg_geom_bad'):
        return True
    if k == 'seg_geom':
        th, tw = _eff_tile(c)
        nt = (-(-c['R'] // th)) * (-(-c['C'] // tw))
        return nt > 1 and any(r[1:] != [None, None, None, None] for r in c['regions'])
    if k == 'seg_pyr':
        return len(c['shapes']) > 1
    if k in ('seg_reads', 'seg_hist', 'img_hist', 'seg_nums', 'seg_frac', 'seg_free'):
        return True
    if k == 'img_free':
        return any(r[1:] != [None, None, None, None] for r in c['regions'])
    if k == 'np1d':
        return c['n'] > c['t']
    nt = (-(-c['R'] // c['th'])) * (-(-c['C'] // c['tw']))
    return nt > 1 and any(r[1:] != [None, None, None, None] for r in c['regions'])


def shrink(c):
    k = c['kind']
    if k == 'seg_pyr':
        return
    if k == 'seg_reads':
        if len(c['reads']) > 1:
            for i in range(len(c['reads'])):
                yield dict(c, reads=[c['reads'][i]])
        return
    if k in ('seg_frac', 'seg_free'):
        if len(c['reads']) > 1:
            for i in range(len(c['reads'])):
                yield dict(c, reads=c['reads'][:i] + c['reads'][i + 1:])
        for key in ('src', 'obj'):
            if c.get(key) == 'file':
                yield dict(c, **{key: 'mem'})
        if k == 'seg_frac':
            if any(v for pl in c['jit'] for row in pl for v in row):
                yield dict(c, jit=[[[0] * c['C'] for _ in range(c['R'])] for _ in range(c['nseg'])])
            for s_ in range(c['nseg']):
                for r in range(c['R']):
                    for cc in range(c['C']):
                        if c['lev'][s_][r][cc]:
                            lev = [[list(row) for row in pl] for pl in c['lev']]
                            lev[s_][r][cc] = 0
                            yield dict(c, lev=lev)
        else:
            for r in range(c['R']):
                for cc in range(c['C']):
                    if c['L'][r][cc]:
                        L2 = [list(x) for x in c['L']]
                        L2[r][cc] = 0
                        yield dict(c, L=L2)
        return
    if k in ('seg_hist', 'seg_nums'):
        # a history: drop one read at a time (the order of the others is kept)
        if len(c['reads']) > 1:
            for i in range(len(c['reads'])):
                w = c['hist']['warm']
                h2 = dict(c['hist'], warm=(w - 1 if (w is not None and w > i) else w))
                yield dict(c, reads=c['reads'][:i] + c['reads'][i + 1:], hist=h2)
        if c['hist']['scribble']:
            yield dict(c, hist=dict(c['hist'], scribble=False))
        if c['hist']['src'] != 'mem':
            yield dict(c, hist=dict(c['hist'], src='mem'))
        if c.get('mem'):
            yield dict(c, mem=None)
        return
    if k == 'img_hist':
        if len(c['regions']) > 1:
            for i in range(len(c['regions'])):
                w = c['hist']['warm']
                h2 = dict(c['hist'], warm=(w - 1 if (w is not None and w > i) else w),
                          dtypes=c['hist']['dtypes'][:i] + c['hist']['dtypes'][i + 1:])
                yield dict(c, regions=c['regions'][:i] + c['regions'][i + 1:], hist=h2)
        return
    if k in ('seg_mem', 'seg_frames') and c.get('mem'):
        m = c['mem']
        for key, v in (('clobber', False), ('ro', False), ('steps', [1, 1, 1, 1]), ('off', [0, 0, 0, 0]),
                       ('dtype', 'uint8'), ('order', [3, 2, 1, 0]), ('order', [0, 2, 1, 3])):
            if m[key] != v:
                yield dict(c, mem=dict(m, **{key: v}))
    if 'regions' in c and len(c['regions']) > 1:
        for i in range(len(c['regions'])):
            yield dict(c, regions=[c['regions'][i]])
    if 'regions' in c:
        for i, rg in enumerate(c['regions']):
            for j in range(1, 5):
                if rg[j] is not None:
                    r2 = list(rg)
                    r2[j] = None
                    yield dict(c, regions=c['regions'][:i] + [r2] + c['regions'][i + 1:])
    if k == 'seg_geom':
        if c['roundtrip']:
            yield dict(c, roundtrip=False)
        for key in ('spacing', 'ori', 'pp'):
            if c[key] is not None:
                c2 = dict(c, **{key: None})
                if _geom_flags(c2)['refused'] == _geom_flags(c)['refused']:
                    yield c2
    if k in ('seg', 'seg_mem', 'seg_frames', 'seg_geom'):
        if c['inp'] == 'label':
            L = c['L']
            for r in range(len(L)):
                for cc in range(len(L[0])):
                    if L[r][cc]:
                        L2 = [list(x) for x in L]
                        L2[r][cc] = 0
                        yield dict(c, L=L2)
        if k in ('seg', 'seg_mem', 'seg_frames') and c['nseg'] > 1 and c['inp'] == 'label' and max(max(r) for r in c['L']) < c['nseg']:
            yield dict(c, nseg=c['nseg'] - 1, sel=[s for s in c['sel'] if s < c['nseg']] or [1])
    if k in ('img', 'img_missing', 'img_vol') and c['samples'] == 3:
        yield dict(c, samples=1, px=[[[p[0]] for p in row] for row in c['px']])
    if k in ('img_missing', 'img_vol') and len(c['drop']) > 1:
        for d in c['drop']:
            yield dict(c, drop=[x for x in c['drop'] if x != d])


def extra_obligations(work):
    # T-int: the integer helpers this model mirrors, re-translated from the current source
    import translate_int
    return translate_int.obligations(work, translate_int.FOR['C04'])


if __name__ == '__main__':
    sys.exit(common.main(sys.modules[__name__]))
