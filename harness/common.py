"""Common machinery of the /verif checks (see DESIGN.md §2.3, §8).

Every property module ``harness/cNN.py`` defines

    PROPERTY   = 'C12'
    PROPS_FILE = 'C12_Props.v'          # property theorems + Print Assumptions
    COQ_IMPORTS = ['C12_Model']         # modules required by generated cases.v
    TOL = None | Fraction               # tolerance for VQ comparison in Coq
    ORACLE_PREMISES = [...]             # named external assumptions (strings)
    MODELLED = '...'                    # which code is modelled (free text)
    STRATA = [...]                      # case kinds that every run must draw
    gen_cases(rng, tier) -> list[dict]  # JSON-serialisable cases, key 'kind'
    run_impl(case) -> pyval             # runs the real highdicom code
    coq_term(case) -> str               # Coq term : val computing the model's
                                        #   answer for the same case
    oracle(case, out) -> None | str     # independent check of the PROPERTY on
                                        #   the implementation output
    nontrivial(case, out) -> bool
    shrink(case) -> iterable[dict]      # optional
    FINDINGS = {id: predicate(case)}    # optional, ids of KNOWN_FINDINGS.json

and calls ``common.main(sys.modules[__name__])``.
"""
import concurrent.futures as cf
import hashlib
import json
import os
import random
import re
import shutil
import subprocess
import sys
import time
import traceback
from fractions import Fraction

VERIF = os.path.dirname(os.path.dirname(os.path.abspath(__file__)))
COQ = os.path.join(VERIF, 'coq')
REPO = os.environ.get('VERIF_REPO', '/repo')
NPROC = int(os.environ.get('VERIF_JOBS', '16'))
# runs against a scratch worktree (seeded changes) keep their work files, replays and
# evidence apart from those of /repo itself, so they can run concurrently and never
# overwrite committed evidence
TAG = '' if os.path.realpath(REPO) == '/repo' else '-' + re.sub(r'[^A-Za-z0-9]+', '_', REPO).strip('_')

ALLOWED_AXIOMS = {
    # axioms declared by the standard library itself; each one that shows up
    # is copied into the evidence's trusted_base
    'functional_extensionality_dep', 'FunctionalExtensionality.functional_extensionality_dep',
    'classic', 'Classical_Prop.classic', 'proof_irrelevance',
    'ProofIrrelevance.proof_irrelevance', 'JMeq_eq', 'JMeq.JMeq_eq',
    'Eqdep.Eq_rect_eq.eq_rect_eq', 'eq_rect_eq', 'propositional_extensionality',
    'ClassicalDedekindReals.sig_forall_dec', 'ClassicalDedekindReals.sig_not_dec',
    'constructive_indefinite_description', 'constructive_definite_description',
}
FORBIDDEN = re.compile(
    r'\b(Admitted|admit|Axiom|Axioms|Parameter|Parameters|Conjecture|'
    r'Admit Obligations|bypass_check|native_compute)\b|Unset\s+Guard|'
    r'Unset\s+Positivity|Unset\s+Universe|type-in-type|impredicative-set')


# --------------------------------------------------------------------------
# implementation side
# --------------------------------------------------------------------------
class Err:
    """Canonical error value: the Python exception class name."""

    def __init__(self, kind):
        self.kind = kind

    def __eq__(self, o):
        return isinstance(o, Err) and o.kind == self.kind

    def __repr__(self):
        return f'Err({self.kind})'


def catch(fn, *a, **k):
    """Run fn; map the exception classes to the model's small enum."""
    try:
        return fn(*a, **k)
    except (ValueError, TypeError, IndexError, KeyError, AttributeError,
            RuntimeError, NotImplementedError, AssertionError,
            ZeroDivisionError, OverflowError) as e:  # noqa
        for c in (IndexError, KeyError, ValueError, TypeError, AttributeError,
                  NotImplementedError, RuntimeError, AssertionError,
                  ZeroDivisionError, OverflowError):
            if isinstance(e, c):
                return Err(c.__name__)
        return Err(type(e).__name__)


def install_stub():
    """Substitute IOD attribute table (DESIGN §1.1), only if the real one is
    missing.  Must be called before highdicom objects are used."""
    sys.path.insert(0, os.path.join(VERIF, 'harness'))
    import stub_modules
    stub_modules.install()


def import_highdicom():
    src = os.path.join(REPO, 'src')
    if sys.path[0] != src:
        sys.path.insert(0, src)
    install_stub()
    import highdicom
    assert os.path.abspath(highdicom.__file__).startswith(os.path.abspath(src)), \
        highdicom.__file__
    return highdicom


# --------------------------------------------------------------------------
# python value  ->  Coq [val] literal
# --------------------------------------------------------------------------
def zlit(n):
    n = int(n)
    return f'({n})' if n < 0 else f'{n}'


def qlit(q):
    q = Fraction(q)
    return f'(({q.numerator}) # {q.denominator})'


def coq_string(s):
    assert all(32 <= ord(ch) < 127 for ch in s), s
    return '"' + s.replace('"', '""') + '"'


def to_val(v):
    import numpy as np
    if isinstance(v, Err):
        return f'(VErr {coq_string(v.kind)})'
    if v is None:
        return 'VNone'
    if isinstance(v, (bool, np.bool_)):
        return '(VB true)' if v else '(VB false)'
    if isinstance(v, (int, np.integer)):
        return f'(VZ {zlit(v)})'
    if isinstance(v, Fraction):
        return f'(VQ {qlit(v)})'
    if isinstance(v, (float, np.floating)):
        f = float(v)
        if f != f or f in (float('inf'), float('-inf')):
            return f'(VS {coq_string(repr(f))})'
        return f'(VQ {qlit(Fraction(f))})'
    if isinstance(v, str):
        return f'(VS {coq_string(v)})'
    if isinstance(v, np.ndarray):
        return to_val(v.tolist())
    if isinstance(v, (list, tuple)):
        return '(VL [' + '; '.join(to_val(x) for x in v) + '])'
    raise TypeError(f'cannot render {type(v)}: {v!r}')


def jsonable(v):
    import numpy as np
    if isinstance(v, Err):
        return {'err': v.kind}
    if isinstance(v, Fraction):
        return {'q': [v.numerator, v.denominator]}
    if isinstance(v, np.ndarray):
        return jsonable(v.tolist())
    if isinstance(v, (np.integer,)):
        return int(v)
    if isinstance(v, (np.floating,)):
        return float(v)
    if isinstance(v, (np.bool_,)):
        return bool(v)
    if isinstance(v, float) and (v != v or v in (float('inf'), float('-inf'))):
        return repr(v)
    if isinstance(v, (list, tuple)):
        return [jsonable(x) for x in v]
    if isinstance(v, dict):
        return {str(k): jsonable(x) for k, x in v.items()}
    if isinstance(v, bytes):
        return v.hex()
    return v


def zl(xs):
    """Coq list Z literal."""
    return '[' + '; '.join(zlit(x) for x in xs) + ']'


def zll(xss):
    return '[' + '; '.join(zl(x) for x in xss) + ']'


def bl(xs):
    return '[' + '; '.join('true' if x else 'false' for x in xs) + ']'


def optz(x):
    return 'None' if x is None else f'(Some {zlit(x)})'


# --------------------------------------------------------------------------
# Coq side
# --------------------------------------------------------------------------
def sh(cmd, cwd=None, timeout=1800, env=None):
    p = subprocess.run(cmd, cwd=cwd, shell=isinstance(cmd, str), timeout=timeout,
                       stdout=subprocess.PIPE, stderr=subprocess.STDOUT, text=True,
                       env=env)
    return p.returncode, p.stdout


def coq_files():
    out = []
    for root, _, fs in os.walk(os.path.join(COQ, 'theories')):
        for f in sorted(fs):
            if f.endswith('.v'):
                out.append(os.path.relpath(os.path.join(root, f), COQ))
    return sorted(out)


def coq_configure():
    """(Re)generate _CoqProject and Makefile from the files present."""
    files = coq_files()
    proj = '-Q theories HD\n' + '\n'.join(files) + '\n'
    pth = os.path.join(COQ, '_CoqProject')
    old = open(pth).read() if os.path.exists(pth) else None
    if old != proj or not os.path.exists(os.path.join(COQ, 'Makefile')):
        open(pth, 'w').write(proj)
        rc, out = sh('coq_makefile -f _CoqProject -o Makefile', cwd=COQ)
        if rc != 0:
            raise RuntimeError('coq_makefile failed:\n' + out)


def coq_make(targets, keep_going=False, timeout=3000):
    """make under an exclusive lock (several checks may run concurrently)."""
    import fcntl
    with open(os.path.join(COQ, '.build.lock'), 'w') as lk:
        fcntl.flock(lk, fcntl.LOCK_EX)
        coq_configure()
        # address-space limit per coqc (a runaway vm_compute once took 48 GB and blocked every check)
        cmd = ('ulimit -v 14000000; exec timeout %d make -j%d %s%s'
               % (timeout, NPROC, '-k ' if keep_going else '', ' '.join(targets)))
        return sh(['bash', '-c', cmd], cwd=COQ, timeout=timeout + 60)


def coq_deps(rel):
    """Files of the development that `rel` (path relative to coq/) depends on,
    transitively (including itself), found from its Require lines."""
    allf = {os.path.splitext(os.path.relpath(f, 'theories'))[0].replace(os.sep, '.'): f for f in coq_files()}
    seen, todo = set(), [rel]
    while todo:
        f = todo.pop()
        if f in seen:
            continue
        seen.add(f)
        try:
            txt = open(os.path.join(COQ, f)).read()
        except OSError:
            continue
        txt = re.sub(r'\(\*.*?\*\)', '', txt, flags=re.S)
        for m in re.finditer(r'Require\s+(?:Import\s+|Export\s+)?(.*?)\.(?=\s|$)', txt, flags=re.S):
            for name in m.group(1).split():
                name = name.replace('HD.', '')
                if name in allf:
                    todo.append(allf[name])
    return sorted(seen)


def forbidden_scan(files=None):
    """grep for vernacular that would void the proofs."""
    hits = []
    for f in (files if files is not None else coq_files()):
        txt = open(os.path.join(COQ, f)).read()
        txt = re.sub(r'\(\*.*?\*\)', '', txt, flags=re.S)
        for m in FORBIDDEN.finditer(txt):
            hits.append(f'{f}: {m.group(0)}')
    return hits


def check_obligations(props_file):
    """Build the dependencies, then compile the Props file afresh and parse
    every `Print Assumptions`.  Returns (obligations, log_text)."""
    path = os.path.join('theories', props_file)
    src = open(os.path.join(COQ, path)).read()
    src_nc = re.sub(r'\(\*.*?\*\)', '', src, flags=re.S)
    names = re.findall(r'^\s*(?:Theorem|Lemma|Corollary|Example)\s+([A-Za-z0-9_\']+)', src_nc, flags=re.M)
    printed = re.findall(r'^\s*Print Assumptions\s+([A-Za-z0-9_\'.]+)\s*\.', src_nc, flags=re.M)
    obl = {n: {'name': n, 'status': 'not-checked', 'assumptions': None} for n in names}
    vo = path + 'o'
    import fcntl
    with open(os.path.join(COQ, '.props.lock'), 'w') as lk:
        fcntl.flock(lk, fcntl.LOCK_EX)
        try:
            os.remove(os.path.join(COQ, vo))
        except FileNotFoundError:
            pass
        rc, log = coq_make([vo])
    if rc != 0:
        # which theorem is the broken one?  best effort from the error text
        for o in obl.values():
            o['status'] = 'build-failed'
        return list(obl.values()), log
    # split log into chunks per Print Assumptions (they print in file order)
    chunks = re.split(r'(?=^(?:Closed under the global context|Axioms:))', log, flags=re.M)
    chunks = [c for c in chunks if c.startswith('Closed under') or c.startswith('Axioms:')]
    for n in names:
        if n not in printed:
            obl[n]['status'] = 'no-print-assumptions'
    for n, c in zip(printed, chunks):
        n = n.split('.')[-1]
        if n not in obl:
            continue
        if c.startswith('Closed under'):
            obl[n]['status'] = 'ok'
            obl[n]['assumptions'] = ['Closed under the global context']
        else:
            axs = re.findall(r'^([A-Za-z0-9_.\']+)\s*:', c[len('Axioms:'):], flags=re.M)
            obl[n]['assumptions'] = axs
            bad = [a for a in axs if a not in ALLOWED_AXIOMS and a.split('.')[-1] not in ALLOWED_AXIOMS]
            obl[n]['status'] = 'ok' if not bad else 'unexpected-axioms:' + ','.join(bad)
    if len(chunks) != len(printed):
        for n in printed:
            n = n.split('.')[-1]
            if n in obl and obl[n]['status'] == 'not-checked':
                obl[n]['status'] = 'assumptions-not-parsed'
    hits = forbidden_scan(coq_deps(path))
    if hits:
        for o in obl.values():
            o['status'] = 'forbidden-vernacular:' + ';'.join(hits[:3])
    return list(obl.values()), log


CASES_HEADER = '''From Coq Require Import ZArith List Bool String QArith.
Import ListNotations.
From HD Require Import Base.Val.
{imports}
Open Scope string_scope.
Open Scope Z_scope.
Set Printing Width 1000000.
Set Printing Depth 1000000.
'''


def _run_shard(args):
    workdir, idx, imports, tol, terms, expected = args
    name = f'Cases{idx}'
    path = os.path.join(workdir, name + '.v')
    with open(path, 'w') as f:
        f.write(CASES_HEADER.format(imports='\n'.join(f'From HD Require Import {m}.' for m in imports)))
        f.write('Definition results : list val := [\n  ' + ';\n  '.join(terms) + '\n].\n')
        f.write('Definition expected : list val := [\n  ' + ';\n  '.join(expected) + '\n].\n')
        if tol is None:
            f.write('Eval vm_compute in (mismatches results expected).\n')
        else:
            f.write(f'Eval vm_compute in (mismatches_tol {qlit(tol)} results expected).\n')
    cmd = f'ulimit -s unlimited 2>/dev/null; timeout 900 coqc -Q {COQ}/theories HD -Q {workdir} Work {path}'
    rc, out = sh(cmd, cwd=workdir, timeout=960)
    if rc != 0:
        return idx, None, out[-3000:]
    m = re.search(r'=\s*\[(.*?)\]\s*:\s*list nat', out, flags=re.S)
    if not m:
        return idx, None, out[-3000:]
    mism = [int(x) for x in re.findall(r'\d+', m.group(1))]
    return idx, mism, ''


def model_value(workdir, imports, term):
    """Print the model's value for one term (for replay files)."""
    path = os.path.join(workdir, 'One.v')
    with open(path, 'w') as f:
        f.write(CASES_HEADER.format(imports='\n'.join(f'From HD Require Import {m}.' for m in imports)))
        f.write(f'Eval vm_compute in ({term}).\n')
    rc, out = sh(f'timeout 300 coqc -Q {COQ}/theories HD {path}', cwd=workdir, timeout=330)
    return out.strip()[-4000:]


def run_model(workdir, imports, tol, terms, expected, shard=300):
    """Returns (mismatch_indices, errors)."""
    jobs = []
    for k in range(0, len(terms), shard):
        jobs.append((workdir, k // shard, imports, tol, terms[k:k + shard], expected[k:k + shard]))
    mism, errors = [], []
    with cf.ThreadPoolExecutor(max_workers=NPROC) as ex:
        for idx, mm, err in ex.map(_run_shard, jobs):
            if mm is None:
                errors.append(f'shard {idx}: {err}')
            else:
                mism += [idx * shard + i for i in mm]
    return sorted(mism), errors


# --------------------------------------------------------------------------
# driver
# --------------------------------------------------------------------------
def _impl_worker(arg):
    mod_name, case = arg
    mod = sys.modules[mod_name]
    try:
        out = mod.run_impl(case)
        try:
            o = mod.oracle(case, out)
        except Exception:
            o = 'oracle raised: ' + traceback.format_exc(limit=4)
        return out, o, None
    except Exception:
        return None, None, traceback.format_exc(limit=6)


def run_impl_all(mod, cases, parallel=True):
    args = [(mod.__name__, c) for c in cases]
    if parallel and len(cases) > 32 and NPROC > 1:
        import multiprocessing as mp
        ctx = mp.get_context('fork')
        with ctx.Pool(min(NPROC, 12)) as pool:
            return pool.map(_impl_worker, args, chunksize=max(1, len(args) // 64))
    return [_impl_worker(a) for a in args]


def load_findings(prop):
    p = os.path.join(VERIF, 'KNOWN_FINDINGS.json')
    if not os.path.exists(p):
        return []
    d = json.load(open(p))
    return [e for e in d.get('findings', []) if e.get('property') == prop]


def case_key(case):
    return hashlib.sha1(json.dumps(case, sort_keys=True, default=str).encode()).hexdigest()[:16]


def write_replay(prop, kind, payload):
    d = os.path.join(VERIF, 'replays', prop)
    os.makedirs(d, exist_ok=True)
    h = hashlib.sha1(json.dumps(payload, sort_keys=True, default=str).encode()).hexdigest()[:12]
    p = os.path.join(d, f'{kind}-{h}.json')
    payload = dict(payload, property=prop, kind=kind,
                   how_to_run=f'cd /verif && ./check {prop} --replay {p}')
    json.dump(jsonable(payload), open(p, 'w'), indent=1, default=str)
    return p


def do_shrink(mod, case, fails):
    if not hasattr(mod, 'shrink'):
        return case
    budget = 200
    cur = case
    progress = True
    while progress and budget > 0:
        progress = False
        for c in mod.shrink(cur):
            budget -= 1
            if budget <= 0:
                break
            try:
                if fails(c):
                    cur = c
                    progress = True
                    break
            except Exception:
                continue
    return cur


def corpus_cases(prop):
    d = os.path.join(VERIF, 'corpus', prop)
    out = []
    if os.path.isdir(d):
        for f in sorted(os.listdir(d)):
            if f.endswith('.json'):
                try:
                    c = json.load(open(os.path.join(d, f)))
                    out.append(c['case'] if 'case' in c and 'kind' not in c else c)
                except Exception:
                    pass
    return out


def main(mod):
    prop = mod.PROPERTY
    argv = sys.argv[1:]
    tier = os.environ.get('VERIF_TIER') or (argv[0] if argv and argv[0] in ('quick', 'thorough') else 'quick')
    seed = int(os.environ.get('VERIF_SEED', '0') or 0)
    if argv and argv[0] == '--replay':
        return replay(mod, argv[1])
    t0 = time.time()
    work = os.path.join(VERIF, '.work', f'{prop}{TAG}-{os.getpid()}')   # per process: concurrent runs do not collide
    shutil.rmtree(work, ignore_errors=True)
    os.makedirs(work, exist_ok=True)
    import_highdicom()

    # ---- L1: obligations ---------------------------------------------------
    obl, coqlog = check_obligations(mod.PROPS_FILE)
    n_obl = len(obl)
    n_ok = sum(1 for o in obl if o['status'] == 'ok')
    broken_obl = [o for o in obl if o['status'] != 'ok']
    extra_obl = []
    if hasattr(mod, 'extra_obligations'):
        # e.g. translator-generated files; returns list of dicts name/status
        extra_obl = mod.extra_obligations(work)
        n_obl += len(extra_obl)
        n_ok += sum(1 for o in extra_obl if o['status'] == 'ok')
        broken_obl += [o for o in extra_obl if o['status'] != 'ok']

    coqchk_summary = None
    if tier == 'thorough' and not any(o['status'] == 'build-failed' for o in obl):
        # independent re-check of the compiled Props file and everything it
        # depends on; -o lists the axioms of the whole context
        modname = 'HD.' + mod.PROPS_FILE[:-2]
        # a concurrent check of the same property removes and rebuilds the Props .vo (check_obligations); hold the
        # same lock while coqchk reads the compiled files, and retry once if it still failed
        import fcntl
        for _attempt in (0, 1):
            with open(os.path.join(COQ, '.props.lock'), 'w') as lk:
                fcntl.flock(lk, fcntl.LOCK_EX)
                if _attempt:
                    coq_make([mod.PROPS_FILE + 'o'])
                rc_chk, out_chk = sh(f'timeout 1500 coqchk -silent -o -Q theories HD {modname}', cwd=COQ, timeout=1600)
            if rc_chk == 0:
                break
        m_chk = re.search(r'CONTEXT SUMMARY.*', out_chk, flags=re.S)
        coqchk_summary = (m_chk.group(0) if m_chk else out_chk[-1500:]).strip()
        ax = re.search(r'\* Axioms:\s*(.*?)\n\s*\n', coqchk_summary + '\n\n', flags=re.S)
        ax_names = []
        if ax and '<none>' not in ax.group(1):
            ax_names = [ln.strip() for ln in ax.group(1).splitlines() if ln.strip()]
        bad_ax = [a for a in ax_names if a.split()[0] not in ALLOWED_AXIOMS and a.split()[0].split('.')[-1] not in ALLOWED_AXIOMS]
        n_obl += 1
        if rc_chk == 0 and not bad_ax and 'type-in-type: <none>' in coqchk_summary:
            n_ok += 1
            extra_obl = list(extra_obl) + [{'name': 'coqchk -o ' + modname, 'status': 'ok', 'assumptions': ax_names or ['<none>']}]
        else:
            o_bad = {'name': 'coqchk -o ' + modname, 'status': 'coqchk-failed', 'assumptions': ax_names}
            extra_obl = list(extra_obl) + [o_bad]
            broken_obl.append(o_bad)

    # ---- cases ---------------------------------------------------------------
    rng = random.Random(seed * 1000003 + 17)
    cases = corpus_cases(prop) + mod.gen_cases(rng, tier)
    kinds = {}
    for c in cases:
        kinds[c.get('kind', '?')] = kinds.get(c.get('kind', '?'), 0) + 1
    missing_strata = [s for s in getattr(mod, 'STRATA', []) if s not in kinds]

    # ---- implementation + oracle ---------------------------------------------
    res = run_impl_all(mod, cases, parallel=getattr(mod, 'PARALLEL', True))
    harness_errors = [(i, r[2]) for i, r in enumerate(res) if r[2] is not None]
    findings = load_findings(prop)
    open_ids = {f['id'] for f in findings if f.get('status') == 'open'}
    sigs = getattr(mod, 'FINDINGS', {})
    known_hit = {}
    violations = []
    for i, (out, o, err) in enumerate(res):
        if err is not None or o is None:
            continue
        fid = next((k for k, pred in sigs.items() if k in open_ids and pred(cases[i])), None)
        if fid:
            known_hit.setdefault(fid, cases[i])
        else:
            violations.append((i, o))

    # ---- L2: correspondence ----------------------------------------------------
    idx = [i for i, r in enumerate(res) if r[2] is None]
    terms, expected, idx2 = [], [], []
    for i in idx:
        t = mod.coq_term(cases[i])
        if t is None:
            continue      # case not modelled (oracle only)
        terms.append(t)
        expected.append(to_val(res[i][0]))
        idx2.append(i)
    mism, model_errors = ([], [])
    if terms and not any(o['status'] == 'build-failed' for o in obl):
        mism, model_errors = run_model(work, mod.COQ_IMPORTS, getattr(mod, 'TOL', None), terms, expected)
    elif terms:
        model_errors = ['model not built (Props build failed)']
    mism_cases = [idx2[j] for j in mism]
    # a disagreement on a case covered by an open finding is not a new alarm
    mism_new = [i for i in mism_cases
                if not any(k in open_ids and pred(cases[i]) for k, pred in sigs.items())]

    if os.environ.get('VERIF_DUMP_MISM') and mism_cases:
        # debugging aid: the model-vs-implementation disagreements of this run, whatever the verdict logic reports
        with open(os.environ['VERIF_DUMP_MISM'], 'w') as fh:
            json.dump([{'case': cases[i], 'impl_output': res[i][0]} for i in mism_cases[:20]], fh, default=str)

    # ---- verdict -----------------------------------------------------------------
    lines = []
    exit_code = 0
    n_viol = 0
    if violations:
        i, msg = violations[0]

        def fails(c):
            out = mod.run_impl(c)
            return mod.oracle(c, out) is not None
        small = do_shrink(mod, cases[i], fails)
        out_s = mod.run_impl(small)
        p = write_replay(prop, 'counterexample', {
            'seed': seed, 'case': small, 'original_case': cases[i],
            'impl_output': out_s, 'oracle_verdict': mod.oracle(small, out_s) or msg,
            'n_failing_cases': len(violations)})
        lines.append(f'VIOLATION property={prop} replay={p}')
        exit_code = 1
        n_viol = len(violations)
    elif broken_obl or mism_new or model_errors or harness_errors or missing_strata:
        # extended search for a concrete failing input (oracle only)
        found = None
        if broken_obl or mism_new or model_errors:
            rng2 = random.Random(seed * 7919 + 1)
            extra = mod.gen_cases(rng2, 'thorough' if tier == 'quick' else 'search')
            res2 = run_impl_all(mod, extra)
            for c, (out, o, err) in zip(extra, res2):
                if err is None and o is not None and not any(
                        k in open_ids and pred(c) for k, pred in sigs.items()):
                    found = (c, out, o)
                    break
        if found:
            c, out, o = found
            p = write_replay(prop, 'counterexample', {'seed': seed, 'case': c,
                             'impl_output': out, 'oracle_verdict': o})
            lines.append(f'VIOLATION property={prop} replay={p}')
        else:
            payload = {'seed': seed}
            if broken_obl:
                payload['broken_obligations'] = broken_obl
                payload['coq_log_tail'] = coqlog[-3000:]
            if mism_new:
                i = mism_new[0]
                payload['broken_correspondence'] = {
                    'case': cases[i], 'impl_output': res[i][0],
                    'model_term': mod.coq_term(cases[i]),
                    'model_output': model_value(work, mod.COQ_IMPORTS, mod.coq_term(cases[i])),
                    'n_disagreements': len(mism_new)}
            if model_errors:
                payload['model_errors'] = model_errors[:3]
            if harness_errors:
                payload['harness_errors'] = [{'case': cases[i], 'trace': t} for i, t in harness_errors[:3]]
            if missing_strata:
                payload['missing_strata'] = missing_strata
            kind = 'broken-obligation' if broken_obl else (
                'broken-correspondence' if (mism_new or model_errors) else 'harness-error')
            p = write_replay(prop, kind, payload)
            lines.append(f'VIOLATION property={prop} replay={p} no-failing-input-found')
        exit_code = 1
        n_viol = 1
    for f in findings:
        if f.get('status') == 'open':
            if f['id'] in known_hit or not sigs.get(f['id']):
                lines.insert(0, f"KNOWN-FINDING: property={prop} {f['id']} {f.get('what', '')}")

    # ---- evidence -------------------------------------------------------------------
    nontriv = set()
    for c, (out, o, err) in zip(cases, res):
        if err is None:
            try:
                if mod.nontrivial(c, out):
                    nontriv.add(case_key(c))
            except Exception:
                pass
    samples = []
    seen_k = set()
    for c, (out, o, err) in zip(cases, res):
        k = c.get('kind', '?')
        if k not in seen_k and err is None and len(samples) < 8:
            seen_k.add(k)
            s = json.dumps(jsonable({'case': c, 'impl_output': out}), default=str)
            samples.append(json.loads(s) if len(s) < 3000 else {'case_kind': k, 'truncated': s[:1500]})
    tb = ['coqc 8.16.1 kernel (vm_compute used; native_compute not used)']
    for o in obl:
        tb.append(f"Print Assumptions {o['name']}: " + (', '.join(o['assumptions']) if o['assumptions'] else o['status']))
    tb += ['oracle premise: ' + s for s in getattr(mod, 'ORACLE_PREMISES', [])]
    tb += ['correspondence harness (harness/common.py, harness/%s.py), Python 3.12, numpy, pydicom' % prop.lower(),
           'substitute IOD attribute table harness/stub_modules.py (only when highdicom._modules is empty)']
    ev = {
        'property_id': prop, 'tier': tier, 'seed': seed, 'level': 'proof',
        'coverage': {
            'obligations': n_obl, 'discharged': n_ok,
            'checker_cmd': f'cd /verif/coq && make theories/{mod.PROPS_FILE}o  (coqc 8.16.1, full .vo build; Print Assumptions parsed)',
            'trusted_base': tb,
            'theorems': [{'name': o['name'], 'status': o['status']} for o in obl + list(extra_obl)],
            'coqchk': coqchk_summary,
            'evaluations': len(cases),
            'distinct_nontrivial': len(nontriv),
            'rule': getattr(mod, 'RULE', 'see harness module docstring'),
            'samples': samples,
            'distribution': kinds,
            'model_compared': len(terms),
            'disagreements': len(mism_cases),
            'disagreements_on_known_findings': len(mism_cases) - len(mism_new),
            'model_errors': model_errors[:3],
            'harness_errors': len(harness_errors),
            'oracle_failures': len(violations),
            'known_findings_hit': sorted(known_hit),
            'modelled': getattr(mod, 'MODELLED', ''),
            'not_executed': getattr(mod, 'NOT_EXECUTED', []),
            'exhaustive': bool(getattr(mod, 'EXHAUSTIVE', {}).get(tier, False)),
        },
        'assumptions': list(getattr(mod, 'ORACLE_PREMISES', [])) + [
            'model written by hand; tied to /repo/src by running model (vm_compute inside coqc) and implementation on the same cases'],
        'wall_s': round(time.time() - t0, 2),
        'violations': n_viol,
    }
    ev_dir = os.path.join(VERIF, 'evidence') if not TAG else os.path.join(VERIF, '.work', 'evidence' + TAG)
    os.makedirs(ev_dir, exist_ok=True)
    json.dump(ev, open(os.path.join(ev_dir, f'{prop}.json'), 'w'), indent=1, default=str)
    shutil.rmtree(work, ignore_errors=True)
    for ln in lines:
        print(ln)
    print(f'{prop} {tier}: obligations {n_ok}/{n_obl}, cases {len(cases)} '
          f'(nontrivial {len(nontriv)}), model-compared {len(terms)}, disagreements {len(mism_cases)}, '
          f'oracle failures {len(violations)}, harness errors {len(harness_errors)}, '
          f'{ev["wall_s"]} s -> {"FAIL" if exit_code else "ok"}')
    if harness_errors and exit_code:
        print(harness_errors[0][1])
    sys.stdout.flush()
    return exit_code


def replay(mod, path):
    import_highdicom()
    d = json.load(open(path))
    case = d.get('case') or (d.get('broken_correspondence') or {}).get('case')
    if case is None:
        print('replay file names a broken obligation, not an input:')
        print(json.dumps(d.get('broken_obligations') or d, indent=1)[:3000])
        obl, _ = check_obligations(mod.PROPS_FILE)
        bad = [o for o in obl if o['status'] != 'ok']
        print('still broken:' if bad else 'all obligations check now', bad)
        return 1 if bad else 0
    out = mod.run_impl(case)
    o = mod.oracle(case, out)
    print('case:', json.dumps(case))
    print('impl output:', jsonable(out))
    print('oracle:', o or 'property holds on this case')
    work = os.path.join(VERIF, '.work', mod.PROPERTY + '-replay')
    os.makedirs(work, exist_ok=True)
    t = mod.coq_term(case)
    corr_bad = False
    if t is not None:
        coq_make(['theories/' + mod.PROPS_FILE + 'o'])
        mm, errs = run_model(work, mod.COQ_IMPORTS, getattr(mod, 'TOL', None), [t], [to_val(out)])
        print('model output:', model_value(work, mod.COQ_IMPORTS, t))
        corr_bad = bool(mm or errs)
        print('correspondence:', 'DISAGREE' if corr_bad else 'agree')
    shutil.rmtree(work, ignore_errors=True)
    return 1 if (o or corr_bad) else 0
