"""T-tables for C07: fail-closed translator of the literal validation tables of
highdicom.frame.encode_frame (and of pydicom's ENCODING_PROFILES for the codecs
frame.py hands over to pydicom) into a Coq term of type C07_Model.tables.

Every run of `./check C07` regenerates `<work>/C07_TablesGen.v` from the CURRENT
source ($VERIF_REPO/src/highdicom/frame.py) and compiles

  * C07_TablesGen.v     gen_tables, gen_matrix_ok (boolean sweep of the whole
                        parameter matrix against `representable`), and the lifted
                        theorem gen_accept_table_sound + Print Assumptions;
  * C07_TablesGenEq.v   gen_tables = default_tables (the tables the hand model
                        and the proved theorems use are the tables in the source).

Anything the translator does not recognise (a table that moved, a new name, a
different number of `raise` statements in the cascade) is reported as a broken
obligation instead of being guessed.
"""
import ast
import os
import re

import common

TS_NAMES = {
    'ImplicitVRLittleEndian': 'TImplicit', 'ExplicitVRLittleEndian': 'TExplicit',
    'RLELossless': 'TRLE', 'JPEGLSLossless': 'TJLS', 'JPEGLSNearLossless': 'TJLSNear',
    'JPEG2000Lossless': 'TJ2KL', 'JPEG2000': 'TJ2K', 'JPEGBaseline8Bit': 'TJPEG',
}
PI_STR = {'MONOCHROME1': 'MONO1', 'MONOCHROME2': 'MONO2', 'PALETTE COLOR': 'PALETTE', 'RGB': 'RGB',
          'YBR_FULL': 'YBR_FULL', 'YBR_FULL_422': 'YBR_FULL_422', 'YBR_PARTIAL_420': 'YBR_PARTIAL_420',
          'YBR_ICT': 'YBR_ICT', 'YBR_RCT': 'YBR_RCT'}
PI_ENUM = {'MONOCHROME1': 'MONO1', 'MONOCHROME2': 'MONO2', 'PALETTE_COLOR': 'PALETTE', 'RGB': 'RGB',
           'YBR_FULL': 'YBR_FULL', 'YBR_FULL_422': 'YBR_FULL_422', 'YBR_PARTIAL_420': 'YBR_PARTIAL_420',
           'YBR_ICT': 'YBR_ICT', 'YBR_RCT': 'YBR_RCT'}
# shape of the cascade the hand model mirrors: exception classes of the `raise`
# statements of encode_frame / decode_frame, in source order
EXPECTED_RAISES = {
    'encode_frame': ['ValueError'] * 26 + ['ModuleNotFoundError'],
    'decode_frame': ['ValueError'],
}


class Refuse(Exception):
    pass


def _one(xs, what):
    xs = list(xs)
    if len(xs) != 1:
        raise Refuse(f'expected exactly one {what}, found {len(xs)}')
    return xs[0]


def _ts(node):
    if isinstance(node, ast.Name) and node.id in TS_NAMES:
        return TS_NAMES[node.id]
    raise Refuse(f'unknown transfer syntax expression {ast.unparse(node)}')


def _pi(node):
    if isinstance(node, ast.Constant) and node.value in PI_STR:
        return PI_STR[node.value]
    if (isinstance(node, ast.Attribute) and isinstance(node.value, ast.Name)
            and node.value.id == 'PhotometricInterpretationValues' and node.attr in PI_ENUM):
        return PI_ENUM[node.attr]
    raise Refuse(f'unknown photometric interpretation expression {ast.unparse(node)}')


def _int(node):
    if isinstance(node, ast.Constant) and isinstance(node.value, int) and not isinstance(node.value, bool):
        return node.value
    raise Refuse(f'not an integer literal: {ast.unparse(node)}')


def _seq(node):
    if isinstance(node, (ast.Tuple, ast.List, ast.Set)):
        return node.elts
    raise Refuse(f'not a literal collection: {ast.unparse(node)}')


def _assign(fn, name):
    hits = [n for n in ast.walk(fn) if isinstance(n, ast.Assign) and len(n.targets) == 1
            and isinstance(n.targets[0], ast.Name) and n.targets[0].id == name]
    return _one(hits, f'assignment to {name}').value


def _if_with_test(node, text):
    hits = [n for n in ast.walk(node) if isinstance(n, ast.If) and ast.unparse(n.test) == text]
    return _one(hits, f'`if {text}`')


def _walk_body(stmts):
    for s in stmts:
        yield from ast.walk(s)


def _compare(stmts, left, op):
    """the unique comparison `<left> <op> <literal>` below the given statements"""
    hits = [n for n in _walk_body(stmts) if isinstance(n, ast.Compare) and len(n.ops) == 1
            and isinstance(n.ops[0], op) and ast.unparse(n.left) == left]
    return _one(hits, f'comparison {left} {op.__name__}').comparators[0]


def _own_compare(if_node, left, op, skip=()):
    """comparison in the body of if_node, not inside the nested ifs listed in skip"""
    stmts = [s for s in if_node.body if s not in skip]
    return _compare(stmts, left, op)


def extract_frame_tables(path):
    tree = ast.parse(open(path).read())
    fns = {n.name: n for n in tree.body if isinstance(n, ast.FunctionDef)}
    for fname, want in EXPECTED_RAISES.items():
        if fname not in fns:
            raise Refuse(f'{fname} not found in {path}')
        got = []
        for n in ast.walk(fns[fname]):
            if isinstance(n, ast.Raise):
                e = n.exc.func if isinstance(n.exc, ast.Call) else n.exc
                got.append(ast.unparse(e))
        # ast.walk is breadth first: compare as multisets plus the count
        if sorted(got) != sorted(want):
            raise Refuse(f'{fname}: {len(got)} raise statements {sorted(set(got))}, the model mirrors '
                         f'{len(want)}; the validation cascade changed shape - re-model it')
    fn = fns['encode_frame']
    t = {}
    t['uncompressed'] = [_ts(e) for e in _seq(_assign(fn, 'uncompressed_transfer_syntaxes'))]
    t['compressed'] = [_ts(e) for e in _seq(_assign(fn, 'compressed_transfer_syntaxes'))]
    sup = ast.unparse(_assign(fn, 'supported_transfer_syntaxes'))
    if sup != 'uncompressed_transfer_syntaxes.union(compressed_transfer_syntaxes)':
        raise Refuse(f'supported_transfer_syntaxes = {sup}')
    ap = _assign(fn, 'allowable_pis')
    if not (isinstance(ap, ast.Subscript) and isinstance(ap.value, ast.Dict)
            and ast.unparse(ap.slice) == 'samples_per_pixel'):
        raise Refuse('allowable_pis is not a dict literal indexed by samples_per_pixel')
    t['native_pis'] = [(_int(k), [_pi(e) for e in _seq(v)]) for k, v in zip(ap.value.keys, ap.value.values)]
    # bits_stored range (fix D69)
    _if_with_test(fn, 'not 1 <= bits_stored <= bits_allocated')
    # --- JPEG baseline branch
    native_if = _if_with_test(fn, 'transfer_syntax_uid in uncompressed_transfer_syntaxes')
    jpeg_if = _one([n for n in native_if.orelse if isinstance(n, ast.If)], 'elif after the native branch')
    if ast.unparse(jpeg_if.test) != 'transfer_syntax_uid == JPEGBaseline8Bit':
        raise Refuse('second branch is not JPEGBaseline8Bit')
    t['jpeg_mono'] = [_pi(e) for e in _seq(_compare(jpeg_if.body, 'photometric_interpretation', ast.NotIn))]
    t['jpeg_color'] = _pi(_compare(jpeg_if.body, 'photometric_interpretation', ast.NotEq))
    ba = _int(_compare(jpeg_if.body, 'bits_allocated', ast.NotEq))
    bs = _int(_compare(jpeg_if.body, 'bits_stored', ast.NotEq))
    if ba != bs:
        raise Refuse('JPEG baseline: bits_allocated and bits_stored literals differ')
    t['jpeg_bits'] = ba
    # --- generic codec branch
    codec = jpeg_if.orelse
    name = _one([n for n in codec if isinstance(n, ast.Assign) and ast.unparse(n.targets[0]) == 'name'],
                'name = {...}[transfer_syntax_uid]').value
    if not (isinstance(name, ast.Subscript) and isinstance(name.value, ast.Dict)):
        raise Refuse('name is not a dict literal')
    t['codec_names'] = [_ts(k) for k in name.value.keys]
    top_ifs = [n for n in codec if isinstance(n, ast.If)]
    spp_if = _one([n for n in top_ifs if ast.unparse(n.test).startswith('samples_per_pixel not in')], 'spp check')
    t['codec_spp'] = [_int(e) for e in _seq(spp_if.test.comparators[0])]
    nonrle = _one([n for n in top_ifs if ast.unparse(n.test) == 'transfer_syntax_uid != RLELossless'],
                  '`if transfer_syntax_uid != RLELossless`')
    mono_if = _one([n for n in nonrle.body if isinstance(n, ast.If)
                    and ast.unparse(n.test) == 'samples_per_pixel == 1'], 'mono branch')
    j2kl_if = _one([n for n in mono_if.body if isinstance(n, ast.If)
                    and ast.unparse(n.test) == 'transfer_syntax_uid == JPEG2000Lossless'], 'J2K lossless bits branch')
    t['mono_pis'] = [_pi(e) for e in _seq(_own_compare(mono_if, 'photometric_interpretation', ast.NotIn))]
    t['mono_bits_j2kl'] = [_int(e) for e in _seq(_compare(j2kl_if.body, 'bits_allocated', ast.NotIn))]
    t['mono_bits'] = [_int(e) for e in _seq(_compare(j2kl_if.orelse, 'bits_allocated', ast.NotIn))]
    color_if = _one([n for n in mono_if.orelse if isinstance(n, ast.If)], 'colour branch')
    if ast.unparse(color_if.test) != 'samples_per_pixel == 3':
        raise Refuse('colour branch test changed')
    t['color_bits'] = [_int(e) for e in _seq(_compare(color_if.body, 'bits_allocated', ast.NotIn))]
    rq = _one([n for n in color_if.body if isinstance(n, ast.Assign)
               and ast.unparse(n.targets[0]) == 'required_pi'], 'required_pi').value
    if not (isinstance(rq, ast.Subscript) and isinstance(rq.value, ast.Dict)
            and ast.unparse(rq.slice) == 'transfer_syntax_uid'):
        raise Refuse('required_pi is not a dict literal indexed by transfer_syntax_uid')
    t['required_pi'] = [(_ts(k), _pi(v)) for k, v in zip(rq.value.keys, rq.value.values)]
    # RLE container rule (fix D70)
    rle_if = _one([n for n in top_ifs if 'RLELossless' in ast.unparse(n.test) and 'bits_stored' in ast.unparse(n.test)],
                  'RLE bits rule')
    m = re.fullmatch(r'transfer_syntax_uid == RLELossless and bits_allocated > (\d+) and bits_stored <= (\d+)',
                     re.sub(r'[()]', '', ast.unparse(rle_if.test)))
    if not m or m.group(1) != m.group(2):
        raise Refuse(f'RLE rule: {ast.unparse(rle_if.test)}')
    t['rle_min_alloc'] = int(m.group(1))
    # JPEG 2000 minimum size
    size_if = _one([n for n in ast.walk(fn) if isinstance(n, ast.If) and 'array.shape[0] <' in ast.unparse(n.test)],
                   'minimum size rule')
    m = re.fullmatch(r'array.shape\[0\] < (\d+) or array.shape\[1\] < (\d+)', ast.unparse(size_if.test))
    if not m or m.group(1) != m.group(2):
        raise Refuse(f'size rule: {ast.unparse(size_if.test)}')
    t['j2k_min_size'] = int(m.group(1))
    return t


def extract_pydicom_profiles(codec_names):
    import pydicom.pixels.encoders.base as base
    tree = ast.parse(open(base.__file__).read())
    hits = [n for n in tree.body if isinstance(n, ast.AnnAssign) and ast.unparse(n.target) == 'ENCODING_PROFILES']
    d = _one(hits, 'ENCODING_PROFILES').value
    if not isinstance(d, ast.Dict):
        raise Refuse('ENCODING_PROFILES is not a dict literal')
    out = []
    for k, v in zip(d.keys, d.values):
        if not (isinstance(k, ast.Name) and k.id in TS_NAMES and TS_NAMES[k.id] in codec_names):
            continue
        rows = []
        for tup in _seq(v):
            pi, spp, reps, allocs, stored = _seq(tup)
            if not (isinstance(stored, ast.Call) and ast.unparse(stored.func) == 'range' and len(stored.args) == 2):
                raise Refuse(f'profile bits stored is not range(a, b): {ast.unparse(stored)}')
            rows.append((_pi(pi), _int(spp), [_int(e) for e in _seq(reps)], [_int(e) for e in _seq(allocs)],
                         (_int(stored.args[0]), _int(stored.args[1]) - 1)))
        out.append((TS_NAMES[k.id], rows))
    return out


def _l(xs):
    return '[' + '; '.join(str(x) for x in xs) + ']'


def render(t, profiles):
    prof = _l(f"({ts}, {_l(f'({pi}, {spp}, {_l(reps)}, {_l(allocs)}, ({lo}, {hi}))' for pi, spp, reps, allocs, (lo, hi) in rows)})"
              for ts, rows in profiles)
    fields = [
        _l(t['uncompressed']), _l(t['compressed']),
        _l(f'({k}, {_l(v)})' for k, v in t['native_pis']),
        _l(t['jpeg_mono']), t['jpeg_color'], str(t['jpeg_bits']),
        _l(t['codec_names']), _l(t['codec_spp']), _l(t['mono_pis']),
        _l(t['mono_bits_j2kl']), _l(t['mono_bits']), _l(t['color_bits']),
        _l(f'({k}, {v})' for k, v in t['required_pi']),
        str(t['j2k_min_size']), str(t['rle_min_alloc']), prof,
    ]
    return '(mkT\n  ' + '\n  '.join(fields) + ')'


GEN = '''(* GENERATED by harness/translate_c07.py from {src} - do not edit *)
From Coq Require Import String ZArith List Bool.
From HD Require Import Base.Val C07_Model C07_Proofs_Table.
Import ListNotations.
Open Scope Z_scope.

Definition gen_tables : tables :=
{tables}.

Theorem gen_matrix_ok : matrix_ok gen_tables = true.
Proof.
  first [ change gen_tables with default_tables; exact matrix_ok_default
        | vm_compute; reflexivity ].
Qed.

Theorem gen_accept_table_sound : forall ts sh ba bs pi pr pl dt sz lo hi,
  In sh dom_shape -> In ba dom_alloc -> In bs dom_stored -> In pr dom_pixrep -> In pl dom_planar ->
  In dt dom_dtype -> In sz dom_size ->
  accepts gen_tables (cell ts sh ba bs pi pr pl dt sz) lo hi = true ->
  representable (cell ts sh ba bs pi pr pl dt sz) = true \\/ open_gap (cell ts sh ba bs pi pr pl dt sz) = true.
Proof. exact (accept_table_sound_T gen_tables gen_matrix_ok). Qed.
Print Assumptions gen_accept_table_sound.
'''

GENEQ = '''(* GENERATED by harness/translate_c07.py - do not edit *)
From Coq Require Import String ZArith List Bool.
From HD Require Import Base.Val C07_Model.
From Work Require Import C07_TablesGen.
Theorem gen_tables_are_model_tables : gen_tables = default_tables.
Proof. reflexivity. Qed.
Print Assumptions gen_tables_are_model_tables.
'''


def obligations(work):
    names = ['T-tables: translate frame.py + pydicom ENCODING_PROFILES',
             'T-tables: gen_accept_table_sound (whole matrix, regenerated tables)',
             'T-tables: gen_tables = default_tables']
    src = os.path.join(common.REPO, 'src', 'highdicom', 'frame.py')
    try:
        t = extract_frame_tables(src)
        profiles = extract_pydicom_profiles(t['codec_names'])
        text = GEN.format(src=src, tables=render(t, profiles))
    except (Refuse, SyntaxError, OSError, ValueError, KeyError, AttributeError, IndexError) as e:
        msg = f'translator-refused: {type(e).__name__}: {e}'[:300]
        return [{'name': names[0], 'status': msg}] + [{'name': n, 'status': 'not-checked'} for n in names[1:]]
    out = [{'name': names[0], 'status': 'ok'}]
    open(os.path.join(work, 'C07_TablesGen.v'), 'w').write(text)
    open(os.path.join(work, 'C07_TablesGenEq.v'), 'w').write(GENEQ)
    coqc = f'timeout 600 coqc -Q {common.COQ}/theories HD -Q {work} Work '
    rc, log = common.sh(coqc + os.path.join(work, 'C07_TablesGen.v'), cwd=work, timeout=660)
    ok = rc == 0 and 'Closed under the global context' in log
    out.append({'name': names[1], 'status': 'ok' if ok else 'broken: ' + log.strip()[-300:]})
    if rc != 0:
        out.append({'name': names[2], 'status': 'not-checked'})
        return out
    rc, log = common.sh(coqc + os.path.join(work, 'C07_TablesGenEq.v'), cwd=work, timeout=660)
    ok = rc == 0 and 'Closed under the global context' in log
    out.append({'name': names[2], 'status': 'ok' if ok else 'broken: ' + log.strip()[-300:]})
    return out


if __name__ == '__main__':
    import sys
    t = extract_frame_tables(os.path.join(common.REPO, 'src', 'highdicom', 'frame.py'))
    print(render(t, extract_pydicom_profiles(t['codec_names'])))
