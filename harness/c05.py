"""C05 - every way of fetching stored frames returns the same pixels.

Implementation entry points driven (real code from $VERIF_REPO/src):
  hd.imread (eager / lazy; path, bytes, file object, BytesIO), hd.Image.from_dataset,
  Image.get_stored_frame / get_stored_frames / pixel_array / get_raw_frame,
  Image.get_frames / get_frame with every transform switched off,
  highdicom.frame.decode_frame, highdicom.io.ImageFileReader.read_frame / read_frame_raw
  (and through them _standardize_frame_index, _read_metadata, _get_bot, _read_bot,
  _build_bot, _read_eot).
Model: coq/theories/C05_Model.v; theorems: C05_Props.v.
"""
import hashlib
import io
import os
import struct
import sys
import tempfile
import warnings

sys.path.insert(0, os.path.dirname(os.path.abspath(__file__)))
import common
from common import Err, zlit, zl

PROPERTY = 'C05'
PROPS_FILE = 'C05_Props.v'
COQ_IMPORTS = ['C05_Model']
TOL = None
ORACLE_PREMISES = [
    'pydicom dcmread/save_as deliver the PixelData value bytes and the image-pixel attributes unchanged',
    'numpy frombuffer little-endian views and pydicom unpack_bits / _correct_unused_bits / reshape_pixel_array behave '
    'as modelled (le_word, byte_bits, fix_stored, deplane); exercised on every native / planar / history case against '
    'an independent numpy decode',
    'pydicom recognises an edited image by the ids of the pixel-describing element values (equal ids <-> equal '
    'values; the harness keeps replaced values alive so that ids are not reused)',
    'pydicom read_tag / read_UL / parse_basic_offsets parse item headers (item-level model of the encapsulated stream)',
    'get_frames / get_frame with every apply_* transform False and an integer dtype: _CombinedPixelTransform decodes '
    '(decode_frame) / casts only',
    'codecs (RLE, JPEG-LS, JPEG baseline) are deterministic functions of the frame bytes; '
    'pydicom.encaps.get_frame returns the fragments of frame i (eager raw path)',
]
MODELLED = ('image._standardize_frame_index, get_raw_frame (native byte range incl. bit-packed), path selection of '
            'get_stored_frame(s)/pixel_array; io._read_metadata (native offset table; extended/basic/rebuilt table '
            'choice), _get_bot, _build_bot, _read_eot length check, read_frame_raw (native + encapsulated, item '
            'level); frame.decode_frame native branch (bit window, little-endian words, BitsStored correction, '
            'planar configuration handed to the one-frame dataset); in-memory image with pydicom\'s cache of the '
            'decoded array (Dataset.pixel_array validation, reset on PixelData assignment) under histories of reads '
            'and edits: get_stored_frame / get_stored_frames / pixel_array / get_raw_frame / decode_frame(raw); '
            'the same for a lazily read image (Image.pixel_array lazy branch: self._pixel_array validated against '
            'get_image_pixel_ids, dropped and re-read when stale); encapsulated streams at BYTE level (fragment payloads, _build_bot marker detection FF D8 / '
            'FF 4F, b"".join(fragments)) through ImageFileReader.read_frame_raw and through hd.imread(lazy).get_raw_frame; '
            'native read_frame_raw on the bytes of the file (_read_metadata header_offset 8 / 12, trailing elements); '
            'get_stored_frames and get_frames (transforms off: same case split incl. the number_of_frames == 1 test of the '
            'D108 fix) for requests in ANY order / with repeats / of any length, on the in-memory and the lazily read '
            'image, cold and warm (batch_order, and as read ops of history / lazy_history); the lazily read image under '
            'GEOMETRY edits (Rows / Columns / NumberOfFrames / BitsAllocated; state after the D118 fix: read_frame_raw '
            'computes the native frame offset from the current metadata): gimg / read_frame_raw_cur with nothing cached, '
            'limg with pixel_array among the reads; frame_numbers=None of get_stored_frames / get_frames '
            '(default_request); the lazily read ENCAPSULATED image after NumberOfFrames was edited (the table of the '
            'moment the file was opened + the current NumberOfFrames: lazy_raw_enc_bytes_edited)')
STRATA = ['native', 'index', 'reader_index', 'reader_neg', 'raw422', 'encaps', 'encaps_bad', 'codec', 'codec1', 'fixture',
          'planar', 'history', 'lazy_history', 'batch_order', 'lazy_geometry']
NOT_EXECUTED = ['JPEG 2000 fixtures (no openjpeg codec installed, none decodable here)',
                'big-endian transfer syntaxes (rejected by _check_little_endian)']
RULE = ('native: BitsAllocated 1/8/16/32 x signed x 1|3 samples x 1..6 frames, rows/cols 1..7 (every residue of '
        'pixels-per-frame mod 8 when bit-packed), random bytes in ALL bits (so BitsStored < BitsAllocated is hit), '
        'implicit/explicit VR, source dataset/path/bytes/file object/BytesIO, eager+lazy+cached; index: frame numbers '
        '-1,0,1,n-1,n,n+1 x as_index through 7 entry points; reader_index: ImageFileReader.read_frame_raw on '
        '-n-1..n+1 (reader_neg: negatives must be refused); raw422: YBR_FULL_422 native byte ranges + all paths; encaps: random fragmentations, markers, basic/empty/wrong/extended tables, malformed items; '
        'codec: RLE/JPEG-LS synthetic x 1-3 fragments per frame x offset table basic/none/extended x source; codec1: '
        'single-frame objects WITHOUT NumberOfFrames (CT/DX IOD) x RLE|JPEG-LS x 1-4 fragments x table x all 5 sources; '
        'every codec/fixture case: each access route called FIRST on a fresh image (stored frame, raw frame, batch, '
        'pixel_array) and again after the others, eager + lazy + ImageFileReader; fixture: shipped JPEG-LS (with '
        'and without BOT) and JPEG baseline files. planar: native colour images, 8/16/32 bit, signed and '
        'unsigned, PlanarConfiguration 0 and 1 (colour-by-plane), all paths x sources as for native; history: '
        'in-memory image (dataset / bytes / path), mono, bit-packed and colour, random sequences of reads '
        '(pixel_array, get_stored_frame, get_stored_frames, get_raw_frame, decode_frame(raw)) and edits '
        '(PixelData assigned, PixelData element value replaced in place, PixelRepresentation / BitsStored / '
        'Rows<->Columns / PlanarConfiguration changed), every kind of read first after every kind of edit with '
        'a warm and a cold cache; values, dtype and shape observed; NumberOfFrames / BitsAllocated changed together '
        'with a PixelData of the matching length. lazy_history: the same reads on a lazily read image (bytes / path / '
        'file object / BytesIO) with header edits (PixelRepresentation, BitsStored, Rows<->Columns, '
        'PlanarConfiguration), every kind of read first after an edit with pixel_array called before the edit (warm: '
        'finding D105, fixed) and not (cold). encaps / encaps_bad: returned BYTES '
        'compared, reader and lazily read Image (frame numbers and indices); reader_index: 40 % of the files carry a '
        'Data Set Trailing Padding element after PixelData. non-trivial = more than one frame or a '
        'rejected request (history: at least one edit). batch_order: native mono / bit-packed / colour (both planar '
        'configurations) images of 1..8 frames opened four ways (in-memory or eagerly read cold, the same after '
        'pixel_array, lazily read cold, lazily read after pixel_array) x 3 requests per image drawn from the order '
        'classes rotation (k-cycle, k >= 3), shuffle (sparse or full), repeat, long (longer than the image), '
        'ascending, descending, pairwise swapped, single, invalid (one number outside the image at a random '
        'position) x frame numbers | indices x list | tuple | one-shot iterator | numpy array, through '
        'get_stored_frames and get_frames(dtype=int64, all transforms off); the images live on from request to '
        'request; single-frame colour images with a warm cache included (D108). The same request classes are the '
        'batch / frames reads of history and lazy_history, and every codec / fixture case is also read by a '
        'shuffled + repeated batch first on a fresh image and by get_frames cold and warm (oracle only). '
        'lazy_geometry: lazily read native image (mono / bit-packed / colour, 1..4 frames, bytes / path / file object / '
        'BytesIO) x geometry edits that leave a valid image for the same PixelData - swap Rows<->Columns, refactor '
        'Rows x Columns, fewer frames, BitsAllocated 8/16/32 with Columns rescaled, smaller frames (shrink), smaller '
        'frames and MORE frames than the file was opened with (more), larger frames and fewer of them (grow), back to '
        'the original; the classes shrink / more / grow are drawn until the offset table computed at open time would '
        'misplace a frame (D118) - each edit followed by every frame one at a time, an index read, shuffled batches '
        'through get_stored_frames and get_frames, frame_numbers=None, raw frame, decode of a raw frame, a number '
        'outside the image; 1/3 of the cases with pixel_array before and between the edits (cache of the lazily read '
        'image); model-compared AND judged by the numpy decode of the CURRENT description. encaps: additionally the '
        'lazily read image with NumberOfFrames edited to 1 .. n + 1 (lowered / same / raised), every index 0 .. max + 1; '
        'lazy_geometry class overflow: Rows / Columns / NumberOfFrames edited BEYOND what PixelData holds - frames inside '
        'the data must be answered with their values, the others refused (error class compared with the model)')

_TMP = None


def _tmpdir():
    return tempfile.gettempdir()


def _catch(fn):
    try:
        return fn()
    except OSError:
        return Err('OSError')
    except EOFError:
        return Err('EOFError')
    except (ValueError, TypeError, IndexError, KeyError, AttributeError, RuntimeError,
            NotImplementedError, AssertionError, ZeroDivisionError, OverflowError) as e:
        for c in (IndexError, KeyError, ValueError, TypeError, AttributeError, NotImplementedError,
                  RuntimeError, AssertionError, ZeroDivisionError, OverflowError):
            if isinstance(e, c):
                return Err(c.__name__)
        return Err(type(e).__name__)


# --------------------------------------------------------------------------
# generators
# --------------------------------------------------------------------------
SOURCES = ['dataset', 'path', 'bytes', 'fileobj', 'bytesio']
FORMATS = [(1, 0, 1), (8, 0, 1), (8, 1, 1), (8, 0, 3), (16, 0, 1), (16, 1, 1), (16, 0, 3),
           (32, 0, 1), (32, 1, 1)]


def _pd_len(bits, npx, n):
    nbytes = (n * npx + 7) // 8 if bits == 1 else n * npx * bits // 8
    return nbytes + (nbytes % 2)


def _native_fields(rng, bits=None, n=None, npx_mod8=None):
    if bits is None:
        bits, signed, spp = rng.choice(FORMATS + [(1, 0, 1)] * 3)
    else:
        signed, spp = (0, 1) if bits == 1 else rng.choice([(0, 1), (1, 1), (0, 3)])
    for _ in range(200):
        rows, cols = rng.randint(1, 7), rng.randint(1, 7)
        if npx_mod8 is None or (rows * cols * spp) % 8 == npx_mod8:
            break
    n = n or rng.choice([1, 2, 3, 3, 4, 5, 6])
    bs = bits
    if bits > 1 and rng.random() < 0.4:
        bs = rng.randint(max(1, bits // 2 - 2), bits - 1) if rng.random() < 0.8 else rng.randint(1, bits)
    npx = rows * cols * spp
    ln = _pd_len(bits, npx, n)
    mode = rng.random()
    if mode < 0.8:
        pd = bytes(rng.randrange(256) for _ in range(ln))
    elif mode < 0.9:
        pd = bytes(rng.choice([0, 255, 128, 127, 1]) for _ in range(ln))
    else:
        pd = bytes((i * 37 + 11) % 256 for i in range(ln))
    return {'bits': bits, 'bs': bs, 'signed': signed, 'spp': spp, 'rows': rows, 'cols': cols, 'n': n,
            'ts': rng.choice(['explicit', 'implicit']), 'src': rng.choice(SOURCES),
            'single_iod': bool(n == 1 and spp == 1 and bits == 16 and rng.random() < 0.5),
            'pd': pd.hex()}


def _rand_payload(rng, ln, mark):
    b = bytearray(rng.randrange(256) for _ in range(ln))
    if ln >= 2:
        if mark == 'soi':
            b[0:2] = b'\xff\xd8'
        elif mark == 'soc':
            b[0:2] = b'\xff\x4f'
        elif bytes(b[0:2]) in (b'\xff\xd8', b'\xff\x4f'):
            b[0] = 0x12
    return bytes(b)


def _encaps_n_edit(c):
    """NumberOfFrames the lazily read encapsulated image is edited to (1 .. n + 1), a function of the case (no
    random draw: the streams of the earlier strata keep their cases)."""
    first = c['frames'][0][0] if c['frames'] and c['frames'][0] else ''
    return 1 + (len(first) // 2 + sum(len(fr) for fr in c['frames']) + c['n']) % (c['n'] + 1)


def _encaps_idx_edit(c):
    return list(range(0, max(c['n'], _encaps_n_edit(c)) + 2))


def _encaps_case(rng, bad):
    n = rng.choice([1, 2, 2, 3, 4, 5, 6])
    multi = rng.random() < 0.45
    marks = rng.choice(['all', 'all', 'none', 'some']) if not multi else rng.choice(['all', 'all', 'all', 'none', 'stray'])
    frames = []
    seen = set()
    for k in range(n):
        nfr = rng.choice([1, 2, 3]) if multi else 1
        frs = []
        for j in range(nfr):
            ln = 2 * rng.randint(2, 6)
            if j == 0:
                mk = {'all': 'soi', 'none': None, 'some': rng.choice(['soi', None, 'soc']),
                      'stray': 'soi'}[marks]
                if mk == 'soi' and rng.random() < 0.3:
                    mk = 'soc'
            else:
                mk = 'soi' if (marks == 'stray' and rng.random() < 0.3) else None
            while True:
                pl = _rand_payload(rng, ln, mk).hex()
                if pl[4:] not in seen:
                    seen.add(pl[4:])
                    break
            frs.append(pl)
        frames.append(frs)
    table = rng.choice(['basic', 'basic', 'empty', 'empty', 'eot', 'wrong_len'])
    c = {'frames': frames, 'n': n, 'table': table, 'ts': rng.choice(['rle', 'jpegls']),
         'idx': list(range(0, n + 2)), 'img_ai': rng.random() < 0.5}
    if bad:
        b = rng.choice(['odd', 'zero', 'n_mismatch', 'eot_len', 'no_items', 'bot_offsets_shifted'])
        c['bad'] = b
        if b in ('odd', 'zero'):
            k = rng.randrange(n)
            j = rng.randrange(len(frames[k]))
            frames[k][j] = _rand_payload(rng, 3 if b == 'odd' else 0, None).hex()
            c['table'] = rng.choice(['empty', 'wrong_len', 'basic'])
        elif b == 'n_mismatch':
            c['n'] = n + rng.choice([1, 2]) if rng.random() < 0.7 or n == 1 else n - 1
            c['table'] = rng.choice(['empty', 'basic'])
            c['idx'] = list(range(0, c['n'] + 2))
        elif b == 'eot_len':
            c['table'] = 'eot'
            c['eot_extra'] = rng.choice([-1, 1])
        elif b == 'no_items':
            c['frames'] = []
            c['table'] = rng.choice(['empty', 'eot'])
        elif b == 'bot_offsets_shifted':
            c['table'] = 'basic'
            c['shift'] = rng.choice([2, 8])
    return c


def _planar_fields(rng, small=False):
    """Native colour image: 8/16/32 bit, signed or not, colour-by-pixel or colour-by-plane."""
    f = _native_fields(rng, bits=rng.choice([8, 8, 16, 16, 32]))
    f['spp'], f['signed'] = 3, rng.choice([0, 0, 1])
    f['planar'] = rng.choice([1, 1, 0])
    if small:
        f['rows'], f['cols'], f['n'] = rng.randint(1, 3), rng.randint(1, 3), rng.choice([1, 2, 3])
    f['single_iod'] = False
    ln = _pd_len(f['bits'], f['rows'] * f['cols'] * 3, f['n'])
    f['pd'] = bytes(rng.randrange(256) for _ in range(ln)).hex()
    return f


ORDER_CLASSES = ['rotation', 'shuffle', 'repeat', 'long', 'ascending', 'descending', 'swap', 'single', 'invalid']
HARD_ORDERS = ['rotation', 'shuffle', 'repeat', 'long']      # sorting permutation usually not an involution
ARG_TYPES = ['list', 'list', 'tuple', 'iter', 'nparray']


def _request(rng, n, ai, cls=None, maxlen=8):
    """A list of frame numbers (indices if ai) of an n-frame image in one of the order classes."""
    base = 0 if ai else 1
    nums = list(range(base, base + n))
    cls = cls or rng.choice(ORDER_CLASSES)
    top = max(1, min(n, maxlen))
    if cls == 'single' or n == 1 and cls in ('rotation', 'shuffle', 'ascending', 'descending', 'swap'):
        return [rng.choice(nums)] * (1 if cls == 'single' or rng.random() < 0.5 else rng.randint(2, 3))
    if cls == 'rotation':       # k ascending numbers (consecutive or sparse) rotated: a k-cycle
        k = rng.randint(min(3, top), top)
        sub = sorted(rng.sample(nums, k))
        r = rng.randint(1, max(1, k - 1))
        return sub[r:] + sub[:r]
    if cls == 'shuffle':
        k = rng.randint(min(3, top), top)
        return rng.sample(nums, k)
    if cls == 'repeat':         # e.g. 3 3 1 3
        k = rng.randint(3, max(3, min(maxlen, n + 2)))
        fs = [rng.choice(nums) for _ in range(k)]
        fs[rng.randrange(1, k)] = fs[0]
        return fs
    if cls == 'long':
        return [rng.choice(nums) for _ in range(rng.randint(n + 1, max(n + 1, min(2 * n, maxlen))))]
    if cls in ('ascending', 'descending', 'swap'):
        fs = sorted(rng.sample(nums, rng.randint(min(2, top), top)))
        if cls == 'descending':
            fs.reverse()
        elif cls == 'swap':
            for j in range(0, len(fs) - 1, 2):
                fs[j], fs[j + 1] = fs[j + 1], fs[j]
        return fs
    if cls == 'invalid':
        fs = rng.sample(nums, rng.randint(1, top))
        fs.insert(rng.randint(0, len(fs)), rng.choice([base - 1, base + n, base + n + 2, -n]))
        return fs
    raise ValueError(cls)


def _batch_order_case(rng, n=None, colour=None):
    """One small native image + three batch requests (frame numbers, as_indices, argument type)."""
    colour = (rng.random() < 0.35) if colour is None else colour
    if colour:
        f = _planar_fields(rng, small=True)
        f['rows'], f['cols'] = rng.choice([(1, 1), (1, 2), (2, 1)])
    else:
        f = _native_fields(rng)
        f['rows'], f['cols'] = rng.choice([(1, 1), (1, 2), (2, 1), (1, 3), (3, 1), (2, 2), (1, 5), (5, 1)])
    f['n'] = n or rng.choice([3, 3, 4, 5, 6, 6, 8])
    f['single_iod'] = False
    f.setdefault('planar', 0)
    f['pd'] = bytes(rng.randrange(256) for _ in range(_pd_len(f['bits'], f['rows'] * f['cols'] * f['spp'], f['n']))).hex()
    reqs = []
    for j in range(3):
        ai = rng.random() < 0.4
        cls = rng.choice(HARD_ORDERS) if j == 0 else rng.choice(ORDER_CLASSES)
        reqs.append([_request(rng, f['n'], ai, cls), ai, rng.choice(ARG_TYPES)])
    f['reqs'] = reqs
    return f


HEADER_KEYS = ('bs', 'signed', 'rows', 'cols', 'planar', 'n', 'bits')


def _history_case(rng, lazy=False):
    """In-memory image + a sequence of reads and edits.  Edits carry the complete new value
    (PixelData bytes / header fields), so any sub-sequence of the ops is a valid history.
    lazy: the image is read lazily; only header edits that keep the frame size, BitsAllocated and
    NumberOfFrames (the reader computes its offset table once, when the file is opened)."""
    if rng.random() < 0.3:
        f = _planar_fields(rng, small=True)
    else:
        f = _native_fields(rng)
        f['rows'], f['cols'] = min(f['rows'], 4), min(f['cols'], 4)
        f['n'] = min(f['n'], 4)
        f['pd'] = bytes(rng.randrange(256) for _ in range(_pd_len(f['bits'], f['rows'] * f['cols'] * f['spp'], f['n']))).hex()
    f['single_iod'] = False
    f['src'] = rng.choice(['bytes', 'path', 'fileobj', 'bytesio'] if lazy else ['dataset', 'bytes', 'path'])
    f['ts'] = rng.choice(['explicit', 'implicit'])
    f.setdefault('planar', 0)
    n0 = f['n']
    cur = {k: f[k] for k in HEADER_KEYS}

    def num():
        n = cur['n']
        ai = rng.random() < 0.4
        if rng.random() < 0.12:
            return rng.choice([-1, 0, n, n + 1]), ai
        return (rng.randrange(n) if ai else rng.randint(1, n)), ai

    def read(kind=None):
        kind = kind or rng.choice(['one', 'one', 'batch', 'batch', 'frames', 'whole', 'raw', 'decraw'])
        if kind == 'whole':
            return ['whole']
        n = cur['n']
        if kind in ('batch', 'frames'):     # get_stored_frames / get_frames (transforms off)
            if rng.random() < 0.25:
                return [kind, None, rng.random() < 0.3]
            ai = rng.random() < 0.4
            return [kind, _request(rng, n, ai, maxlen=6), ai]
        fnum, ai = num()
        return [kind, fnum, ai]

    def edit():
        opts = [] if lazy else ['inplace', 'inplace', 'assign']
        if n0 > 1 and not lazy:
            opts.append('frames')
        if f['bits'] >= 8 and not lazy:
            opts.append('bits')
        if lazy and f['bits'] == 1 and cur['rows'] == cur['cols']:
            return [read()]         # nothing can be edited on a square bit-packed lazily read image
        if f['bits'] > 1:
            opts += ['signed', 'signed', 'bs']
        if cur['rows'] != cur['cols']:
            opts.append('swap')
        if f['spp'] == 3 and f['bits'] > 1:
            opts += ['planar', 'planar']
        e = rng.choice(opts)
        def new_pd(kind):
            ln = _pd_len(cur['bits'], f['rows'] * f['cols'] * f['spp'], cur['n'])
            return [kind, bytes(rng.randrange(256) for _ in range(ln)).hex()]
        if e in ('inplace', 'assign'):
            return [new_pd(e)]
        if e in ('frames', 'bits'):
            # NumberOfFrames / BitsAllocated change together with a PixelData of the matching length (pydicom
            # returns EXTRA frames when PixelData holds more whole frames than NumberOfFrames says)
            if e == 'frames':
                cur['n'] = rng.choice([m for m in range(1, n0 + 2) if m != cur['n']])
            else:
                cur['bits'] = rng.choice([b for b in (8, 16, 32) if b != cur['bits']])
                cur['bs'] = cur['bits'] if rng.random() < 0.6 else rng.randint(1, cur['bits'])
            return [['header', dict(cur)], new_pd(rng.choice(['inplace', 'inplace', 'assign']))]
        if e == 'signed':
            cur['signed'] = 1 - cur['signed']
        elif e == 'bs':
            cur['bs'] = rng.choice([b for b in range(1, cur['bits'] + 1) if b != cur['bs']])
        elif e == 'swap':
            cur['rows'], cur['cols'] = cur['cols'], cur['rows']
        elif e == 'planar':
            cur['planar'] = 1 - cur['planar']
        return [['header', dict(cur)]]

    ops = []
    for _ in range(rng.choice([1, 1, 2])):
        # warm-up: often fill the cache, sometimes leave it cold
        w = rng.random()
        if w < 0.6:
            ops.append(['whole'])
        elif w < 0.8:
            ops.append(read())
        if rng.random() < 0.3:
            ops.append(read())
        for _ in range(rng.choice([1, 1, 2])):
            ops.extend(edit())
        for _ in range(rng.choice([1, 2, 3])):
            ops.append(read())
    f['ops'] = ops
    return f


GEOMETRY_EDITS = ['swap', 'refactor', 'fewer', 'rebits', 'shrink', 'more', 'grow', 'back']
# 'overflow' (drawn separately): the description is edited BEYOND what the file holds - the last frame(s) must be refused


def _native_offset(h, spp, i):
    """Byte offset of frame i of a native image described by h (what the reader's table should say)."""
    npx = h['rows'] * h['cols'] * spp
    return (i * npx) // 8 if h['bits'] == 1 else i * (npx * h['bits'] // 8)


def _geometry_misfit(c):
    """True iff some read of the history happens while the offset table the reader computed when the file
    was opened does not say where the frames of the CURRENT description start (finding D118)."""
    spp = c['spp']
    first = {k: c[k] for k in HEADER_KEYS}
    cur, bad = dict(first), False
    for o in c['ops']:
        if o[0] == 'header':
            cur = dict(cur, **o[1])
            bad = cur['n'] > first['n'] or any(_native_offset(cur, spp, i) != _native_offset(first, spp, i)
                                               for i in range(cur['n']))
        elif bad:
            return True
    return False


def _geometry_case(rng, cls=None, warm=False):
    """(warm: pixel_array is called too, before and after the edits: the cache of the lazily read image.)
    Lazily read native image + edits of its GEOMETRY (Rows / Columns / NumberOfFrames / BitsAllocated) that
    leave a valid image for the same PixelData, each followed by reads with nothing cached (pixel_array is never
    called): every frame one at a time, a shuffled batch, a raw frame, decode of a raw frame, a bad number."""
    for _ in range(500):
        if rng.random() < 0.25:
            f = _planar_fields(rng, small=True)
            f['n'] = rng.choice([2, 3])
        else:
            f = _native_fields(rng)
            f['rows'], f['cols'] = rng.randint(1, 5), rng.randint(1, 5)
            f['n'] = rng.choice([1, 2, 2, 3, 3, 4])
        f.setdefault('planar', 0)
        f['single_iod'] = False
        f['src'] = rng.choice(['bytes', 'path', 'fileobj', 'bytesio'])
        f['ts'] = rng.choice(['explicit', 'implicit'])
        spp, bits = f['spp'], f['bits']
        ln = _pd_len(bits, f['rows'] * f['cols'] * spp, f['n'])
        f['pd'] = bytes(rng.randrange(256) for _ in range(ln)).hex()
        first = {k: f[k] for k in HEADER_KEYS}
        cur = dict(first)

        def fits(h):
            return h['n'] >= 1 and h['n'] * h['rows'] * h['cols'] * spp * h['bits'] <= 8 * ln

        def most(h):
            return (8 * ln) // (h['rows'] * h['cols'] * spp * h['bits'])

        def edit(kind):
            h = dict(cur)
            if kind == 'swap' and h['rows'] != h['cols']:
                h['rows'], h['cols'] = h['cols'], h['rows']
            elif kind == 'refactor':
                rc = h['rows'] * h['cols']
                opts = [(r, rc // r) for r in range(1, rc + 1) if rc % r == 0 and r != h['rows']]
                if not opts:
                    return None
                h['rows'], h['cols'] = rng.choice(opts)
            elif kind == 'fewer' and h['n'] > 1:
                h['n'] = rng.randint(1, h['n'] - 1)
            elif kind == 'rebits' and h['bits'] >= 8:
                b2 = rng.choice([b for b in (8, 16, 32) if b != h['bits']])
                if (h['cols'] * h['bits']) % b2:
                    return None
                h['cols'], h['bits'] = h['cols'] * h['bits'] // b2, b2
                h['bs'] = b2 if rng.random() < 0.6 else rng.randint(1, b2)
            elif kind == 'shrink':
                key = rng.choice(['rows', 'cols'])
                if h[key] < 2:
                    return None
                h[key] = rng.randint(1, h[key] - 1)
            elif kind == 'more':
                key = rng.choice(['rows', 'cols'])
                if h[key] < 2:
                    return None
                h[key] = rng.randint(1, h[key] - 1)
                if min(most(h), 8) <= h['n']:
                    return None
                h['n'] = rng.randint(h['n'] + 1, min(most(h), 8))
            elif kind == 'grow' and h['n'] > 1:
                key = rng.choice(['rows', 'cols'])
                h[key] += rng.randint(1, 2)
                if most(h) < 1:
                    return None
                h['n'] = rng.randint(1, most(h)) if rng.random() < 0.5 else most(h)
            elif kind == 'back':
                h = dict(first)
            elif kind == 'overflow':
                if rng.random() < 0.5:
                    h[rng.choice(['rows', 'cols'])] += rng.randint(1, 2)
                else:
                    h['n'] = min(most(h) + rng.randint(1, 2), 8)
                return h if (h != cur and not fits(h)) else None
            else:
                return None
            if rng.random() < 0.2 and h['bits'] > 1:
                h['signed'] = 1 - h['signed']
            return h if (h != cur and fits(h)) else None

        def reads():
            n = cur['n']
            nums = list(range(1, n + 1))
            rng.shuffle(nums)
            out = [['one', k, False] for k in nums[:4]]
            out.append(['one', rng.randrange(n), True])
            req = _request(rng, n, False, rng.choice(HARD_ORDERS + ['descending']), maxlen=6)
            out.append(['batch', req, False])
            k = rng.randint(1, n)
            out += [['raw', k, False], ['decraw', n, False], ['one', rng.choice([0, n + 1, -1]), False]]
            if rng.random() < 0.5:
                out.append([rng.choice(['batch', 'frames']), None, rng.random() < 0.5])
            out.append(['frames', _request(rng, n, True, rng.choice(HARD_ORDERS), maxlen=5), True])
            if warm:
                out += [['whole']] * rng.choice([1, 2])
            rng.shuffle(out)
            return out

        kinds = [cls or rng.choice(GEOMETRY_EDITS[:-1])]
        if rng.random() < 0.5:
            kinds.append(rng.choice(GEOMETRY_EDITS))
        ops = [['one', rng.randint(1, cur['n']), False]] if rng.random() < 0.5 else []
        if warm and rng.random() < 0.8:
            ops.append(['whole'])
        ok = True
        for kd in kinds:
            h = edit(kd)
            if h is None:
                ok = kd is not kinds[0]
                break
            cur = h
            ops.append(['header', dict(h)])
            ops.extend(reads())
        if ok and any(o[0] == 'header' for o in ops):
            f['ops'] = ops
            f['edit'] = kinds[0]
            f['warm'] = bool(warm)
            if cls in ('shrink', 'more', 'grow') and not _geometry_misfit(f):
                continue        # the class is there to move the frames away from where the old table says
            return f
    raise AssertionError('harness: no geometry case found')


def gen_cases(rng, tier):
    k = {'quick': 1, 'thorough': 12, 'search': 5}[tier]
    cases = []
    # native: make sure every residue mod 8 of the bit-packed frame size occurs, with >= 3 frames
    for res in range(8):
        for _ in range(2 * k):
            cases.append(dict(_native_fields(rng, bits=1, n=rng.choice([3, 4, 5, 6]), npx_mod8=res), kind='native'))
    for _ in range(130 * k):
        cases.append(dict(_native_fields(rng), kind='native'))
    # index: every interesting frame number x as_index
    for _ in range(14 * k):
        f = _native_fields(rng)
        n = f['n']
        for num in sorted({-1, 0, 1, n - 1, n, n + 1, rng.randint(-3, n + 3)}):
            for as_index in (False, True):
                if rng.random() < 0.6:
                    cases.append(dict(f, kind='index', f=num, as_index=as_index))
    for _ in range(30 * k):
        f = _native_fields(rng)
        f['src'] = rng.choice(['bytes', 'path', 'fileobj'])
        if rng.random() < 0.4:      # something follows the Pixel Data element in the file
            f['trail'] = bytes(rng.randrange(256) for _ in range(2 * rng.randint(1, 4))).hex()
        cases.append(dict(f, kind='reader_index', idx=list(range(0, f['n'] + 2))))
        if rng.random() < 0.5:
            cases.append(dict(f, kind='reader_neg', idx=list(range(-f['n'] - 1, 0))))
    for _ in range(12 * k):
        rows, cols, n = rng.randint(1, 5), 2 * rng.randint(1, 4), rng.choice([1, 2, 3, 4, 6])
        ln = n * rows * cols * 2
        cases.append({'kind': 'raw422', 'bits': 8, 'bs': 8, 'signed': 0, 'spp': 3, 'rows': rows, 'cols': cols,
                      'n': n, 'ts': rng.choice(['explicit', 'implicit']), 'src': rng.choice(SOURCES),
                      'single_iod': False, 'pd': bytes(rng.randrange(256) for _ in range(ln)).hex()})
    for _ in range(70 * k):
        e = _encaps_case(rng, False)
        cases.append(dict(e, kind='encaps'))
        if rng.random() < 0.25:
            cases.append(dict(e, kind='reader_neg', enc=True, idx=list(range(-e['n'] - 1, 0))))
    for _ in range(30 * k):
        cases.append(dict(_encaps_case(rng, True), kind='encaps_bad'))
    for _ in range(36 * k):
        ts = rng.choice(['rle', 'jpegls'])
        if ts == 'rle':
            bits, signed, spp = rng.choice([(8, 0, 1), (8, 1, 1), (8, 0, 3), (16, 0, 1), (16, 1, 1), (16, 0, 3)])
            rows, cols = rng.randint(1, 7), rng.randint(1, 7)
        else:
            bits, signed, spp = rng.choice([(8, 0, 1), (16, 0, 1), (8, 0, 3), (16, 0, 3)])
            rows, cols = rng.randint(5, 9), rng.randint(5, 9)
        bs = bits if rng.random() < 0.6 else rng.randint(bits - 4, bits - 1)
        cases.append({'kind': 'codec', 'ts': ts, 'bits': bits, 'bs': bs, 'signed': signed, 'spp': spp,
                      'rows': rows, 'cols': cols, 'n': rng.choice([1, 2, 3, 4, 6]),
                      'frags': 1 if ts == 'rle' else rng.choice([1, 1, 2, 3]),
                      'table': rng.choice(['basic', 'none', 'eot']), 'src': rng.choice(SOURCES),
                      'seed': rng.randrange(1 << 30)})
        if cases[-1]['table'] == 'eot':
            cases[-1]['frags'] = 1      # an extended offset table requires one fragment per frame
    # ordinary single-frame objects (IOD without NumberOfFrames), encapsulated: every fragmentation x
    # offset table x source (RLE allows one fragment per frame only)
    combos = [('rle', 1, 'basic'), ('rle', 1, 'none'), ('rle', 1, 'eot'),
              ('jpegls', 1, 'basic'), ('jpegls', 1, 'none'), ('jpegls', 1, 'eot'),
              ('jpegls', 2, 'none'), ('jpegls', 3, 'none'), ('jpegls', 2, 'basic'), ('jpegls', 4, 'basic'),
              ('jpegls', 3, 'basic')]   # (an extended offset table requires one fragment per frame)
    for _ in range(k):
        for ts, frags, table in combos:
            for src in SOURCES:
                if ts == 'rle':
                    bits, signed = rng.choice([(8, 0), (8, 1), (16, 0), (16, 1)])
                    rows, cols = rng.randint(1, 7), rng.randint(1, 7)
                else:
                    bits, signed = rng.choice([(8, 0), (16, 0)])
                    rows, cols = rng.randint(6, 10), rng.randint(6, 10)
                cases.append({'kind': 'codec1', 'ts': ts, 'bits': bits, 'bs': bits if rng.random() < 0.6 else bits - 2,
                              'signed': signed, 'spp': 1, 'rows': rows, 'cols': cols, 'n': 1, 'frags': frags,
                              'table': table, 'src': src, 'single_iod': rng.choice(['ct', 'dx']),
                              'seed': rng.randrange(1 << 30)})
    # colour-by-plane / signed colour: every path, every source
    for _ in range(40 * k):
        cases.append(dict(_planar_fields(rng), kind='planar'))
    # histories of reads and edits on an in-memory image; every kind of read first after every kind of edit
    def first_read(first, h, fnum):
        if first == 'whole':
            return ['whole']
        if first in ('batch', 'frames'):
            return [first, None, False]
        if first in ('batchperm', 'framesperm'):
            return [first[:-4], _request(rng, h['n'], False, rng.choice(HARD_ORDERS), maxlen=6), False]
        return [first, fnum, False]

    for first in ('one', 'one', 'batch', 'batchperm', 'frames', 'framesperm', 'whole', 'raw', 'decraw'):
        for ed in ('inplace', 'assign', 'header'):
            for warm in (True, True, False):
                for _ in range(k):
                    h = _history_case(rng)
                    cur = {kk: h[kk] for kk in HEADER_KEYS}
                    ln = len(h['pd']) // 2
                    if ed == 'header':
                        if h['bits'] > 1:
                            cur['signed'] = 1 - cur['signed']
                        elif cur['rows'] != cur['cols']:
                            cur['rows'], cur['cols'] = cur['cols'], cur['rows']
                        e = ['header', cur]
                    else:
                        e = [ed, bytes(rng.randrange(256) for _ in range(ln)).hex()]
                    fnum = rng.randint(1, h['n'])
                    rd = first_read(first, h, fnum)
                    h['ops'] = ([['whole']] if warm else []) + [e, rd, ['one', fnum, False],
                                                                first_read('batchperm', h, fnum), ['whole']]
                    cases.append(dict(h, kind='history'))
    for _ in range(40 * k):
        cases.append(dict(_history_case(rng), kind='history'))
    # the same on a lazily read image: every kind of read first after a header edit, with the whole
    # array cached before the edit (warm) and not (cold); then random histories
    for first in ('one', 'batch', 'batchperm', 'frames', 'framesperm', 'whole', 'raw', 'decraw'):
        for warm in (True, False):
            for _ in range(k):
                for _ in range(50):
                    h = _history_case(rng, lazy=True)
                    if h['bits'] > 1 or h['rows'] != h['cols']:
                        break
                cur = {kk: h[kk] for kk in HEADER_KEYS}
                if h['bits'] > 1:
                    cur['signed'] = 1 - cur['signed']
                else:
                    cur['rows'], cur['cols'] = cur['cols'], cur['rows']
                fnum = rng.randint(1, h['n'])
                rd = first_read(first, h, fnum)
                h['ops'] = ([['whole']] if warm else [['one', fnum, False]]) + [
                    ['header', cur], rd, ['one', fnum, False], first_read('batchperm', h, fnum), ['whole'],
                    ['one', fnum, False]]
                cases.append(dict(h, kind='lazy_history'))
    for _ in range(24 * k):
        cases.append(dict(_history_case(rng, lazy=True), kind='lazy_history'))
    for name in ('sm_image_jpegls.dcm', 'sm_image_jpegls_nobot.dcm', 'sm_image.dcm', 'sm_image_control.dcm',
                 'seg_image_ct_binary.dcm', 'ct_image.dcm'):
        for src in (['path', 'bytes'] if tier == 'quick' else SOURCES[1:]):
            cases.append({'kind': 'fixture', 'name': name, 'src': src})
    # batches in every request order through every route (appended last: earlier streams keep their cases)
    for _ in range(34 * k):
        cases.append(dict(_batch_order_case(rng), kind='batch_order'))
    for _ in range(6 * k):      # one frame, colour (a cached single colour frame has rank 3: D108) and mono
        cases.append(dict(_batch_order_case(rng, n=1, colour=True), kind='batch_order'))
    for _ in range(3 * k):
        cases.append(dict(_batch_order_case(rng, n=1, colour=False), kind='batch_order'))
    for _ in range(5 * k):
        cases.append(dict(_batch_order_case(rng, n=2), kind='batch_order'))
    # lazily read image whose geometry is edited: the reader's offset table (appended last)
    for cls in GEOMETRY_EDITS[:-1]:
        for _ in range(4 * k):
            cases.append(dict(_geometry_case(rng, cls), kind='lazy_geometry'))
        for _ in range(2 * k):
            cases.append(dict(_geometry_case(rng, cls, warm=True), kind='lazy_geometry'))
    for _ in range(8 * k):
        cases.append(dict(_geometry_case(rng, warm=rng.random() < 0.4), kind='lazy_geometry'))
    for _ in range(6 * k):
        cases.append(dict(_geometry_case(rng, 'overflow'), kind='lazy_geometry'))
    return cases


# --------------------------------------------------------------------------
# building files
# --------------------------------------------------------------------------
def _base_ds(c, n):
    import highdicom as hd
    import synth
    if c.get('single_iod'):
        ds = synth.base('dx_image.dcm' if c['single_iod'] == 'dx' else 'ct_image.dcm')
        ds.SOPInstanceUID = hd.UID()
        ds.Rows, ds.Columns = c['rows'], c['cols']
        assert n == 1
        if 'NumberOfFrames' in ds:
            del ds.NumberOfFrames
        return ds
    ds = synth.base('sm_image.dcm')
    ds.SOPInstanceUID = hd.UID()
    ds.Rows, ds.Columns = c.get('rows', 2), c.get('cols', 2)
    ds.TotalPixelMatrixRows, ds.TotalPixelMatrixColumns = ds.Rows * n, ds.Columns
    ds.NumberOfFrames = n
    ds.DimensionOrganizationType = 'TILED_FULL'
    for kw in ('PerFrameFunctionalGroupsSequence', 'ExtendedOffsetTable', 'ExtendedOffsetTableLengths',
               'LossyImageCompressionRatio', 'LossyImageCompressionMethod'):
        if kw in ds:
            delattr(ds, kw)
    ds.LossyImageCompression = '00'
    return ds


def _set_format(ds, bits, bs, signed, spp):
    ds.SamplesPerPixel = spp
    ds.PhotometricInterpretation = 'RGB' if spp == 3 else 'MONOCHROME2'
    if spp == 3:
        ds.PlanarConfiguration = 0
    elif 'PlanarConfiguration' in ds:
        del ds.PlanarConfiguration
    ds.BitsAllocated, ds.BitsStored, ds.HighBit = bits, bs, bs - 1
    ds.PixelRepresentation = signed


def _native_ds(c):
    from pydicom.uid import ExplicitVRLittleEndian, ImplicitVRLittleEndian
    ds = _base_ds(c, c['n'])
    _set_format(ds, c['bits'], c['bs'], c['signed'], c['spp'])
    if c['spp'] == 3 and c.get('planar'):
        ds.PlanarConfiguration = 1
    ds.file_meta.TransferSyntaxUID = ExplicitVRLittleEndian if c['ts'] == 'explicit' else ImplicitVRLittleEndian
    ds.PixelData = bytes.fromhex(c['pd'])
    ds['PixelData'].VR = 'OW' if c['bits'] > 8 else 'OB'
    return ds


def _file_bytes(ds):
    b = io.BytesIO()
    ds.save_as(b)
    return b.getvalue()


def _element_bytes(tag, vr, value, implicit):
    """Encoding of one OB/OW element, written by hand (independent of pydicom's writer)."""
    t = struct.pack('<HH', *tag)
    if implicit:
        return t + struct.pack('<L', len(value)) + value
    return t + vr.encode() + b'\0\0' + struct.pack('<L', len(value)) + value


def _file_tail(c):
    """The bytes of the file from the first byte of the Pixel Data element on: the element and,
    if the case asks for it, a Data Set Trailing Padding element after it."""
    imp = c['ts'] == 'implicit'
    pd = bytes.fromhex(c['pd'])
    tail = _element_bytes((0x7FE0, 0x0010), 'OW' if c['bits'] > 8 else 'OB', pd, imp)
    if c.get('trail'):
        tail += _element_bytes((0xFFFC, 0xFFFC), 'OB', bytes.fromhex(c['trail']), imp)
    return tail


class _Opened:
    """Open the same file content through one of the source kinds."""

    def __init__(self, data, src, ds=None):
        self.data, self.src, self.ds, self.keep = data, src, ds, []
        self.path = None

    def _path(self):
        if self.path is None:
            fd, self.path = tempfile.mkstemp(prefix='c05-', suffix='.dcm', dir=_tmpdir())
            with os.fdopen(fd, 'wb') as f:
                f.write(self.data)
        return self.path

    def image(self, lazy):
        import highdicom as hd
        s = self.src
        if s == 'dataset':
            if not lazy:
                return hd.Image.from_dataset(self.ds, copy=True)
            s = 'path'
        if s == 'path':
            return hd.imread(self._path(), lazy_frame_retrieval=lazy)
        if s == 'bytes':
            return hd.imread(self.data, lazy_frame_retrieval=lazy)
        if s == 'bytesio':
            return hd.imread(io.BytesIO(self.data), lazy_frame_retrieval=lazy)
        if s == 'fileobj':
            f = open(self._path(), 'rb')
            self.keep.append(f)
            return hd.imread(f, lazy_frame_retrieval=lazy)
        raise ValueError(s)

    def close(self):
        for f in self.keep:
            try:
                f.close()
            except Exception:
                pass
        if self.path:
            try:
                os.remove(self.path)
            except OSError:
                pass


def _flat(a):
    import numpy as np
    return np.asarray(a).reshape(-1).tolist()


def _frames(a, n):
    import numpy as np
    return np.asarray(a).reshape(n, -1).tolist()


def _same(a, b):
    import numpy as np
    if isinstance(a, Err) or isinstance(b, Err):
        return False
    a, b = np.asarray(a), np.asarray(b)
    return bool(a.dtype == b.dtype and a.shape == b.shape and np.array_equal(a, b))


def _decode_kw(im):
    return dict(transfer_syntax_uid=im.file_meta.TransferSyntaxUID, rows=im.Rows, columns=im.Columns,
                samples_per_pixel=im.SamplesPerPixel, bits_allocated=im.BitsAllocated,
                bits_stored=im.BitsStored, photometric_interpretation=im.PhotometricInterpretation,
                pixel_representation=im.PixelRepresentation,
                planar_configuration=im.get('PlanarConfiguration'))


# get_frames / get_frame with every transform switched off: the stored values in the dtype asked for
NO_TRANSFORM = dict(apply_real_world_transform=False, apply_modality_transform=False, apply_voi_transform=False,
                    apply_presentation_lut=False, apply_palette_color_lut=False, apply_icc_profile=False)


def _arg(fs, how):
    """The same request as a list, a tuple, a one-shot iterator or a numpy array."""
    import numpy as np
    if fs is None:
        return None
    if how == 'tuple':
        return tuple(fs)
    if how == 'iter':
        return iter(list(fs))
    if how == 'nparray':
        return np.array(fs, dtype=np.int64)
    return list(fs)


def _ans(a, batch):
    """What a caller sees of an answer: [[dtype, shape of one frame], values]."""
    import numpy as np
    a = np.asarray(a)
    if batch:
        return [[str(a.dtype), list(a.shape[1:])], a.reshape(a.shape[0], -1).tolist()]
    return [[str(a.dtype), list(a.shape)], a.reshape(-1).tolist()]


def _perm_request(n, salt):
    """Deterministic shuffled request 1..n (not an involution for n >= 3) + one repeated number."""
    import random
    r = random.Random(1000003 * n + salt)
    nums = list(range(1, n + 1))
    for _ in range(20):
        r.shuffle(nums)
        order = sorted(range(n), key=lambda j: nums[j])
        if n < 3 or any(order[order[j]] != j for j in range(n)):
            break
    return nums + [nums[0]]


# --------------------------------------------------------------------------
# encapsulation written by hand (independent of pydicom.encaps)
# --------------------------------------------------------------------------
ITEM = b'\xfe\xff\x00\xe0'
DELIM = b'\xfe\xff\xdd\xe0\x00\x00\x00\x00'


def _encaps_bytes(c):
    frames = [[bytes.fromhex(x) for x in fr] for fr in c['frames']]
    offs, pos = [], 0
    body = b''
    for fr in frames:
        offs.append(pos)
        for frag in fr:
            body += ITEM + struct.pack('<L', len(frag)) + frag
            pos += 8 + len(frag)
    t = c['table']
    bot = []
    if t == 'basic':
        bot = [o + c.get('shift', 0) for o in offs]
    elif t == 'wrong_len':
        bot = offs + [pos]
    eot = None
    if t == 'eot':
        eot = list(offs)
        if c.get('eot_extra') == 1:
            eot.append(pos)
        elif c.get('eot_extra') == -1:
            eot = eot[:-1]
    pdv = ITEM + struct.pack('<L', 4 * len(bot)) + b''.join(struct.pack('<L', o) for o in bot) + body + DELIM
    return pdv, bot, eot, frames


def _encaps_ds(c):
    from pydicom.uid import RLELossless, JPEGLSLossless
    ds = _base_ds({}, c['n'])
    _set_format(ds, 8, 8, 0, 1)
    ds.file_meta.TransferSyntaxUID = RLELossless if c['ts'] == 'rle' else JPEGLSLossless
    pdv, bot, eot, frames = _encaps_bytes(c)
    ds.PixelData = pdv
    ds['PixelData'].VR = 'OB'
    ds['PixelData'].is_undefined_length = True
    if eot is not None:
        ds.ExtendedOffsetTable = b''.join(struct.pack('<Q', o) for o in eot)
        ds.ExtendedOffsetTableLengths = b''.join(struct.pack('<Q', 2) for _ in eot)
    return ds, bot, eot, frames


def _locate(raw, frags):
    """[position, length] of raw within the concatenation of all fragment payloads, both ends on
    fragment boundaries; 'nomatch' otherwise (payloads are unique by construction)."""
    allb = b''.join(frags)
    bounds, pos = {0}, 0
    for f in frags:
        pos += len(f)
        bounds.add(pos)
    for st in sorted(bounds):
        if allb[st:st + len(raw)] == raw and st + len(raw) in bounds:
            return [st, len(raw)]
    return 'nomatch'


# --------------------------------------------------------------------------
# codec cases
# --------------------------------------------------------------------------
def _codec_array(c):
    import numpy as np
    rs = np.random.RandomState(c['seed'] % (2 ** 31))
    shape = (c['n'], c['rows'], c['cols']) + ((3,) if c['spp'] == 3 else ())
    dt = np.dtype(('i' if c['signed'] else 'u') + str(c['bits'] // 8))
    bs = c['bs']
    lo, hi = (-(1 << (bs - 1)), (1 << (bs - 1))) if c['signed'] else (0, 1 << bs)
    if c['ts'] == 'jpegls':
        base = rs.randint(lo, max(lo + 1, hi - 8))
        arr = base + rs.randint(0, 7, shape)
        arr += (np.arange(c['n']).reshape((-1,) + (1,) * (len(shape) - 1)) % 2)
    else:
        arr = rs.randint(lo, hi, shape, dtype=np.int64)
    return np.clip(arr, lo, hi - 1).astype(dt)


def _codec_ds(c):
    from pydicom.uid import ExplicitVRLittleEndian, RLELossless, JPEGLSLossless
    from pydicom.encaps import generate_frames, encapsulate, encapsulate_extended
    arr = _codec_array(c)
    ds = _base_ds(c, c['n'])
    _set_format(ds, c['bits'], c['bs'], c['signed'], c['spp'])
    ds.file_meta.TransferSyntaxUID = ExplicitVRLittleEndian
    pd = arr.tobytes()
    ds.PixelData = pd + (b'\0' if len(pd) % 2 else b'')
    ds['PixelData'].VR = 'OW' if c['bits'] > 8 else 'OB'
    ds.compress(RLELossless if c['ts'] == 'rle' else JPEGLSLossless)
    frames = list(generate_frames(ds.PixelData, number_of_frames=c['n']))
    split = [_split_even(f, c.get('frags', 1)) for f in frames]
    pdv, eot, eotl = _write_encaps(split, c['table'])
    ds.PixelData = pdv
    if eot is not None:
        ds.ExtendedOffsetTable, ds.ExtendedOffsetTableLengths = eot, eotl
    c['_stray'] = _stray_markers(split)
    ds['PixelData'].VR = 'OB'
    ds['PixelData'].is_undefined_length = True
    return ds, arr


def _split_even(frame, k):
    """Cut one encoded frame into k even-length fragments (fewer if it is too short)."""
    if len(frame) % 2:
        frame += b'\0'
    k = max(1, min(k, len(frame) // 2))
    step = max(2, (len(frame) // k) // 2 * 2)
    cuts = [i * step for i in range(k)] + [len(frame)]
    return [frame[cuts[i]:cuts[i + 1]] for i in range(k)]


def _write_encaps(split, table):
    """Encapsulated pixel data from fragment lists; table in basic | none | eot."""
    offs, lens, pos, body = [], [], 0, b''
    for fr in split:
        offs.append(pos)
        lens.append(sum(len(x) for x in fr))
        for frag in fr:
            body += ITEM + struct.pack('<L', len(frag)) + frag
            pos += 8 + len(frag)
    bot = offs if table == 'basic' else []
    pdv = ITEM + struct.pack('<L', 4 * len(bot)) + b''.join(struct.pack('<L', o) for o in bot) + body + DELIM
    if table == 'eot':
        return pdv, b''.join(struct.pack('<Q', o) for o in offs), b''.join(struct.pack('<Q', x) for x in lens)
    return pdv, None, None


def _stray_markers(split):
    """True when a fragment boundary could be mistaken for a frame boundary (a non-first fragment
    starting with a start marker, or a non-last one ending with an end marker): frames of such a
    stream cannot be told apart without an offset table, by anybody."""
    for fr in split:
        for j, frag in enumerate(fr):
            if j > 0 and frag[:2] in (b'\xff\xd8', b'\xff\x4f'):
                return True
            if j < len(fr) - 1 and frag.rstrip(b'\0')[-2:] == b'\xff\xd9':
                return True
    return False


def _digest(a):
    import numpy as np
    a = np.ascontiguousarray(a)
    return f'{a.dtype}{list(a.shape)}:' + hashlib.sha1(a.tobytes()).hexdigest()[:16]


def _all_paths(op, n, want_reader=True):
    """Digest of the (n, ...) stack of stored frames through every access path."""
    import numpy as np
    import pydicom
    from highdicom.frame import decode_frame
    from highdicom.io import ImageFileReader
    from pydicom.filebase import DicomBytesIO
    out = {}
    ref = pydicom.dcmread(io.BytesIO(op.data)).pixel_array
    if n == 1:
        ref = ref[None]
    out['pydicom'] = _digest(ref)
    def put(name, fn):
        try:
            out[name] = _digest(fn())
        except Exception as e:   # noqa: recorded per route, judged by the oracle
            out[name] = f'raised {type(e).__name__}: {str(e)[:120]}'

    def putraw(name, im):
        try:
            raws, dec = rawdec(im)
            out[name + 'dec'] = _digest(dec)
            out[name + 'sha'] = hashlib.sha1(b'|'.join(raws)).hexdigest()[:16]
        except Exception as e:   # noqa
            out[name + 'dec'] = f'raised {type(e).__name__}: {str(e)[:80]}'

    def stack1(im):
        return np.stack([im.get_stored_frame(k) for k in range(1, n + 1)])

    def rawdec(im):
        kw = _decode_kw(im)
        raws = [im.get_raw_frame(k) for k in range(1, n + 1)]
        return raws, np.stack([decode_frame(r, index=k, **kw) for k, r in enumerate(raws)])

    perm = _perm_request(n, len(op.data))

    def unperm(a):
        if len(a) != len(perm):
            raise AssertionError(f'{len(a)} frames returned for {len(perm)} requested')
        if not np.array_equal(a[-1], a[0]):
            raise AssertionError(f'request {perm}: first and last entry ask for frame {perm[0]} but the answers differ')
        return np.stack([a[perm.index(j)] for j in range(1, n + 1)])

    for lazy in (False, True):
        tag = 'lazy' if lazy else 'eager'
        # stored frame first
        im = op.image(lazy)
        put(tag + '.one', lambda: stack1(im))
        put(tag + '.one_idx', lambda: np.stack([im.get_stored_frame(k, as_index=True) for k in range(n)]))
        put(tag + '.batch', lambda: im.get_stored_frames())
        put(tag + '.batch_rev', lambda: im.get_stored_frames(list(range(n, 0, -1)))[::-1])
        putraw(tag + '.raw', im)
        put(tag + '.pixel_array_last', lambda: im.pixel_array[None] if n == 1 else im.pixel_array)
        # raw frame first
        im = op.image(lazy)
        putraw(tag + '.rawfirst.raw', im)
        put(tag + '.rawfirst.one', lambda: stack1(im))
        # batch first
        im = op.image(lazy)
        put(tag + '.batchfirst.batch', lambda: im.get_stored_frames(range(n), as_indices=True))
        put(tag + '.batchfirst.one', lambda: stack1(im))
        # shuffled batch (with one repeat) first, put back into file order; get_frames (transforms off) cold
        im = op.image(lazy)
        put(tag + '.permfirst.batch', lambda: unperm(im.get_stored_frames(iter(perm))))
        put(tag + '.permfirst.frames', lambda: unperm(im.get_frames(perm, dtype=ref.dtype, **NO_TRANSFORM)))
        # whole pixel array first, then everything from the cache
        im2 = op.image(lazy)
        put(tag + '.pixel_array', lambda: im2.pixel_array[None] if n == 1 else im2.pixel_array)
        put(tag + '.cached_one', lambda: stack1(im2))
        put(tag + '.cached_batch', lambda: im2.get_stored_frames())
        put(tag + '.cached_perm', lambda: unperm(im2.get_stored_frames(perm)))
        put(tag + '.cached_frames', lambda: im2.get_frames(dtype=ref.dtype, **NO_TRANSFORM))
        put(tag + '.cached_frame1', lambda: np.stack([im2.get_frame(k, dtype=ref.dtype, **NO_TRANSFORM)
                                                      for k in range(1, n + 1)]))
        putraw(tag + '.cached.raw', im2)
    if want_reader:
        with ImageFileReader(DicomBytesIO(op.data)) as r:
            put('reader.read_frame', lambda: np.stack([r.read_frame(k, correct_color=False) for k in range(n)]))
            try:
                raws = [r.read_frame_raw(k) for k in range(n)]
                out['reader.rawsha'] = hashlib.sha1(b'|'.join(raws)).hexdigest()[:16]
            except Exception as e:   # noqa
                out['reader.rawdec'] = f'raised {type(e).__name__}: {str(e)[:80]}'
    return out


# --------------------------------------------------------------------------
# implementation runner
# --------------------------------------------------------------------------
def run_impl(c):
    warnings.filterwarnings('ignore')
    import numpy as np
    import pydicom
    from highdicom.frame import decode_frame
    from highdicom.io import ImageFileReader
    from pydicom.filebase import DicomBytesIO
    k = c['kind']
    if k == 'history':
        return _run_history(c)
    if k in ('lazy_history', 'lazy_geometry'):
        return _run_history(c, lazy=True)
    if k in ('native', 'planar'):
        ds = _native_ds(c)
        n = c['n']
        op = _Opened(_file_bytes(ds), c['src'], ds)
        try:
            C = _catch
            with _Quiet():
                im = op.image(False)
                one = C(lambda: np.stack([im.get_stored_frame(i) for i in range(1, n + 1)]))
                raws = C(lambda: [im.get_raw_frame(i) for i in range(1, n + 1)])
                kw = _decode_kw(im)
                rawdec = C(lambda: np.stack([decode_frame(r, index=i, **kw) for i, r in enumerate(raws)]))
                batch = C(lambda: im.get_stored_frames())
                whole = C(lambda: im.pixel_array[None] if n == 1 else im.pixel_array)
                cached = C(lambda: np.stack([im.get_stored_frame(i) for i in range(1, n + 1)]))
                cached_b = C(lambda: im.get_stored_frames(range(n), as_indices=True))
                lz = op.image(True)
                lz_one = C(lambda: np.stack([lz.get_stored_frame(i, as_index=True) for i in range(n)]))
                lz_raws = C(lambda: [lz.get_raw_frame(i) for i in range(1, n + 1)])
                lz_batch = C(lambda: lz.get_stored_frames())
                lz2 = op.image(True)
                lz_whole = C(lambda: lz2.pixel_array[None] if n == 1 else lz2.pixel_array)
                lz_cached = C(lambda: np.stack([lz2.get_stored_frame(i) for i in range(1, n + 1)]))
                with ImageFileReader(DicomBytesIO(op.data)) as r:
                    rd = C(lambda: np.stack([r.read_frame(i, correct_color=False) for i in range(n)]))
                    rd_raws = C(lambda: [r.read_frame_raw(i) for i in range(n)])
            return ['error' if isinstance(one, Err) else str(one.dtype),
                    one if isinstance(one, Err) else _frames(one, n),
                    _same(lz_one, one) and _same(lz_batch, one) and _same(rd, one),
                    _same(cached, one) and _same(cached_b, one) and _same(lz_cached, one),
                    _same(whole, one) and _same(batch, one) and _same(rawdec, one) and _same(lz_whole, one),
                    raws if isinstance(raws, Err) else [list(r) for r in raws],
                    (not isinstance(raws, Err)) and lz_raws == raws and rd_raws == raws]
        finally:
            op.close()
    if k == 'batch_order':
        ds = _native_ds(c)
        op = _Opened(_file_bytes(ds), c['src'], ds)
        try:
            with _Quiet():
                ims = [op.image(False), op.image(False), op.image(True), op.image(True)]
                ims[1].pixel_array
                ims[3].pixel_array
                out = []
                for fs, ai, how in c['reqs']:
                    row = [_catch(lambda: _ans(im.get_stored_frames(_arg(fs, how), as_indices=ai), True)) for im in ims]
                    row += [_catch(lambda: _ans(im.get_frames(_arg(fs, how), as_indices=ai, dtype=np.int64,
                                                              **NO_TRANSFORM), True)) for im in ims]
                    out.append(row)
                return out
        finally:
            op.close()
    if k == 'raw422':
        ds = _native_ds(c)
        ds.PhotometricInterpretation = 'YBR_FULL_422'
        n = c['n']
        op = _Opened(_file_bytes(ds), c['src'], ds)
        try:
            with _Quiet():
                im, lz = op.image(False), op.image(True)
                raws = _catch(lambda: [im.get_raw_frame(i) for i in range(1, n + 1)])
                lz_raws = _catch(lambda: [lz.get_raw_frame(i, as_index=True) for i in range(n)])
                with ImageFileReader(DicomBytesIO(op.data)) as r:
                    rd_raws = _catch(lambda: [r.read_frame_raw(i) for i in range(n)])
                paths = _catch(lambda: _all_paths(op, n))
            if isinstance(paths, Err):
                differ = f'an access path raised {paths.kind}'
            else:       # '' when every route gives pydicom's array, else the routes that do not
                differ = ', '.join(f'{kx} = {v}' for kx, v in paths.items()
                                   if not kx.endswith('rawsha') and v != paths['pydicom'])[:400]
            return [raws if isinstance(raws, Err) else [list(x) for x in raws],
                    (not isinstance(raws, Err)) and lz_raws == raws and rd_raws == raws, differ]
        finally:
            op.close()
    if k == 'index':
        ds = _native_ds(c)
        op = _Opened(_file_bytes(ds), c['src'], ds)
        f, ai = c['f'], c['as_index']
        try:
            im, lz, im2 = op.image(False), op.image(True), op.image(False)
            im2.pixel_array
            with _Quiet():
                return [_catch(lambda: _flat(im.get_stored_frame(f, as_index=ai))),
                    _catch(lambda: _flat(lz.get_stored_frame(f, as_index=ai))),
                    _catch(lambda: _flat(im2.get_stored_frame(f, as_index=ai))),
                    _catch(lambda: _frames(im.get_stored_frames([f], as_indices=ai), 1)),
                    _catch(lambda: _frames(lz.get_stored_frames([f], as_indices=ai), 1)),
                    _catch(lambda: list(im.get_raw_frame(f, as_index=ai))),
                    _catch(lambda: list(lz.get_raw_frame(f, as_index=ai)))]
        finally:
            op.close()
    if k in ('reader_index', 'reader_neg') and not c.get('enc'):
        ds = _native_ds(c)
        if c.get('trail'):
            ds.DataSetTrailingPadding = bytes.fromhex(c['trail'])
        elif 'DataSetTrailingPadding' in ds:
            del ds.DataSetTrailingPadding       # (the CT fixture behind single_iod carries one of its own)
        data = _file_bytes(ds)
        if not data.endswith(_file_tail(c)):
            raise AssertionError('harness: the file does not end with the expected Pixel Data element bytes')
        op = _Opened(data, c['src'])
        try:
            if c['src'] == 'path':
                r = ImageFileReader(op._path())
            elif c['src'] == 'fileobj':
                from pydicom.filebase import DicomIO
                fobj = open(op._path(), 'rb')
                op.keep.append(fobj)
                r = ImageFileReader(DicomIO(fobj))
            else:
                r = ImageFileReader(DicomBytesIO(data))
            with _Quiet():
                with r:
                    return [_catch(lambda: list(r.read_frame_raw(i))) for i in c['idx']]
        finally:
            op.close()
    if k in ('encaps', 'encaps_bad', 'reader_neg'):
        ds, bot, eot, frames = _encaps_ds(c)
        data = _file_bytes(ds)

        def go():
            r = ImageFileReader(DicomBytesIO(data))
            with _Quiet():
                with r:
                    r.metadata
                    return [_catch(lambda: list(r.read_frame_raw(i))) for i in c['idx']]

        def go_image():
            # the same file through a lazily read Image: frame number convention + the reader
            with _Quiet():
                im = hd_imread(data, lazy_frame_retrieval=True)
                return [_catch(lambda: list(im.get_raw_frame(f, as_index=c.get('img_ai', True)))) for f in c['idx']]
        def go_image_edited():
            # NumberOfFrames edited on the lazily read image: the reader keeps the table it built when the file was opened
            with _Quiet():
                im = hd_imread(data, lazy_frame_retrieval=True)
                im.NumberOfFrames = _encaps_n_edit(c)
                return [_catch(lambda: list(im.get_raw_frame(f, as_index=c.get('img_ai', True)))) for f in _encaps_idx_edit(c)]
        from highdicom import imread as hd_imread
        out = [_catch(go)]
        if k != 'reader_neg':
            out.append(_catch(go_image))
        if k == 'encaps':
            out.append(_catch(go_image_edited))
        return out
    if k in ('codec', 'codec1'):
        c = dict(c)
        try:
            ds, arr = _codec_ds(c)
        except RuntimeError as e:   # pyjpegls refuses some tiny frames
            return {'skipped': str(e)[-80:]}
        if c.get('_stray') and c['table'] == 'none' and c['n'] > 1:
            return {'skipped': 'fragment boundary looks like a frame boundary and there is no offset table'}
        op = _Opened(_file_bytes(ds), c['src'], ds)
        try:
            with _Quiet():
                out = _catch(lambda: _all_paths(op, c['n']))
            if isinstance(out, Err):
                return {'error': out.kind}
            out['source_array'] = _digest(arr)
            return out
        finally:
            op.close()
    if k == 'fixture':
        import synth
        data = open(os.path.join(synth.TEST_FILES, c['name']), 'rb').read()
        ds = pydicom.dcmread(io.BytesIO(data))
        op = _Opened(data, c['src'], ds)
        try:
            with _Quiet():
                out = _catch(lambda: _all_paths(op, int(ds.get('NumberOfFrames', 1))))
            return {'error': out.kind} if isinstance(out, Err) else out
        finally:
            op.close()
    raise ValueError(k)


def _std(c, f, ai):
    return f if ai else f - 1


def _run_history(c, lazy=False):
    """One in-memory (or lazily read) image, the ops applied in order.  Reads answer
    [[dtype, frame shape], values] (raw: the bytes), edits answer None."""
    import numpy as np
    from highdicom.frame import decode_frame
    ds = _native_ds(c)
    op = _Opened(_file_bytes(ds), c['src'], ds)
    now = {'n': c['n']}
    keep = []        # replaced values stay alive: pydicom recognises edits by id()

    ans = _ans

    def do(im, o):
        t = o[0]
        if t == 'whole':
            a = im.pixel_array
            return ans(a[None] if now['n'] == 1 else a, True)
        if t == 'one':
            return ans(im.get_stored_frame(o[1], as_index=o[2]), False)
        if t == 'batch':
            return ans(im.get_stored_frames(o[1], as_indices=o[2]), True)
        if t == 'frames':
            return ans(im.get_frames(o[1], as_indices=o[2], dtype=np.int64, **NO_TRANSFORM), True)
        if t == 'raw':
            return list(im.get_raw_frame(o[1], as_index=o[2]))
        if t == 'decraw':
            raw = im.get_raw_frame(o[1], as_index=o[2])
            return ans(decode_frame(raw, index=_std(c, o[1], o[2]), **_decode_kw(im)), False)
        if t == 'assign':
            keep.append(im.PixelData)
            im.PixelData = bytes.fromhex(o[1])
            return None
        if t == 'inplace':
            keep.append(im['PixelData'].value)
            im['PixelData'].value = bytes.fromhex(o[1])
            return None
        if t == 'header':
            h = o[1]
            if h.get('bits', c['bits']) != im.BitsAllocated:
                keep.append(im.BitsAllocated)
                im.BitsAllocated = h['bits']
            if h.get('n', c['n']) != now['n']:
                im.NumberOfFrames = now['n'] = h['n']
            if im.BitsStored != h['bs']:
                im.BitsStored, im.HighBit = h['bs'], h['bs'] - 1
            if im.PixelRepresentation != h['signed']:
                im.PixelRepresentation = h['signed']
            if (im.Rows, im.Columns) != (h['rows'], h['cols']):
                im.Rows, im.Columns = h['rows'], h['cols']
            if c['spp'] == 3 and im.PlanarConfiguration != h['planar']:
                im.PlanarConfiguration = h['planar']
            return None
        raise ValueError(t)

    try:
        with _Quiet():
            im = op.image(lazy)
            return [_catch(lambda: do(im, o)) for o in c['ops']]
    finally:
        op.close()


class _Quiet:
    """ImageFileReader.__exit__ writes tracebacks to stderr; keep the log clean."""

    def __enter__(self):
        self._e = sys.stderr
        sys.stderr = io.StringIO()

    def __exit__(self, *a):
        sys.stderr = self._e
        return False


# --------------------------------------------------------------------------
# model terms
# --------------------------------------------------------------------------
def _b(x):
    return 'true' if x else 'false'


def _native_args(c):
    npx = c['rows'] * c['cols'] * c['spp']
    return f"{c['bits']} {c['bs']} {_b(c['signed'])} {npx} {c['n']} {zl(bytes.fromhex(c['pd']))}"


def _cfmt(c, h):
    """cfmt literal: fixed fields from the case c, editable header fields from h."""
    npx = c['rows'] * c['cols'] * c['spp']
    return (f"(CFmt (Fmt {h.get('bits', c['bits'])} {h['bs']} {_b(h['signed'])} {npx} {h.get('n', c['n'])}) {c['spp']} "
            f"{_b(h.get('planar', 0))} {h['rows']})")


def coq_term(c):
    k = c['kind']
    if k == 'native':
        return f'(run_native {_native_args(c)})'
    if k == 'planar':
        return f"(run_native_c {_cfmt(c, c)} {zl(bytes.fromhex(c['pd']))})"
    if k in ('history', 'lazy_history'):
        lz = k == 'lazy_history'
        cur = {kk: c.get(kk, 0) for kk in HEADER_KEYS}
        ops = []
        for o in c['ops']:
            t = o[0]
            n = cur['n']
            if t == 'whole':
                ops.append('LWhole' if lz else 'OWhole')
            elif t in ('batch', 'frames'):
                fs, ai = (list(range(1, n + 1)), False) if o[1] is None else (o[1], o[2])
                if o[1] is None and o[2]:
                    fs, ai = list(range(n)), True
                nm = ('L' if lz else 'O') + ('Batch' if t == 'batch' else 'Frames')
                ops.append(f"({nm} {zl(fs)} {_b(ai)})")
            elif t in ('one', 'raw', 'decraw'):
                nm = {'one': 'One', 'raw': 'Raw', 'decraw': 'DecodeRaw'}[t]
                ops.append(f"({'L' if lz else 'O'}{nm} {zlit(o[1])} {_b(o[2])})")
            elif t in ('assign', 'inplace'):
                ops.append(f"({'OAssign' if t == 'assign' else 'OInplace'} {zl(bytes.fromhex(o[1]))})")
            elif t == 'header':
                cur = dict(cur, **o[1])
                ops.append(f"({'LHeader' if lz else 'OHeader'} {_cfmt(c, cur)})")
        return (f"({'run_lazy_history' if lz else 'run_history'} {_cfmt(c, c)} {zl(bytes.fromhex(c['pd']))} "
                f"[{'; '.join(ops)}])")
    if k == 'lazy_geometry':
        def gc(h):
            return (f"(CFmt (Fmt {h['bits']} {h['bs']} {_b(h['signed'])} {h['rows'] * h['cols'] * c['spp']} {h['n']}) "
                    f"{c['spp']} {_b(h.get('planar', 0))} {h['rows']})")
        cur = {kk: c.get(kk, 0) for kk in HEADER_KEYS}
        first = gc(cur)
        warm = c.get('warm')        # with pixel_array among the reads: the model with the cache (limg)
        P = 'L' if warm else 'G'
        ops = []
        for o in c['ops']:
            t, n = o[0], cur['n']
            if t == 'whole':
                ops.append('LWhole')
            elif t in ('batch', 'frames'):
                nm = 'Batch' if t == 'batch' else 'Frames'
                if o[1] is None and not warm:
                    ops.append(f"(G{nm}All {_b(o[2])})")
                elif o[1] is None:
                    ops.append(f"(L{nm} (default_request {n} {_b(o[2])}) {_b(o[2])})")
                else:
                    ops.append(f"({P}{nm} {zl(o[1])} {_b(o[2])})")
            elif t in ('one', 'raw', 'decraw'):
                ops.append(f"({P}{ {'one': 'One', 'raw': 'Raw', 'decraw': 'DecodeRaw'}[t]} {zlit(o[1])} {_b(o[2])})")
            elif t == 'header':
                cur = dict(cur, **o[1])
                ops.append(f"({P}Header {gc(cur)})")
            else:
                raise ValueError(t)
        return (f"({'run_lazy_history' if warm else 'run_lazy_geometry'} {first} {zl(bytes.fromhex(c['pd']))} "
                f"[{'; '.join(ops)}])")
    if k == 'batch_order':
        reqs = '; '.join(f"({zl(fs)}, {_b(ai)})" for fs, ai, _ in c['reqs'])
        return f"(run_batch_order {_cfmt(c, c)} {zl(bytes.fromhex(c['pd']))} [{reqs}])"
    if k == 'raw422':
        m = f"(Fmt 8 8 false {c['rows'] * c['cols'] * 2} {c['n']})"
        pd = zl(bytes.fromhex(c['pd']))
        nums = zl(range(1, c['n'] + 1))
        return (f"(VL [vframes (sequence (map (fun f => get_raw_frame false {m} {pd} f false) {nums})); "
                f"VB (res_eqb (sequence (map (fun f => get_raw_frame true {m} {pd} f false) {nums})) "
                f"(sequence (map (fun f => get_raw_frame false {m} {pd} f false) {nums}))); VS \"\"])")
    if k == 'index':
        return f"(run_native_one {_native_args(c)} {zlit(c['f'])} {_b(c['as_index'])})"
    if k in ('reader_index', 'reader_neg') and not c.get('enc'):
        npx = c['rows'] * c['cols'] * c['spp']
        return (f"(run_reader_file {_b(c['ts'] == 'implicit')} {c['bits']} {npx} {c['n']} {zl(_file_tail(c))} "
                f"{zl(c['idx'])})")
    if k in ('encaps', 'encaps_bad', 'reader_neg'):
        _, bot, eot, frames = _encaps_bytes(c)
        pls = '[' + '; '.join(zl(f) for fr in frames for f in fr) + ']'
        e = 'None' if eot is None else f'(Some {zl(eot)})'
        t = f"run_encaps_bytes {e} {zl(bot)} {pls} {c['n']} {zl(c['idx'])}"
        if k == 'reader_neg':
            return f'(VL [{t}])'
        t2 = f"run_encaps_image {e} {zl(bot)} {pls} {c['n']} {zl(c['idx'])} {_b(c.get('img_ai', True))}"
        if k == 'encaps':
            return (f"(VL [{t}; {t2}; run_encaps_image_edited {e} {zl(bot)} {pls} {c['n']} {_encaps_n_edit(c)} "
                    f"{zl(_encaps_idx_edit(c))} {_b(c.get('img_ai', True))}])")
        return f"(VL [{t}; {t2}])"
    return None


# --------------------------------------------------------------------------
# independent oracle
# --------------------------------------------------------------------------
def _np_reference(c):
    """Stored values straight from the bytes with numpy only: (n, npx) ints."""
    import numpy as np
    pd = bytes.fromhex(c['pd'])
    n, npx, bits, bs = c['n'], c['rows'] * c['cols'] * c['spp'], c['bits'], c['bs']
    if bits == 1:
        allbits = np.unpackbits(np.frombuffer(pd, np.uint8), bitorder='little')
        return allbits[:n * npx].reshape(n, npx).astype(np.int64)
    u = np.frombuffer(pd[:n * npx * bits // 8], np.dtype(f'<u{bits // 8}')).astype(np.int64)
    u = u & ((1 << bs) - 1)
    if c['signed']:
        u = np.where(u >= (1 << (bs - 1)), u - (1 << bs), u)
    u = u.reshape(n, npx)
    if c.get('planar') and c['spp'] > 1:
        # stored R1R2..G1G2..B1B2.. -> returned (rows, columns, samples)
        u = u.reshape(n, c['spp'], npx // c['spp']).transpose(0, 2, 1).reshape(n, npx)
    return u


def _expect_index(c):
    n, f = c['n'], c['f']
    if c['as_index']:
        return f if 0 <= f < n else None
    return f - 1 if 1 <= f <= n else None


def oracle(c, out):
    import numpy as np
    k = c['kind']
    if k in ('history', 'lazy_history', 'lazy_geometry'):
        return _oracle_history(c, out)
    if k in ('native', 'planar'):
        dtype, one, lz_ok, cached_ok, whole_ok, raws, raws_ok = out
        if isinstance(one, Err):
            return f'get_stored_frame raised {one.kind} on a valid image'
        if isinstance(raws, Err):
            return f'get_raw_frame raised {raws.kind} on a valid image'
        ref = _np_reference(c)
        want_dt = 'uint8' if c['bits'] == 1 else ('int' if c['signed'] else 'uint') + str(c['bits'])
        if dtype != want_dt:
            return f'dtype {dtype}, expected {want_dt}'
        if np.asarray(one, dtype=np.int64).shape != ref.shape or not np.array_equal(np.asarray(one, dtype=np.int64), ref):
            bad = [i for i in range(c['n']) if list(one[i]) != ref[i].tolist()]
            return f'get_stored_frame differs from the stored bytes for frames {bad}'
        if not lz_ok:
            return 'lazy path (get_stored_frame/get_stored_frames/ImageFileReader.read_frame) differs from eager frames'
        if not cached_ok:
            return 'frames served from the cached pixel_array differ from frames decoded one at a time'
        if not whole_ok:
            return 'pixel_array / get_stored_frames / decode_frame(get_raw_frame) differ from get_stored_frame'
        if not raws_ok:
            return 'raw frame bytes differ between eager, lazy and ImageFileReader'
        return None
    if k == 'batch_order':
        # entry j of every answer = the frame whose number is entry j of the request, straight from the bytes
        ref = _np_reference(c)
        n = c['n']
        want_shape = [c['rows'], c['cols']] + ([3] if c['spp'] == 3 else [])
        stored_dt = 'uint8' if c['bits'] == 1 else ('int' if c['signed'] else 'uint') + str(c['bits'])
        routes = ['in-memory get_stored_frames', 'in-memory (pixel_array cached) get_stored_frames',
                  'lazy get_stored_frames', 'lazy (pixel_array cached) get_stored_frames',
                  'in-memory get_frames', 'in-memory (pixel_array cached) get_frames',
                  'lazy get_frames', 'lazy (pixel_array cached) get_frames']
        for q, ((fs, ai, how), row) in enumerate(zip(c['reqs'], out)):
            idx = [(f if ai else f - 1) for f in fs]
            valid = all(0 <= i < n for i in idx)
            for nm, got in zip(routes, row):
                where = f'request {q} {nm}({fs}, as_indices={ai}) [{how}] on {n} frames'
                if not valid:
                    if not (isinstance(got, Err) and got.kind == 'IndexError'):
                        return f'{where}: a number is outside the image, expected IndexError, got {str(got)[:60]}'
                    continue
                if isinstance(got, Err):
                    return f'{where}: raised {got.kind} on a valid request'
                (dt, shape), vals = got
                want_dt = 'int64' if 'get_frames' in nm else stored_dt
                if dt != want_dt or list(shape) != want_shape:
                    return f'{where}: dtype/shape {dt}{shape}, expected {want_dt}{want_shape}'
                if len(vals) != len(idx):
                    return f'{where}: {len(vals)} frames returned for {len(idx)} requested'
                bad = [j for j, i in enumerate(idx) if vals[j] != ref[i].tolist()]
                if bad:
                    found = [next((i for i in range(n) if vals[j] == ref[i].tolist()), '?') for j in bad]
                    return (f'{where}: positions {bad} of the answer are not the requested frames '
                            f'(they hold frame indices {found}, requested {[idx[j] for j in bad]})')
        return None
    if k == 'index':
        e = _expect_index(c)
        ref = _np_reference(c)
        names = ['get_stored_frame', 'lazy get_stored_frame', 'cached get_stored_frame', 'get_stored_frames',
                 'lazy get_stored_frames', 'get_raw_frame', 'lazy get_raw_frame']
        for nm, o in zip(names, out):
            if e is None:
                if not (isinstance(o, Err) and o.kind == 'IndexError'):
                    return f'{nm}({c["f"]}, as_index={c["as_index"]}) on {c["n"]} frames: expected IndexError, got {str(o)[:60]}'
            else:
                if isinstance(o, Err):
                    return f'{nm}({c["f"]}, as_index={c["as_index"]}) refused a valid frame: {o}'
                if 'raw' not in nm:
                    got = o[0] if 'frames' in nm else o
                    if list(got) != ref[e].tolist():
                        return f'{nm}({c["f"]}, as_index={c["as_index"]}) did not return frame index {e}'
        return None
    if k == 'raw422':
        raws, same, agree = out
        if isinstance(raws, Err):
            return f'get_raw_frame raised {raws.kind}'
        pd = bytes.fromhex(c['pd'])
        fl = c['rows'] * c['cols'] * 2
        for i, r in enumerate(raws):
            if bytes(r) != pd[i * fl:(i + 1) * fl]:
                return f'raw frame {i} of a YBR_FULL_422 image is not bytes [{i * fl},{(i + 1) * fl})'
        if not same:
            return 'YBR_FULL_422 raw frames differ between eager, lazy and reader'
        if agree != '':
            return f'YBR_FULL_422 stored frames differ from pydicom pixel_array: {agree}'
        return None
    if k == 'reader_neg':
        if c.get('enc'):
            out = out[0]
        if isinstance(out, Err):
            return None
        for i, o in zip(c['idx'], out):
            if not isinstance(o, Err):
                return f'ImageFileReader.read_frame_raw({i}) on {c["n"]} frames returned data (wrapped) instead of rejecting'
        return None
    if k == 'reader_index':
        n, npx, bits = c['n'], c['rows'] * c['cols'] * c['spp'], c['bits']
        pd = bytes.fromhex(c['pd'])
        for i, o in zip(c['idx'], out):
            if 0 <= i < n:
                if isinstance(o, Err):
                    return f'read_frame_raw({i}) refused a valid index: {o}'
                lo, hi = (i * npx * bits) // 8, ((i + 1) * npx * bits + 7) // 8
                if bytes(o) != pd[lo:hi]:
                    return f'read_frame_raw({i}) is not the byte range [{lo},{hi}) of PixelData'
            elif not isinstance(o, Err):
                return f'ImageFileReader.read_frame_raw({i}) on {n} frames returned data (wrapped) instead of rejecting'
        return None
    if k == 'encaps':
        # well-formed stream with a usable table: frame i = its own fragments (bytes, both routes)
        frags = [bytes.fromhex(x) for fr in c['frames'] for x in fr]
        n2 = _encaps_n_edit(c)
        for route, o_all in zip(('ImageFileReader.read_frame_raw', 'lazy Image.get_raw_frame',
                                 f'edited lazy Image (NumberOfFrames := {n2}).get_raw_frame'), out):
            if isinstance(o_all, Err):
                m = _encaps_expect_open_failure(c, o_all)
                if m:
                    return f'{route}: {m}'
                continue
            if _encaps_open_must_fail(c):
                return f'{route}: opened a stream whose frames cannot be told apart'
            img = not route.startswith('ImageFileReader')
            edited = route.startswith('edited')
            for f, o in zip(_encaps_idx_edit(c) if edited else c['idx'], o_all):
                i = f if (not img or c.get('img_ai', True)) else f - 1
                if edited and c['n'] <= i < n2:
                    # inside the edited image, but the stream has no such frame: any refusal, never data
                    if not isinstance(o, Err):
                        return f'{route}({f}) returned data for a frame the stream does not have'
                    continue
                if 0 <= i < (min(c['n'], n2) if edited else c['n']):
                    want = b''.join(bytes.fromhex(x) for x in c['frames'][i])
                    if isinstance(o, Err) or bytes(o) != want:
                        got = o if isinstance(o, Err) else _locate(bytes(o), frags)
                        return f'{route}({f}) returned {got} (payload [start, length]), expected the {len(want)} bytes of frame index {i}'
                elif not isinstance(o, Err):
                    return f'{route}({f}) on {c["n"]} frames returned data (wrapped) instead of rejecting'
                elif img and o.kind != 'IndexError':
                    return f'{route}({f}) outside the image raised {o.kind}, expected IndexError'
        return None
    if k == 'encaps_bad':
        # malformed: must not silently return a wrong frame for an index it answers
        if isinstance(out[1], Err) != isinstance(out[0], Err):
            return f'reader and lazily read image disagree on whether the file can be opened: {out[0]} / {out[1]}'
        out = out[0]
        if isinstance(out, Err):
            return None
        b = c['bad']
        if b in ('no_items',):
            return 'opened pixel data without any frame item'
        if b == 'eot_len':
            return 'extended offset table of the wrong length accepted'
        if b == 'n_mismatch' and c['table'] == 'empty':
            nfrag = sum(len(fr) for fr in c['frames'])
            nmark = sum(1 for fr in c['frames'] for f in fr if bytes.fromhex(f)[:2] in (b'\xff\xd8', b'\xff\x4f'))
            if c['n'] not in (nfrag, nmark):
                return 'NumberOfFrames matches neither fragments nor marked fragments, yet a table was built'
        if b in ('odd', 'zero') and c['table'] != 'basic':
            return f'{b}-length item accepted while rebuilding the offset table'
        return None
    if k in ('codec', 'codec1', 'fixture'):
        if 'skipped' in out:
            return None
        if 'error' in out:
            return f'an access path raised {out["error"]} on a valid image'
        ref = out['pydicom']
        for name, d in out.items():
            if name.endswith('rawsha') or name in ('pydicom', 'source_array'):
                continue
            if d != ref:
                return f'{name} = {d} differs from pydicom pixel_array {ref}'
        shas = {v for kx, v in out.items() if kx.endswith('rawsha')}
        if len(shas) != 1:
            return f'raw frame bytes differ between eager / lazy / reader: {sorted(shas)}'
        if k in ('codec', 'codec1') and out['source_array'] != ref:
            return f'lossless codec did not return the encoded array: {ref} vs {out["source_array"]}'
        return None
    return f'unknown kind {k}'


def _oracle_history(c, out):
    """Every read must answer from the image as it is at that moment: values straight from the current
    PixelData bytes under the current header (numpy only), current dtype and frame shape."""
    cur = dict(c)
    spp = c['spp']
    hist = []
    for j, (o, got) in enumerate(zip(c['ops'], out)):
        t = o[0]
        n, bits = cur['n'], cur['bits']
        npx = cur['rows'] * cur['cols'] * spp       # (lazy_geometry: the frame size is edited too)
        hist.append(t if t != 'header' else 'header' + str({k: v for k, v in o[1].items() if cur.get(k) != v}))
        where = f'op {j} {t}{o[1:] if t not in ("assign", "inplace", "header") else ""} after [{", ".join(hist[:-1])}]'
        if t in ('assign', 'inplace'):
            cur['pd'] = o[1]
            if got is not None:
                return f'{where}: edit failed: {got}'
            continue
        if t == 'header':
            cur.update(o[1])
            if got is not None:
                return f'{where}: edit failed: {got}'
            continue
        # (lazy_geometry 'overflow': the edited description may claim more than PixelData holds)
        n_in = min(n, (8 * (len(cur['pd']) // 2)) // (npx * bits))
        ref = _np_reference(dict(cur, n=n_in)) if n_in >= 1 else []
        want_dt = 'uint8' if bits == 1 else ('int' if cur['signed'] else 'uint') + str(bits)
        want_shape = [cur['rows'], cur['cols']] + ([3] if spp == 3 else [])
        if t == 'whole':
            idx = list(range(n))
        elif t in ('batch', 'frames'):
            if t == 'frames':
                want_dt = 'int64'       # get_frames answers in the dtype asked for
            nums, ai = (range(1, n + 1), False) if o[1] is None else (o[1], o[2])
            if o[1] is None and o[2]:
                nums, ai = range(n), True
            idx = [(f if ai else f - 1) for f in nums]
        else:
            idx = [o[1] if o[2] else o[1] - 1]
        if any(not 0 <= i < n for i in idx):
            if not (isinstance(got, Err) and got.kind == 'IndexError'):
                return f'{where}: frame outside the image, expected IndexError, got {str(got)[:60]}'
            continue
        if t != 'raw' and any(i >= n_in for i in idx):
            if not isinstance(got, Err):
                return f'{where}: a frame that does not lie inside PixelData was answered'
            continue
        if isinstance(got, Err) and t == 'raw' and idx[0] >= n_in:
            continue        # (raw bytes of a frame partly outside the data: clipped bytes or a refusal)
        if isinstance(got, Err):
            return f'{where}: raised {got.kind} on a valid request'
        if t == 'raw':
            pd = bytes.fromhex(cur['pd'])
            lo, hi = (idx[0] * npx * bits) // 8, ((idx[0] + 1) * npx * bits + 7) // 8
            if bytes(got) != pd[lo:hi]:
                return f'{where}: raw frame is not bytes [{lo},{hi}) of the current PixelData'
            continue
        (dt, shape), vals = got
        if dt != want_dt or list(shape) != want_shape:
            return f'{where}: dtype/shape {dt}{shape}, the image now says {want_dt}{want_shape}'
        want = [ref[i].tolist() for i in idx] if t in ('whole', 'batch', 'frames') else ref[idx[0]].tolist()
        if vals != want:
            return f'{where}: values are not those of the current PixelData / header (stale or scrambled)'
    return None


def _marks(c):
    return [[bytes.fromhex(f)[:2] in (b'\xff\xd8', b'\xff\x4f') for f in fr] for fr in c['frames']]


def _encaps_open_must_fail(c):
    """Independent statement of when a lazily built table cannot exist."""
    if c['table'] in ('basic', 'eot'):
        return False
    nfrag = sum(len(fr) for fr in c['frames'])
    nmark = sum(sum(m) for m in _marks(c))
    return c['n'] != nfrag and c['n'] != nmark


def _encaps_expect_open_failure(c, err):
    """For kind 'encaps' (well-formed items).  A failure to open is acceptable only when
    the table has to be rebuilt and fragments/markers do not identify the frames."""
    if err is None:
        return None
    if _encaps_open_must_fail(c):
        return None
    return f'reader failed to open a well-formed stream: {err}'


def nontrivial(c, out):
    k = c['kind']
    if k in ('native', 'raw422', 'planar'):
        return c['n'] > 1
    if k == 'batch_order':
        return any(len(fs) > 1 for fs, _, _ in c['reqs'])
    if k in ('history', 'lazy_history', 'lazy_geometry'):
        return any(o[0] in ('assign', 'inplace', 'header') for o in c['ops'])
    if k in ('index', 'reader_index', 'reader_neg'):
        return True
    if k in ('encaps', 'encaps_bad'):
        return True
    if k in ('codec', 'codec1', 'fixture'):
        return 'skipped' not in out
    return True


def shrink(c):
    k = c['kind']
    if k == 'lazy_geometry':
        ops = c['ops']
        for i in range(len(ops)):
            if ops[i][0] != 'header':       # (a read with batch None depends on the current number of frames only)
                yield dict(c, ops=ops[:i] + ops[i + 1:])
        if c['src'] != 'bytes':
            yield dict(c, src='bytes')
        if c['ts'] != 'explicit':
            yield dict(c, ts='explicit')
    if k in ('history', 'lazy_history'):
        ops = c['ops']
        for i in range(len(ops)):
            yield dict(c, ops=ops[:i] + ops[i + 1:])
        if c['src'] != 'dataset':
            yield dict(c, src='dataset')
        if c['ts'] != 'explicit':
            yield dict(c, ts='explicit')
    if k == 'batch_order':
        reqs = c['reqs']
        if len(reqs) > 1:
            for i in range(len(reqs)):
                yield dict(c, reqs=reqs[:i] + reqs[i + 1:])
        for i, (fs, ai, how) in enumerate(reqs):
            if len(fs) > 1:
                for j in range(len(fs)):
                    yield dict(c, reqs=reqs[:i] + [[fs[:j] + fs[j + 1:], ai, how]] + reqs[i + 1:])
            if how != 'list':
                yield dict(c, reqs=reqs[:i] + [[fs, ai, 'list']] + reqs[i + 1:])
        if c['src'] != 'bytes':
            yield dict(c, src='bytes')
        if c['ts'] != 'explicit':
            yield dict(c, ts='explicit')
    if k in ('native', 'index', 'reader_index', 'planar') and 'enc' not in c:
        npx = c['rows'] * c['cols'] * c['spp']
        for key in ('n', 'rows', 'cols'):
            if c[key] > 1:
                d = dict(c, **{key: c[key] - 1})
                ln = _pd_len(d['bits'], d['rows'] * d['cols'] * d['spp'], d['n'])
                d['pd'] = bytes.fromhex(c['pd'])[:ln].hex()
                if len(d['pd']) == 2 * ln:
                    if k == 'reader_index':
                        d['idx'] = list(range(-d['n'] - 1, d['n'] + 2))
                    yield d
        if c['ts'] != 'explicit':
            yield dict(c, ts='explicit')
        if c['src'] != 'bytes':
            yield dict(c, src='bytes')
        if c['bs'] != c['bits']:
            yield dict(c, bs=c['bits'])
        del npx
    if k in ('encaps', 'encaps_bad'):
        if len(c['frames']) > 1 and 'bad' not in c:
            for i in range(len(c['frames'])):
                fr = c['frames'][:i] + c['frames'][i + 1:]
                yield dict(c, frames=fr, n=len(fr), idx=list(range(0, len(fr) + 2)) + [-1])
    if k in ('codec', 'codec1'):
        if c.get('frags', 1) > 2:
            yield dict(c, frags=2)
        for key in ('n',):
            if c[key] > 1:
                yield dict(c, **{key: c[key] - 1})
        if c['src'] != 'bytes':
            yield dict(c, src='bytes')
        if c['table'] != 'basic':
            yield dict(c, table='basic')


# D50 (ImageFileReader.read_frame_raw wrapped negative indices) was found by this check and is fixed;
# the 'reader_neg' stream keeps -1 .. -n-1 in the must-reject set.
# D105 (a lazily read image kept serving its cached pixel_array after a header edit) was found by this check
# ('lazy_history', warm cases) and is fixed; corpus/C05/lazy_stale_after_edit.json keeps the witness in every run.
# D108 (get_frames recognised a single-frame image by the rank of the cached array: one colour frame + warm cache ->
# ValueError) is fixed in /repo; 'batch_order' (n = 1 colour), the 'frames' reads of history / lazy_history and the
# cached_frames route of every codec / fixture case keep it in every run (corpus/C05/batch_single_colour_frame_warm.json).
# D118 (found by the 'lazy_geometry' stratum of this check, FIXED in /repo c4f8b14): ImageFileReader kept using the native
# offset table it computed when the file was opened; after an edit of Rows / Columns / NumberOfFrames / BitsAllocated on
# a lazily read image the frames were read from the OLD offsets (wrong pixels, or a bare IndexError for a frame the table
# had no entry for).  read_frame_raw now computes the offset from the current metadata; the model (gimg /
# read_frame_raw_cur) mirrors that; corpus/C05/lazy_geometry_stale_table.json keeps the witness in every run and
# _geometry_case draws the classes 'shrink' / 'more' / 'grow' until the old table would misfit.
# No open findings.
FINDINGS = {}


def extra_obligations(work):
    # T-int: the integer helpers this model mirrors, re-translated from the current source
    import translate_int
    return translate_int.obligations(work, translate_int.FOR['C05'])


if __name__ == '__main__':
    sys.exit(common.main(sys.modules[__name__]))
