"""C20 - building objects never alters inputs and always yields valid files.

Proof part (coq/theories/C20_*.v):
  * translator + verified checker for the copy-or-alias discipline of every
    from_dataset / from_sequence / extract_from_dataset classmethod
    (harness/translate_c20.py regenerates C20_Converters.v from the CURRENT
    source on every run; `extra_obligations` compiles it);
  * string guards of valuerep.py imply pydicom's validators;
  * identifier facts (uid.py / pydicom.uid.generate_uid).
  * storage of look-up tables (even length, little endian, accessor returns the
    caller's entries), identifiers of the objects built by one call
    (create_segmentation_pyramid), little-endian native Parametric Map frames.
Correspondence (model vs implementation): guard, valid, uid_uuid, uid_hd,
uid_valid, lut (LUT / VOILUT / ModalityLUT / PresentationLUT / PaletteColorLUT /
PaletteColorLUTTransformation through every entry point, alone or inside a
seg / pm / pr object), pyr_ids (number of levels, which levels share a SOP
Instance UID, refusals), pm_native (bytes of (Double)FloatPixelData for either
byte order of the input).  Runtime support (oracle only): conv (snapshot of the
argument around every reachable converter, copy in {True, False}), ctor
(snapshot of constructor arguments, strict write, read back element for
element - a value the writer pads is a difference -, identifiers), ctor_layout
(the same over memory layouts of the arrays: Fortran order, non-native byte
order, strided / reversed / offset views into a larger caller-owned buffer whose
bytes are snapshotted too, write-protected arrays; a refusal is fine, a write is
not), ctor_multi (entry points that build several objects in one call: each
object on its own AND pairwise distinct identifiers), ctor_opt (palette colour
tables 8/16 bit, odd/even sizes, each entry point, inside seg and pm), ctor_src (the
FORM of the source / referenced images: single-frame series in spatial, reversed or
shuffled order, with or without SpacingBetweenSlices; ONE multi-frame image with
regular / irregular / single frames, with or without a recorded spacing; a
segmentation as source; tiled slide images; several pyramid levels in descending,
ascending or mixed order of size, as list or tuple - for seg x3, pm and the
grayscale / pseudo-colour / colour presentation states).
Extension: sop_init (hd.base.SOPClass called directly: file meta information,
guard order, stored long strings; model-compared + strict write / read back),
seg_plane (Segmentation._get_segment_pixel_array called directly over dtypes,
ranks, segmentation types, max_fractional_value and memory layouts: [was the
caller's array written to, values]; model-compared), and constructor bodies:
translate_c20.translate_ctors turns __init__ bodies into effect terms checked by
ok_ctor (no write to any parameter); the accepted ones are pinned obligations.
Strengthening round 2 (model-compared): lut with cls SegmentedPaletteColorLUT (real
discrete + linear segments expanding to 1 .. 2^16 entries and a malformed stream:
[descriptor, stored bytes, number of expanded entries, segmented_lut_data], written and read back;
tables of 0 / more than 2^16 entries must be refused, D110),
seg_measures (Segmentation.__init__ x origin of the pixel measures x spacing present /
derivable: [object of the caller changed, spacing recorded]) and pr_area
(pr.content._add_displayed_area_attributes called directly x order of the sizes of
the referenced images: [corner, selected image, the caller's list afterwards]).
Strengthening round 3: pr_voi (grayscale / pseudo-colour presentation states and
pr.content._add_softcopy_voi_lut_attributes called directly x NUMBER of VOI LUT transformations x
what each refers to - nothing, whole images, one frame (scalar element), several frames
(multi-valued element), segments - x several of them referring to the SAME image x overlap:
[the caller's frame numbers afterwards, those the object holds] or the refusal; model-compared
except for segment references), obj_copy (objects WITH A HISTORY - plain dataset, converted earlier
with / without copying, read by imread / segread / srread / annread, straight from the constructor -
x from_dataset(copy True / default / False), copy.deepcopy, pickle, each applied TWICE: [result is
the argument, original changed]; model-compared) and the hist dimension of conv (the argument of
every converter already is an object of the class).  Every snapshot of a dataset now includes what
the object holds BESIDES its elements (names of all instance attributes, values of those the
library adds: coordinate system, frame look-up database, dimension index pointers ...).
Strengthening round 6: every constructed object is now also READ BACK with
reading_validation_mode = RAISE (every element accessed), and numbers that are written as text
(DS 16 / IS 12 characters) are checked against their value representation independently of pydicom
(pydicom 3 does not validate float-valued DS when writing).  New kinds: ctor_num (every entry point
that stores a floating-point ARGUMENT as a decimal string - SCImage pixel_spacing incl. from_ref_dataset,
PixelMeasuresSequence, PlanePosition / PlaneOrientationSequence, VOI / modality LUT transformations,
NumContentItem, TcoordContentItem, seg / pm with caller-made geometry, seg from an hd.Volume, the
functional groups a VolumeGeometry hands out, GSPS windows, a tiled ParametricMap with caller-made plane
positions (origin offsets, D120) - x numbers whose shortest repr has 17-23
characters x the form the caller holds them in; oracle only), geom (create_affine_matrix_from_components /
VolumeGeometry.from_components / Volume.from_components x 16 FORMS of the direction matrix x spacing x
position / center x direction / patient orientation + every guard: [an argument changed, affine];
model-compared for exact numbers) and geom_form (Volume / VolumeGeometry from an affine and from image
attributes, rotation / affine helpers, the six coordinate transformers incl. their call, 18 conversions of
a Volume on the caller's array x form / layout of every array argument; oracle only: memory layout and
aliasing are outside the model).  The valid kind now also covers VR DS and IS (model-compared).
"""
import copy as _copy
import io
import os
import re
import sys
import uuid

sys.path.insert(0, os.path.dirname(os.path.abspath(__file__)))
import common
from common import Err, catch, zl, zlit

PROPERTY = 'C20'
PROPS_FILE = 'C20_Props.v'
COQ_IMPORTS = ['C20_Model', 'C20_Model_Ref', 'C20_Model_Num']
TOL = None
ORACLE_PREMISES = [
    'call contract: a nested converter called with copy=True only allocates; called with copy=False it rewrites '
    'only objects reachable from its argument (C20_Model.prim p_call_*); each callee is itself checked by ok, but '
    'the contract is not derived from the callee body by induction on call depth',
    'deepcopy allocates new objects only and links them to new objects only (p_deepcopy)',
    'translator trusted lists: reader functions, constructors store but do not modify their arguments, '
    'PURE/INPLACE method lists, TRUSTED_FRESH paths (harness/translate_c20.py)',
    'pydicom validators and UID regex transcribed by hand (C20_Model pydicom_valid / uid_valid), tied by the '
    'valid / uid_valid correspondence kinds',
    'constructors (~500-line bodies) and pydicom writer/reader are exercised, not modelled (kinds conv, ctor, '
    'ctor_layout, ctor_multi, ctor_opt); memory layout of numpy arrays and aliasing with caller-owned buffers are '
    'outside the model (snapshot oracle only)',
    'secrets.randbelow gives distinct draws (premise NoDup draws of C20_alloc_ids_fresh; the pyr_ids kind replaces '
    'it by a counter, uid_unique samples the real one)',
    'numpy dtype -> bits per entry and ndarray.tobytes() of a little-endian array = memory image (lut, pm_native)',
    'ownership classes of numpy operations (basic indexing = view; astype / arithmetic / comparison / around = new '
    'array; x *= k = write into x) in C20_Model.plane_ops / cast_ops; cast_ops is transcribed, not compared',
    'constructor bodies: translator lists CTOR_READERS / CTOR_PURE_METHODS / CTOR_MODULES (minus writers and out=), '
    'super().__init__ and Cls(...) keep references to but do not modify their arguments (checked for the pinned '
    'constructors themselves, assume-guarantee)',
    'SOPClass.__init__: UID arguments opaque, transfer syntax abstracted to 7 classes, dates / person names / '
    'coding schemes / ContentDate+Time not modelled',
    'SegmentedPaletteColorLUT: only the NUMBER of expanded entries is modelled (the expanded values are not stored '
    'in any element); numpy scalar arithmetic of the loop (uint8/uint16 wrap-around, int(nan)) enters as the error '
    'kinds of seg_count',
    'Segmentation pixel measures: _get_pixel_measures_sequence returns the source image\'s own sequence for a '
    'multi-frame source and a new one otherwise; deepcopy = new object; get_volume_positions finds a spacing iff the '
    'frame positions are regularly spaced (the generator keeps steps equal or apart by >= 100 %) - hand-transcribed '
    'ownership configuration (measures_cfg), tied by the seg_measures kind',
    'displayed area: sorted() is a stable sort of a copy (insertion sort in the model), list.sort() the same in place',
    'VOI LUT references: prev_ref_frames as an association list of accumulators keyed by the POSITION of the image '
    'in referenced_images (the code keys by (SOP class, SOP instance) UIDs; the generator passes distinct images), '
    'a defaultdict key appears with the first frame, one frame number = scalar element = a list of the function\'s '
    'own, two or more = the caller\'s MultiValue; IS values compare as integers; ReferencedSegmentNumber / '
    'prev_ref_segs are not modelled (oracle only)',
    'copies of objects: deepcopy / pickle build the new object from a deep copy of what __getstate__ returns and '
    'write to nothing else; dict.copy() is a new dictionary (OCopy), del / item assignment write into the dictionary '
    'they are applied to (OInplace) - hand-transcribed from image.py _Image.__getstate__, tied by the obj_copy kind',
    'create_affine_matrix_from_components: numbers as exact dyadic rationals (quarters / eighths; float arithmetic is '
    'exact on them), direction entries integers (the tolerance of _is_matrix_orthogonal cannot matter), ownership '
    'classes np.array = new array, np.asarray = the same array for a float64 ndarray, reshape = view, a * b = new '
    'array, a *= b = write (hand-transcribed, tied by the geom kind incl. write-protected and view arguments); '
    'inexact numbers (rotations, spacing 1/3) and every other geometry entry point are compared with a numpy '
    'reference only; which memory layout an array has is outside the model',
    'decimal strings: pydicom VALIDATORS[DS] / [IS] transcribed by hand (ASCII digits only), tied by the valid kind; '
    'the strings C\'s %.kf / %.ke produce for a float (number of integer digits = floor(log10|x|) + 1, no carry into a '
    'further digit) and repr(float) are NOT modelled: they enter the theorems as the shape / length hypotheses of '
    'C20_ds_auto_format_fills_16; that every float the library stores in a DS element went through '
    'DS(..., auto_format=True) / format_number_as_ds is exercised (kind ctor_num, _validate_all on every object of '
    'every ctor kind), not proved',
]
MODELLED = ('all from_dataset/from_sequence/extract_from_dataset/_from_dataset_* classmethods under src/highdicom '
            '(effect terms, regenerated each run); valuerep._check_code_string/_check_short_string/_check_long_string/'
            '_check_short_text/_check_long_text; uid.UID() and UID.from_uuid; pydicom VALIDATORS[CS,SH,LO,ST,LT], '
            'VALIDATORS[UI]; content.LUT / PaletteColorLUT / PaletteColorLUTTransformation __init__ (guards, descriptor, '
            'stored bytes) and lut_data; seg.pyramid.create_segmentation_pyramid argument checks, number of outputs and '
            'SOP Instance UID per level; pm.ParametricMap._encode_frame native branch; base.SOPClass.__init__ (guards in '
            'source order, file meta information, SOP common / series / equipment attributes); '
            'seg.Segmentation._get_segment_pixel_array (values and ownership of every numpy step); 88 pinned __init__ '
            'bodies as effect terms (translate_c20.EXPECTED_CTORS); content.SegmentedPaletteColorLUT.__init__ (guards, '
            'segment loop as number of expanded entries and its error kinds, descriptor incl. the 2^16 rule, stored '
            'bytes); the pixel-measures block of seg.Segmentation.__init__ (origin of the sequence, copy before the '
            'derived SpacingBetweenSlices is recorded); pr.content._add_displayed_area_attributes (selection of the '
            'smallest level, order of the caller\'s list); pr.content._add_softcopy_voi_lut_attributes (guards, '
            'per-image accumulators of referenced frames with their ownership, overlap check, the sequence stored); '
            'image._Image.__getstate__ as operations on the instance dictionary of the original; '
            'spatial.create_affine_matrix_from_components (guards in source order, affine for exact numbers, what '
            'happens to the caller\'s direction array); pydicom VALIDATORS[DS], VALIDATORS[IS] and the fixed / '
            'scientific shapes of format_number_as_ds')
STRATA = ['guard', 'valid', 'uid_uuid', 'uid_hd', 'uid_valid', 'uid_unique', 'conv', 'ctor',
          'ctor_layout', 'ctor_multi', 'ctor_opt', 'lut', 'pyr_ids', 'pm_native', 'sop_init', 'seg_plane',
          'ctor_src', 'seg_measures', 'pr_area', 'pr_voi', 'obj_copy', 'ctor_num', 'geom', 'geom_form']
NOT_EXECUTED = ['SpecimenDescription.from_dataset at run time (substitute attribute table has no specimen module tree)',
                'JPEG 2000 / JPEG-LS transfer syntaxes in the ctor kinds',
                'non-native byte order for seg / sc pixel arrays and integer pm arrays is REFUSED by the library '
                '(TypeError / ValueError, counted as rejected, inputs checked unchanged); only float pm arrays and '
                'LUT tables are accepted in that byte order',
                'LegacyConvertedEnhanced* images as SOURCE of a segmentation / parametric map (the substitute attribute '
                'table gives them no FrameOfReferenceUID); AdvancedBlendingPresentationState',
                'ReferenceToPixelTransformer / ReferenceToImageTransformer / PixelToPixelTransformer / '
                'ImageToImageTransformer refuse numpy arrays for image_position / image_orientation / pixel_spacing '
                '(TypeError "must be a sequence"; the other two transformers and the affine helpers accept them): '
                'counted as refused, inputs checked unchanged',
                'objects read with lazy_frame_retrieval=True as argument of a conversion / copy (observation, not counted: '
                '_build_luts resets _file_reader, so from_dataset(copy=False) of a lazily read image drops its frame '
                'access and the copy made with copy=True has neither PixelData nor a reader)']
RULE = ('guard/valid: strings over a boundary alphabet (upper, lower, digit, space, underscore, backslash, newline, '
        'non-ASCII) with lengths around every limit (0,1,15,16,17,63,64,65,1023..1025,10239..10241); uid: 128-bit '
        'draws incl. 0, 9, 10, 2^k, 2^128-1; conv: every reachable converter x copy in {True,False} on randomly '
        'populated plain datasets; ctor: seg (BINARY/FRACTIONAL/LABELMAP x dtypes), pm, sc, sr, ko, ann with '
        'argument snapshots, strict write and read back; ctor_layout: pm (rank 2/3/4, 1-2 mappings, u1/u2/f4/f8), seg x3, '
        'sc, ann, pr, pyramid x 9 memory layouts (C, F, byte-swapped, strided, reversed, offset view, read-only and '
        'combinations); ctor_multi: create_segmentation_pyramid x {factors, sources, arrays} x {2,3 levels} x '
        '{identifiers generated, passed}; ctor_opt / lut: tables of 1,2,3,4,5,7,8,255,256,257 entries x 8/16 bit x '
        'class x entry point (three LUTs, combined array, colour names, segmented) x holder (none, seg, pm, pr) + '
        'refusals; pyr_ids: every guard of the argument check + random; pm_native: byte order x width x rank x '
        'mappings; sop_init: every guard alone and in pairs (guard order), 7 transfer-syntax classes, LO arguments of '
        '0,1,63,64,65 characters with backslashes, numbers None/0/-1/1; seg_plane: float/int x label map/stack x '
        'described [1]/other x BINARY/FRACTIONAL x max_fractional_value 1,2,100,255 x dtype x 6 memory layouts; ctor_src: seg x3 / pm / pr (window, VOI LUT, modality LUT, pseudo-colour, colour) x form '
        'of the source or referenced images (series in order / reversed / shuffled / without spacing, multi-frame '
        'regular / with spacing / single frame / irregular, segmentation as source with / without spacing, tiled, '
        'pyramid levels descending / ascending / mixed / equal sizes, list / tuple); seg_measures: source (series, '
        'multi-frame, segmentation, tiled) x pixel_measures passed or not x spacing present or not x stack (single, '
        'regular, irregular); pr_area: tiled or not x 0..5 images x order of sizes (ascending, descending, mixed, '
        'ties, equal products) x list / tuple; lut also: segmented tables with discrete and linear segments expanding '
        'to 1,2,3,255,256,257,1000 (8 bit) and 1,2,256,4096,65534,65535,65536 (16 bit) entries, alone / in a '
        'transformation / in a presentation state, malformed segment streams, plain tables of 65535 and 65536 entries; '
        'pr_voi: entry (grayscale, pseudo-colour, direct) x images (multi-frame CT, tiled slide, two multi-frame images, '
        'single-frame series, segmentation) x 0-4 transformations x reference form (none, whole image, one frame, '
        'several frames, per-item frame numbers, segments) x same image or not x order of forms x overlap / unknown '
        'image x list / tuple x window / VOI LUT; obj_copy: class (Image ct / multi-frame / tiled, Segmentation x3, '
        'SR document, annotations, coded concept, content item) x history (plain, converted with / without copying, '
        'read, constructed) x operation (copy True / default / False, deepcopy, pickle), twice; conv also with an '
        'argument that already is an object of the class; valid also DS / IS: fixed / scientific / integer '
        'numbers of 1..17 digits with signs, blanks, stray characters + the reprs of 1/3, 0.1+0.2 ...; ctor_num: 13 '
        'entry points x 16 numbers (repr of 3..23 characters: 1/3, 0.1+0.2, 2/7, 25.4/600, 1e16/3, 1e-7/3, pi, float32(0.1), '
        'e+22, e+100, subnormal) x form (float, numpy float64 / float32 scalar, array, list, tuple, int); geom: 3 entry '
        'points x 16 forms of the direction (nested / flat list / tuple, float64 C / F / view / transposed / flat / flat '
        'strided view / write-protected, float32, int64, longdouble, byte-swapped) x 7 forms of spacing / position x '
        'signed permutations and rotations x dyadic / thirds / unit / scalar spacing x position / center x patient '
        'orientation + 30 guard violations; geom_form: 13 entry points x 9 matrix forms / 7 vector forms / 5 coordinate '
        'layouts x array layout and dtype of the volume. '
        'non-trivial = accepted value / changed class / written file')

CTOR_KINDS = ('ctor', 'ctor_layout', 'ctor_multi', 'ctor_opt', 'ctor_src', 'ctor_num')
VRS = ['CS', 'SH', 'LO', 'ST', 'LT']
LIMIT = {'CS': 16, 'SH': 16, 'LO': 64, 'ST': 1024, 'LT': 10240}


# --------------------------------------------------------------------------
# obligations from the translator
# --------------------------------------------------------------------------
def extra_obligations(work):
    import translate_c20 as T
    obl = []
    try:
        convs, fails = T.translate(common.REPO)
    except Exception as ex:  # translator crashed: fail closed
        return [{'name': 'translate_c20', 'status': f'translator-error:{type(ex).__name__}:{ex}'[:200]}]
    for f in fails:
        obl.append({'name': 'conv_' + f['qual'], 'status': ('untranslatable:' + f['why'])[:200]})
    if len(convs) + len(fails) < 40:
        obl.append({'name': 'conv_inventory', 'status': f'only {len(convs) + len(fails)} converters found'})
    # constructor bodies: the pinned list T.EXPECTED_CTORS must stay translatable and accepted by ok_ctor
    try:
        ctors, cfails = T.translate_ctors(common.REPO, {c['qual'] for c in convs})
    except Exception as ex:
        ctors, cfails = [], {}
        obl.append({'name': 'translate_c20_ctors', 'status': f'translator-error:{type(ex).__name__}:{ex}'[:200]})
    path = os.path.join(work, 'C20_Converters.v')
    txt = T.emit_coq(convs, fails, common.REPO)
    cut = txt.find('Example conv_')      # constructor verdicts are printed before the first Example can stop coqc
    cut = len(txt) if cut < 0 else cut
    open(path, 'w').write(txt[:cut] + T.emit_ctors(ctors, cfails) + txt[cut:])
    rc, out = common.sh(f'timeout 600 coqc -Q {common.COQ}/theories HD -Q {work} Work {path}', cwd=work, timeout=660)
    parts = out.split(': list (string * bool)')

    def pairs(txt):
        return dict((m.group(1), m.group(2) == 'true') for m in re.finditer(r'\("([^"]*)",\s*(true|false)\)', txt))
    verdict = pairs(parts[0]) if len(parts) > 1 else {}
    cverdict = pairs(parts[2]) if len(parts) > 3 else {}
    for c in convs:
        v = verdict.get(c['qual'])
        st = 'ok' if v is True and rc == 0 else ('rejected-by-checker' if v is False else
                                                  'not-checked:' + out[-300:].replace('\n', ' '))
        if v is True and rc != 0:
            st = 'ok' if f"conv_{c['qual']}" not in out else 'rejected-by-checker'
        obl.append({'name': T.coq_ident(c['qual']) + '_ok', 'status': st})
    obl.append({'name': 'conv_all_ok', 'status': 'ok' if rc == 0 and verdict and all(verdict.values())
                else 'build-failed:' + out[-300:].replace('\n', ' ')})
    for cls in T.EXPECTED_CTORS:
        q = cls + '.__init__'
        v = cverdict.get(q)
        if q in cfails:
            st = ('untranslatable:' + cfails[q])[:200]
        elif v is True:
            st = 'ok'            # vm_compute verdict of coqc, printed before any later failure of the file
        elif v is False:
            st = 'rejected-by-checker: the constructor body may write to one of its parameters'
        else:
            st = 'not-checked:' + out[-200:].replace('\n', ' ')
        obl.append({'name': T.ctor_ident(q) + '_ok', 'status': st})
    return obl


# --------------------------------------------------------------------------
# runtime support: snapshots around converters and constructors
# --------------------------------------------------------------------------
def _snap(x, ids=None):
    """Structure of a value INCLUDING identity and class of every nested
    Dataset / Sequence and the bytes of arrays."""
    import hashlib
    import numpy as np
    from pydicom.dataset import Dataset
    from pydicom.multival import MultiValue
    from pydicom.sequence import Sequence
    if isinstance(x, Dataset):
        if ids is not None:
            ids.add(id(x))
        items = tuple((int(e.tag), e.VR, _snap(e.value, ids)) for e in x)
        fm = getattr(x, 'file_meta', None)
        return ('DS', id(x), type(x).__name__, items, _snap(fm, ids) if isinstance(fm, Dataset) else None,
                _state(x))
    if isinstance(x, Sequence) or (isinstance(x, list) and x and all(isinstance(i, Dataset) for i in x)):
        if ids is not None:
            ids.add(id(x))
        return ('SQ', id(x), type(x).__name__, tuple(_snap(i, ids) for i in x))
    if isinstance(x, (list, tuple, MultiValue)):
        return ('L', tuple(_snap(i, ids) for i in x))
    if isinstance(x, np.ndarray):
        own = x
        while isinstance(own.base, np.ndarray):
            own = own.base          # the buffer the caller owns: bytes outside the view count too
        return ('A', x.dtype.str, x.shape, x.strides, bool(x.flags.writeable),
                hashlib.sha1(np.ascontiguousarray(x).tobytes()).hexdigest(),
                None if own is x else (own.dtype.str, own.shape, hashlib.sha1(own.tobytes()).hexdigest()))
    if isinstance(x, (bytes, bytearray)):
        return ('B', len(x), hashlib.sha1(bytes(x)).hexdigest())
    return ('V', type(x).__name__, repr(x))


_BASE_STATE = None


def _base_state():
    """Names of the instance attributes pydicom itself keeps on a (File)Dataset (element dictionary,
    reader bookkeeping, pixel caches): for these only the PRESENCE is part of a snapshot."""
    global _BASE_STATE
    if _BASE_STATE is None:
        import pydicom
        from pydicom.dataset import Dataset, FileDataset
        names = set(vars(Dataset())) | set(vars(FileDataset('x', Dataset(), file_meta=pydicom.dataset.FileMetaDataset())))
        _BASE_STATE = names | {'_pixel_array', '_pixel_id', '_private_blocks', 'seq_item_tell', 'file_tell'}
    return _BASE_STATE


def _state_val(v, depth=0):
    import enum
    import hashlib
    import sqlite3
    import numpy as np
    if isinstance(v, sqlite3.Connection):       # the frame look-up tables of an image object
        try:
            return ('db', hashlib.sha1('\n'.join(v.iterdump()).encode()).hexdigest())
        except Exception as ex:
            return ('db', 'unusable: ' + type(ex).__name__)
    if v is None or isinstance(v, (bool, int, float, str, bytes, enum.Enum)):
        return repr(v)[:200]
    if isinstance(v, np.ndarray):
        return ('A', v.dtype.str, v.shape, hashlib.sha1(np.ascontiguousarray(v).tobytes()).hexdigest())
    if isinstance(v, (list, tuple)) and depth < 3:
        return (type(v).__name__,) + tuple(_state_val(i, depth + 1) for i in v)
    if isinstance(v, dict) and depth < 3:
        return ('dict',) + tuple(sorted((repr(k)[:80], _state_val(i, depth + 1)) for k, i in v.items()))
    return ('obj', type(v).__name__)


def _state(ds):
    """What an object holds BESIDES its elements (instance attributes): the names, and for
    the attributes the library itself adds to its classes (coordinate system, frame look-up
    database, dimension index pointers ...) also the values."""
    base = _base_state()
    # (_pixel_rep: pydicom's hint for ambiguous VRs, handed down to every item that is linked into a
    #  dataset with a PixelRepresentation - bookkeeping of pydicom's Dataset.__setitem__, not of the library)
    return tuple(sorted((k, None if k in base else _state_val(v)) for k, v in vars(ds).items() if k != '_pixel_rep'))


def _state_diff(a, b):
    da, db = dict(a), dict(b)
    gone, new = sorted(set(da) - set(db)), sorted(set(db) - set(da))
    if gone or new:
        return f'instance attributes removed {gone}, added {new}'
    ch = [k for k in da if da[k] != db[k]]
    return f'instance attribute(s) {sorted(ch)} changed' if ch else None


def _first_diff(a, b, path='arg'):
    if a == b:
        return None
    if isinstance(a, tuple) and isinstance(b, tuple) and len(a) == len(b) and a[:1] == b[:1]:
        if a[0] == 'DS':
            if a[1] != b[1] or a[2] != b[2]:
                return f'{path}: dataset identity/class {a[2]} -> {b[2]}'
            ta = {t[0]: t for t in a[3]}
            tb = {t[0]: t for t in b[3]}
            for k in sorted(set(ta) | set(tb)):
                if k not in ta:
                    return f'{path}: element {k:08X} added'
                if k not in tb:
                    return f'{path}: element {k:08X} removed'
                d = _first_diff(ta[k][2], tb[k][2], f'{path}.{k:08X}') if ta[k][1] == tb[k][1] else \
                    f'{path}.{k:08X}: VR {ta[k][1]} -> {tb[k][1]}'
                if d:
                    return d
            d = _first_diff(a[4], b[4], path + '.file_meta')
            if d:
                return d
            sd = _state_diff(a[5], b[5])
            return f'{path}: {sd} (the elements are unchanged)' if sd else f'{path}: differs'
        if a[0] == 'SQ':
            if a[1] != b[1] or a[2] != b[2]:
                return f'{path}: sequence identity/class {a[2]} -> {b[2]}'
            if len(a[3]) != len(b[3]):
                return f'{path}: sequence length {len(a[3])} -> {len(b[3])}'
            for i, (x, y) in enumerate(zip(a[3], b[3])):
                d = _first_diff(x, y, f'{path}[{i}]')
                if d:
                    return d
        if a[0] == 'L' and len(a[1]) == len(b[1]):
            for i, (x, y) in enumerate(zip(a[1], b[1])):
                d = _first_diff(x, y, f'{path}[{i}]')
                if d:
                    return d
        if a[0] == 'L' and all(isinstance(x, tuple) and x[:1] == ('V',) for x in a[1] + b[1]):
            show = lambda t: '[' + ', '.join(x[2].strip("'") for x in t[1]) + ']'
            return f'{path}: {len(a[1])} values {show(a)[:60]} -> {len(b[1])} values {show(b)[:80]}'
    if isinstance(a, tuple) and isinstance(b, tuple) and a[:1] == ('A',) and b[:1] == ('A',):
        what = [n for n, x, y in zip(('dtype', 'shape', 'strides', 'writeable', 'bytes', 'owner buffer'), a[1:], b[1:])
                if x != y]
        return f'{path}: array {a[1]}{list(a[2])} strides {list(a[3])} changed in {", ".join(what)}'
    return f'{path}: {str(a)[:80]} -> {str(b)[:80]}'


def _plain(ds):
    """Plain pydicom copy of a (highdicom) dataset tree, as a reader returns it."""
    from pydicom.dataelem import DataElement
    from pydicom.dataset import Dataset
    from pydicom.sequence import Sequence
    out = Dataset()
    for e in ds:
        if e.VR == 'SQ':
            out.add(DataElement(e.tag, 'SQ', Sequence([_plain(i) for i in e.value])))
        else:
            out.add(DataElement(e.tag, e.VR, _copy.deepcopy(e.value)))
    return out


def _plain_seq(items):
    from pydicom.sequence import Sequence
    return Sequence([_plain(i) for i in items])


def _file_roundtrip(ds):
    import pydicom
    b = io.BytesIO()
    ds.save_as(b)
    return pydicom.dcmread(io.BytesIO(b.getvalue()))


def _codes(rng):
    from pydicom.sr.codedict import codes
    return rng.choice([codes.SCT.Tissue, codes.SCT.Neoplasm, codes.DCM.Manifest, codes.SCT.Volume,
                       codes.DCM.Person, codes.SCT.Area])


def _bstr(rng, lim, cs=False):
    """A VALID string for a VR with `lim` characters at most, length on a boundary."""
    n = rng.choice([1, 2, lim - 1, lim, lim, rng.randint(1, lim)])
    if cs:
        return ('A' + ''.join(rng.choice('ABZ09_ ') for _ in range(n - 2)) + 'Z')[:max(n, 1)] if n > 1 else 'A'
    body = ''.join(rng.choice('abcxyz0189 -._') for _ in range(n))
    return ('a' + body[1:-1] + 'z') if n > 1 else 'a'


CODE_VALUE_LENGTHS = [1, 2, 15, 16, 17, 18, 63, 64, 65]


def _coded(rng):
    """Coded concept with code value / designator / meaning / version on the length
    boundaries of CodeValue (SH 16) vs LongCodeValue, SH 16, LO 64, and URN/URL forms."""
    from highdicom.sr import CodedConcept
    form = rng.random()
    if form < 0.7:
        n = rng.choice(CODE_VALUE_LENGTHS)
        v = ''.join(rng.choice('0123456789ABCxyz-') for _ in range(n))
        if v.startswith('urn'):
            v = 'X' + v[1:]
    elif form < 0.85:
        v = rng.choice(['urn:oid:1.2', 'urn:oid:1.2.3.45', 'urn:oid:1.2.3.456', 'urn:oid:' + '1.2' * 20])
    else:
        v = rng.choice(['http://x.y/z', 'http://x.yz/abcd', 'http://x.yz/abcde', 'https://example.org/' + 'a' * 50])
    return CodedConcept(value=v, scheme_designator=rng.choice(['99X', 'SCT', 'D', 'D' * 15, 'D' * 16]),
                        meaning=rng.choice(['m', 'some meaning', 'M' * 63, 'M' * 64]),
                        scheme_version=rng.choice([None, '1', '1.0', '2' * 15, '2' * 16]))


def _item(rng, vt, depth=0):
    """A highdicom SR content item of value type vt with random content."""
    import datetime
    import numpy as np
    import highdicom as hd
    from highdicom import sr
    name = rng.choice([_coded(rng), _codes(rng)])
    rel = rng.choice(['CONTAINS', 'HAS PROPERTIES', 'INFERRED FROM'])
    if vt == 'CODE':
        return sr.CodeContentItem(name, rng.choice([_coded(rng), _codes(rng)]), rel)
    if vt == 'TEXT':
        return sr.TextContentItem(name, rng.choice(['t', 'long text ' * 20 + 'end', 'x\\y']), rel)
    if vt == 'NUM':
        from pydicom.sr.codedict import codes
        return sr.NumContentItem(name, rng.choice([1, 2.5, -3.25, 1e-3]), codes.UCUM.Millimeter,
                                 qualifier=rng.choice([None, codes.DCM.NotANumber]), relationship_type=rel)
    if vt == 'PNAME':
        return sr.PnameContentItem(name, rng.choice(['Doe^John', 'A^B^C']), rel)
    if vt == 'TIME':
        return sr.TimeContentItem(name, datetime.time(rng.randint(0, 23), rng.randint(0, 59), 7), rel)
    if vt == 'DATE':
        return sr.DateContentItem(name, datetime.date(2000 + rng.randint(0, 20), 2, 28), rel)
    if vt == 'DATETIME':
        return sr.DateTimeContentItem(name, datetime.datetime(2001, 3, 4, 5, 6, rng.randint(0, 59)), rel)
    if vt == 'UIDREF':
        return sr.UIDRefContentItem(name, hd.UID(), rel)
    if vt == 'COMPOSITE':
        return sr.CompositeContentItem(name, '1.2.840.10008.5.1.4.1.1.88.11', hd.UID(), rel)
    if vt == 'IMAGE':
        return sr.ImageContentItem(name, '1.2.840.10008.5.1.4.1.1.2.1', hd.UID(),
                                   referenced_frame_numbers=rng.choice([None, [1], [1, 3]]), relationship_type=rel)
    if vt == 'SCOORD':
        return sr.ScoordContentItem(name, 'POLYLINE', np.array([[1.0, 2.0], [3.0, rng.randint(1, 9)]]),
                                    relationship_type=rel)
    if vt == 'SCOORD3D':
        return sr.Scoord3DContentItem(name, 'POINT', np.array([[1.0, 2.0, float(rng.randint(1, 9))]]), hd.UID(),
                                      relationship_type=rel)
    if vt == 'TCOORD':
        return sr.TcoordContentItem(name, 'POINT', referenced_sample_positions=[rng.randint(1, 9)],
                                    relationship_type=rel)
    if vt == 'CONTAINER':
        c = sr.ContainerContentItem(name, relationship_type=rel, template_id=rng.choice([None, '1410']))
        kids = [_item(rng, rng.choice(['CODE', 'TEXT', 'NUM', 'IMAGE', 'CONTAINER' if depth < 2 else 'TEXT', 'UIDREF']),
                      depth + 1) for _ in range(rng.randint(0, 3))]
        if kids:
            c.ContentSequence = sr.ContentSequence(kids)
        return c
    raise ValueError(vt)


VALUE_TYPES = ['CODE', 'TEXT', 'NUM', 'PNAME', 'TIME', 'DATE', 'DATETIME', 'UIDREF', 'COMPOSITE', 'IMAGE',
               'SCOORD', 'SCOORD3D', 'TCOORD', 'CONTAINER']


def _sr_doc(rng, cls_name='Comprehensive3DSR', with_report=True):
    import numpy as np
    import highdicom as hd
    import synth
    from highdicom import sr
    from pydicom.sr.codedict import codes
    ct = synth.ct_frame((0.0, 0.0, 0.0), 4, 4)
    observer = sr.ObserverContext(
        observer_type=codes.DCM.Person,
        observer_identifying_attributes=sr.PersonObserverIdentifyingAttributes(name='Foo^Bar'))
    ctx = sr.ObservationContext(observer_person_context=observer)
    groups = []
    for g in range(rng.randint(1, 2)):
        src = sr.SourceImageForRegion(ct.SOPClassUID, ct.SOPInstanceUID)
        if cls_name == 'Comprehensive3DSR' and rng.random() < 0.5:
            region = sr.ImageRegion3D('POLYGON', np.array([[1.0, 1.0, 0.0], [2.0, 1.0, 0.0], [2.0, 2.0, 0.0],
                                                            [1.0, 1.0, 0.0]]), ct.FrameOfReferenceUID)
        else:
            region = sr.ImageRegion('POLYLINE', np.array([[1.0, 1.0], [2.0, float(rng.randint(1, 3))]]), src)
        meas = [sr.Measurement(name=_coded(rng), value=float(rng.randint(1, 100)) / 4,
                               unit=rng.choice([codes.UCUM.Millimeter, _coded(rng)]))
                for _ in range(rng.randint(0, 2))]
        quals = [sr.QualitativeEvaluation(name=_coded(rng), value=_coded(rng)) for _ in range(rng.randint(0, 2))]
        groups.append(sr.PlanarROIMeasurementsAndQualitativeEvaluations(
            tracking_identifier=sr.TrackingIdentifier(uid=hd.UID(), identifier=_bstr(rng, 64)),
            referenced_region=region, finding_type=rng.choice([codes.SCT.Neoplasm, _coded(rng)]),
            measurements=meas or None, qualitative_evaluations=quals or None))
    report = sr.MeasurementReport(observation_context=ctx, procedure_reported=codes.LN.CTUnspecifiedBodyRegion,
                                  imaging_measurements=groups, title=codes.DCM.ImagingMeasurementReport)
    cls = getattr(sr, cls_name)
    doc = cls(evidence=[ct], content=report, series_instance_uid=hd.UID(), series_number=1,
              sop_instance_uid=hd.UID(), instance_number=1, manufacturer=_bstr(rng, 64))
    return doc, ct, report


# memory layouts of one and the same array value (what differs is where a
# library may skip a defensive copy): byte order, contiguity, views into a larger
# buffer owned by the caller, write protection
LAYOUTS = ['C', 'F', 'swapped', 'strided', 'reversed', 'offset', 'readonly', 'swapped_offset', 'swapped_readonly']


def _relayout(arr, layout):
    import numpy as np
    a = np.ascontiguousarray(arr)
    if layout in (None, 'C'):
        return a
    if layout == 'F':
        return np.asfortranarray(a)
    if layout.startswith('swapped'):
        if a.dtype.itemsize > 1:
            a = a.astype(a.dtype.newbyteorder('S'))      # non-native byte order, same values
        layout = layout[len('swapped'):].lstrip('_') or 'C'
    if layout == 'C':
        return a
    if layout == 'strided':
        big = np.zeros(a.shape[:-1] + (2 * a.shape[-1],), a.dtype)
        big[..., 1::2] = 1
        big[..., ::2] = a
        return big[..., ::2]
    if layout == 'reversed':
        return np.ascontiguousarray(a[::-1])[::-1]
    if layout == 'offset':
        buf = np.ones(a.size + 5, a.dtype)
        v = buf[3:3 + a.size].reshape(a.shape)
        v[...] = a
        return v
    if layout == 'readonly':
        a = a.copy()
        a.flags.writeable = False
        return a
    raise ValueError(layout)


def _palette_from(bits, first, r, g, b, via='luts', layout='C', uid=True):
    """PaletteColorLUTTransformation over the given tables through one of the public
    entry points; returns (transformation, [caller-owned inputs])."""
    import numpy as np
    import highdicom as hd
    dt = np.uint8 if bits == 8 else np.uint16
    puid = hd.UID() if uid else None
    if via == 'combined':
        arr = _relayout(np.stack([np.array(x, dt) for x in (r, g, b)], axis=1), layout)
        return hd.PaletteColorLUTTransformation.from_combined_lut(arr, first, puid), [arr]
    if via == 'colors':
        colors = ['#%02x%02x%02x' % t for t in zip(r, g, b)]
        return hd.PaletteColorLUTTransformation.from_colors(colors, first, puid), [colors]
    if via == 'segmented':      # every entry its own discrete segment of length 1
        arrs = [_relayout(np.array([v for x in col for v in (0, 1, x)], dt), layout) for col in (r, g, b)]
        luts = [hd.SegmentedPaletteColorLUT(first, a, c) for a, c in zip(arrs, ('red', 'green', 'blue'))]
    elif via == 'segments':     # r, g, b ARE segmented data (discrete and linear segments)
        arrs = [_relayout(np.array(col, dt), layout) for col in (r, g, b)]
        luts = [hd.SegmentedPaletteColorLUT(first, a, c) for a, c in zip(arrs, ('red', 'green', 'blue'))]
    else:
        arrs = [_relayout(np.array(col, dt), layout) for col in (r, g, b)]
        luts = [hd.PaletteColorLUT(first, a, c) for a, c in zip(arrs, ('red', 'green', 'blue'))]
    return hd.PaletteColorLUTTransformation(luts[0], luts[1], luts[2], puid), arrs + luts


SOURCE_FORMS = ['series', 'series_nospacing', 'series_rev', 'series_shuffled', 'mf', 'mf_spacing', 'mf_single', 'mf_irregular',
                'seg', 'seg_nospacing', 'tiled']


def _sources(rng, form, n, rows, cols):
    """Source / referenced images in one of the forms a caller can pass them: a series of single-frame
    images (in spatial order, reversed, shuffled), ONE multi-frame image in the patient coordinate system
    (Enhanced-CT-like: regularly spaced frames without / with SpacingBetweenSlices, a single frame,
    irregularly spaced frames), a segmentation used as source (as read from a file, with / without the
    spacing the library recorded in it), a tiled slide image.  Returns (images, planes, rows, columns)."""
    import numpy as np
    import highdicom as hd
    import synth
    if form in (None, 'series'):
        return synth.ct_series(n, rows, cols), n, rows, cols
    if form == 'series_nospacing':      # (the shipped CT fixture carries a SpacingBetweenSlices)
        src = synth.ct_series(n, rows, cols)
        for d in src:
            if 'SpacingBetweenSlices' in d:
                del d.SpacingBetweenSlices
        return src, n, rows, cols
    if form == 'series_rev':
        return synth.ct_series(n, rows, cols)[::-1], n, rows, cols
    if form == 'series_shuffled':
        n = max(n, 3)
        src = synth.ct_series(n, rows, cols)
        src = [src[k] for k in ([1, 2, 0] + list(range(3, n)))]
        return src, n, rows, cols
    if form in ('mf', 'mf_spacing', 'mf_single', 'mf_irregular'):
        n = 1 if form == 'mf_single' else max(n, 3 if form == 'mf_irregular' else 2)
        step = rng.choice([1.25, 2.5, 5.0])
        zs = [k * step for k in range(n)]
        if form == 'mf_irregular':
            zs[-1] += 3 * step
        ds = synth.ct_multiframe(zs, rows, cols)
        if form == 'mf_spacing':
            ds.SharedFunctionalGroupsSequence[0].PixelMeasuresSequence[0].SpacingBetweenSlices = step
        return [ds], n, rows, cols
    if form in ('seg', 'seg_nospacing'):
        n = max(n, 2)
        seg = synth.make_seg(synth.ct_series(n, rows, cols), np.ones((n, rows, cols), np.uint8), 'BINARY', [1])
        ds = _file_roundtrip(seg)
        pm = ds.SharedFunctionalGroupsSequence[0].PixelMeasuresSequence[0]
        if form == 'seg_nospacing' and 'SpacingBetweenSlices' in pm:
            del pm.SpacingBetweenSlices
        return [ds], n, rows, cols
    if form == 'tiled':
        th, tw = rng.choice([(4, 4), (2, 4)])
        nr, nc = rng.choice([(1, 2), (2, 2), (1, 1)])
        ds = synth.sm_tiled(nr * th, nc * tw, th, tw, samples=rng.choice([1, 3]))
        return [ds], nr * nc, th, tw
    raise ValueError(form)


def _seg(rng, seg_type=None, dtype=None, layout=None, palette=None, source=None):
    import numpy as np
    import highdicom as hd
    import synth
    n = rng.randint(1, 3)
    rows, cols = rng.choice([(2, 3), (4, 4), (3, 5)])
    src, n, rows, cols = _sources(rng, source, n, rows, cols)
    seg_type = seg_type or rng.choice(['BINARY', 'FRACTIONAL', 'LABELMAP'])
    nseg = rng.randint(1, 3)
    if seg_type == 'FRACTIONAL':
        dt = dtype or rng.choice(['uint8', 'float32', 'float64', 'bool'])
        if dt.startswith('float'):
            arr = np.array([rng.choice([0.0, 1.0, 0.5, 0.25]) for _ in range(n * rows * cols * nseg)],
                           dtype=dt).reshape(n, rows, cols, nseg)
        else:
            arr = np.array([rng.randint(0, 1) for _ in range(n * rows * cols * nseg)],
                           dtype=dt).reshape(n, rows, cols, nseg)
    else:
        dt = dtype or rng.choice(['uint8', 'uint16', 'bool'] if seg_type == 'BINARY' else ['uint8', 'uint16'])
        if dt == 'bool':
            arr = np.array([rng.random() < 0.5 for _ in range(n * rows * cols * nseg)]).reshape(n, rows, cols, nseg)
        else:
            arr = np.array([rng.randint(0, nseg) for _ in range(n * rows * cols)], dtype=dt).reshape(n, rows, cols)
    if layout is not None:
        arr = _relayout(arr, layout)
    elif rng.random() < 0.3:
        arr = np.asfortranarray(arr)
    descs = [synth.seg_description(k + 1, label=_bstr(rng, 64), category=_coded(rng), ptype=_coded(rng),
                                   algorithm_type=rng.choice(['MANUAL', 'AUTOMATIC']),
                                   tracking_uid=rng.choice([None, hd.UID()]), tracking_id=_bstr(rng, 64))
             for k in range(nseg)]
    kw = {}
    if rng.random() < (0.4 if source in (None, 'series') else 0.25):
        kw['pixel_measures'] = hd.PixelMeasuresSequence(pixel_spacing=(1.0, 1.0), slice_thickness=1.0)
    if palette is not None and seg_type == 'LABELMAP':
        # a palette colour table with more entries than segments: 8/16 bit, odd/even sizes,
        # through every public way of building the transformation
        bits, n, via = palette
        n = max(n, nseg + 1)
        cols = [[rng.randrange(2 ** bits) for _ in range(n)] for _ in range(3)]
        tf, owned = _palette_from(bits, 0, cols[0], cols[1], cols[2], via, rng.choice(['C', 'strided', 'readonly']))
        kw['palette_color_lut_transformation'] = tf
        kw['_owned'] = [tf] + owned
    return src, arr, seg_type, descs, kw


def _make_seg(rng, **k):
    import highdicom as hd
    src, arr, seg_type, descs, kw = _seg(rng, **k)
    kw.pop('_owned', None)
    return hd.seg.Segmentation(src, arr, seg_type, descs, series_instance_uid=hd.UID(), series_number=1,
                               sop_instance_uid=hd.UID(), instance_number=1, manufacturer='m',
                               manufacturer_model_name='mm', software_versions='1', device_serial_number='sn', **kw)


def _ann(rng, layout=None):
    import numpy as np
    import highdicom as hd
    import synth
    from highdicom.ann import AnnotationGroup, Measurements, MicroscopyBulkSimpleAnnotations
    from pydicom.sr.codedict import codes
    sm = synth.base('sm_image.dcm')
    groups, arrays = [], []
    for g in range(rng.randint(1, 2)):
        na = rng.randint(1, 4)
        dt = rng.choice([np.float32, np.float64])
        gd = [np.array([[rng.randint(0, 400) / 8, rng.randint(0, 400) / 8] for _ in range(3)], dtype=dt)
              for _ in range(na)]
        vals = np.array([rng.randint(0, 100) / 4 for _ in range(na)], dtype=np.float32)
        if layout is not None:
            gd = [_relayout(x, layout) for x in gd]
            vals = _relayout(vals, layout)
        meas = [Measurements(_coded(rng), vals, rng.choice([codes.UCUM.SquareMicrometer, _coded(rng)]))] \
            if rng.random() < 0.6 else None
        arrays += gd + [vals]
        groups.append(AnnotationGroup(g + 1, hd.UID(), _bstr(rng, 64), _coded(rng), _coded(rng), 'POLYLINE', gd,
                                      *rng.choice([('MANUAL', None), ('AUTOMATIC', hd.AlgorithmIdentificationSequence(
                                          name=_bstr(rng, 64), version=_bstr(rng, 64),
                                          family=codes.cid7162.ArtificialIntelligence))]),
                                      measurements=meas))
    return sm, groups, arrays


def _make_ann(rng):
    import highdicom as hd
    from highdicom.ann import MicroscopyBulkSimpleAnnotations
    sm, groups, _ = _ann(rng)
    return MicroscopyBulkSimpleAnnotations([sm], '2D', groups, hd.UID(), 1, hd.UID(), 1, 'm', 'mm', '1', 'sn')


def _kos(rng):
    import highdicom as hd
    import synth
    from highdicom.ko import KeyObjectSelection, KeyObjectSelectionDocument
    from pydicom.sr.codedict import codes
    cts = synth.ct_series(rng.randint(1, 3), 2, 2)
    content = KeyObjectSelection(document_title=codes.DCM.Manifest, referenced_objects=cts)
    return cts, content


def _lut_ds(rng):
    import numpy as np
    import highdicom as hd
    n = rng.choice([4, 16, 256])
    data = np.arange(n, dtype=rng.choice([np.uint8, np.uint16]))
    return hd.LUT(first_mapped_value=rng.randint(0, 5), lut_data=data, lut_explanation=rng.choice([None, 'x']))


def _sr_sub(rng, name):
    """Objects of highdicom.sr.content that have a from_dataset."""
    import numpy as np
    import highdicom as hd
    from highdicom import sr
    from pydicom.sr.codedict import codes
    u = hd.UID()
    if name == 'SourceImageForMeasurementGroup':
        return sr.SourceImageForMeasurementGroup('1.2.840.10008.5.1.4.1.1.2', u)
    if name == 'SourceImageForMeasurement':
        return sr.SourceImageForMeasurement('1.2.840.10008.5.1.4.1.1.2', u)
    if name == 'SourceImageForRegion':
        return sr.SourceImageForRegion('1.2.840.10008.5.1.4.1.1.2', u, rng.choice([None, [1, 2]]))
    if name == 'SourceImageForSegmentation':
        return sr.SourceImageForSegmentation('1.2.840.10008.5.1.4.1.1.2', u)
    if name == 'SourceSeriesForSegmentation':
        return sr.SourceSeriesForSegmentation(u)
    if name == 'ImageRegion':
        return sr.ImageRegion('POLYLINE', np.array([[1.0, 1.0], [2.0, float(rng.randint(1, 5))]]),
                              sr.SourceImageForRegion('1.2.840.10008.5.1.4.1.1.2', u))
    if name == 'ImageRegion3D':
        return sr.ImageRegion3D('POINT', np.array([[1.0, 1.0, float(rng.randint(1, 5))]]), hd.UID())
    if name == 'FindingSite':
        return sr.FindingSite(codes.SCT.Tissue, laterality=rng.choice([None, codes.SCT.Left]))
    if name == 'LongitudinalTemporalOffsetFromEvent':
        return sr.LongitudinalTemporalOffsetFromEvent(5, codes.UCUM.Day, codes.DCM.Baseline)
    raise ValueError(name)


def _conv_std(cls_getter, builder):
    return dict(mode='std', cls=cls_getter, arg=builder)


def _g(path):
    def get():
        import importlib
        mod, name = path.rsplit('.', 1)
        return getattr(importlib.import_module(mod), name)
    return get


CONVERTERS = {}
CONVERTERS['CodedConcept.from_dataset'] = dict(
    mode='std', call=lambda a, cp: _g('highdicom.sr.CodedConcept')().from_dataset(a, copy=cp),
    arg=lambda rng: _plain(_coded(rng)))
for _vt, _cn in [('CODE', 'CodeContentItem'), ('TEXT', 'TextContentItem'), ('NUM', 'NumContentItem'),
                 ('PNAME', 'PnameContentItem'), ('TIME', 'TimeContentItem'), ('DATE', 'DateContentItem'),
                 ('DATETIME', 'DateTimeContentItem'), ('UIDREF', 'UIDRefContentItem'),
                 ('COMPOSITE', 'CompositeContentItem'), ('IMAGE', 'ImageContentItem'),
                 ('SCOORD', 'ScoordContentItem'), ('SCOORD3D', 'Scoord3DContentItem'),
                 ('TCOORD', 'TcoordContentItem'), ('CONTAINER', 'ContainerContentItem')]:
    CONVERTERS[_cn + '.from_dataset'] = dict(
        mode='std', call=(lambda cn: lambda a, cp: _g('highdicom.sr.' + cn)().from_dataset(a, copy=cp))(_cn),
        arg=(lambda vt: lambda rng: _plain(_item(rng, vt)))(_vt))
for _cn in ['SourceImageForMeasurementGroup', 'SourceImageForMeasurement', 'SourceImageForRegion',
            'SourceImageForSegmentation', 'SourceSeriesForSegmentation', 'ImageRegion', 'ImageRegion3D',
            'FindingSite', 'LongitudinalTemporalOffsetFromEvent']:
    CONVERTERS[_cn + '.from_dataset'] = dict(
        mode='std', call=(lambda cn: lambda a, cp: _g('highdicom.sr.' + cn)().from_dataset(a, copy=cp))(_cn),
        arg=(lambda cn: lambda rng: _plain(_sr_sub(rng, cn)))(_cn))
CONVERTERS['ContentSequence.from_sequence'] = dict(
    mode='wrap', call=lambda a, cp: _g('highdicom.sr.ContentSequence')().from_sequence(a, copy=cp),
    arg=lambda rng: _plain_seq([_item(rng, rng.choice(VALUE_TYPES)) for _ in range(rng.randint(1, 4))]))
CONVERTERS['MeasurementReport.from_sequence'] = dict(
    mode='wrap', call=lambda a, cp: _g('highdicom.sr.MeasurementReport')().from_sequence(a, copy=cp),
    arg=lambda rng: _plain_seq(_sr_doc(rng)[2]))
for _cn in ['ComprehensiveSR', 'Comprehensive3DSR', 'EnhancedSR']:
    CONVERTERS[_cn + '.from_dataset'] = dict(
        mode='std', call=(lambda cn: lambda a, cp: _g('highdicom.sr.' + cn)().from_dataset(a, copy=cp))(_cn),
        arg=(lambda cn: lambda rng: _file_roundtrip(_sr_doc(rng, cn)[0]))(_cn))
CONVERTERS['Segmentation.from_dataset'] = dict(
    mode='std', call=lambda a, cp: _g('highdicom.seg.Segmentation')().from_dataset(a, copy=cp),
    arg=lambda rng: _file_roundtrip(_make_seg(rng)))
CONVERTERS['SegmentDescription.from_dataset'] = dict(
    mode='std', call=lambda a, cp: _g('highdicom.seg.SegmentDescription')().from_dataset(a, copy=cp),
    arg=lambda rng: _plain(__import__('synth').seg_description(
        rng.randint(1, 9), algorithm_type=rng.choice(['MANUAL', 'AUTOMATIC']))))
CONVERTERS['AlgorithmIdentificationSequence.from_sequence'] = dict(
    mode='std', call=lambda a, cp: _g('highdicom.AlgorithmIdentificationSequence')().from_sequence(a, copy=cp),
    arg=lambda rng: _plain_seq(_g('highdicom.AlgorithmIdentificationSequence')()(
        name=_bstr(rng, 64), version=_bstr(rng, 64), family=_coded(rng))))
CONVERTERS['PixelMeasuresSequence.from_sequence'] = dict(
    mode='std', call=lambda a, cp: _g('highdicom.PixelMeasuresSequence')().from_sequence(a, copy=cp),
    arg=lambda rng: _plain_seq(_g('highdicom.PixelMeasuresSequence')()(
        pixel_spacing=(0.5, float(rng.randint(1, 4))), slice_thickness=1.0,
        spacing_between_slices=rng.choice([None, 2.5]))))
CONVERTERS['PlanePositionSequence.from_sequence'] = dict(
    mode='std', call=lambda a, cp: _g('highdicom.PlanePositionSequence')().from_sequence(a, copy=cp),
    arg=lambda rng: _plain_seq(_g('highdicom.PlanePositionSequence')()(
        'PATIENT', (1.0, 2.0, float(rng.randint(0, 9))))))
CONVERTERS['PlaneOrientationSequence.from_sequence'] = dict(
    mode='std', call=lambda a, cp: _g('highdicom.PlaneOrientationSequence')().from_sequence(a, copy=cp),
    arg=lambda rng: _plain_seq(_g('highdicom.PlaneOrientationSequence')()(
        'PATIENT', rng.choice([(1, 0, 0, 0, 1, 0), (0, 1, 0, 0, 0, -1)]))))
CONVERTERS['LUT.from_dataset'] = dict(
    mode='std', call=lambda a, cp: _g('highdicom.LUT')().from_dataset(a, copy=cp),
    arg=lambda rng: _plain(_lut_ds(rng)))
CONVERTERS['IssuerOfIdentifier.from_dataset'] = dict(
    mode='std', call=lambda a, cp: _g('highdicom.IssuerOfIdentifier')().from_dataset(a, copy=cp),
    arg=lambda rng: _plain(_g('highdicom.IssuerOfIdentifier')()(
        *rng.choice([('lab',), ('1.2.3', 'ISO')]))))
CONVERTERS['MicroscopyBulkSimpleAnnotations.from_dataset'] = dict(
    mode='std', call=lambda a, cp: _g('highdicom.ann.MicroscopyBulkSimpleAnnotations')().from_dataset(a, copy=cp),
    arg=lambda rng: _file_roundtrip(_make_ann(rng)))
CONVERTERS['AnnotationGroup.from_dataset'] = dict(
    mode='std', call=lambda a, cp: _g('highdicom.ann.AnnotationGroup')().from_dataset(a, copy=cp),
    arg=lambda rng: _file_roundtrip(_make_ann(rng)).AnnotationGroupSequence[0])
CONVERTERS['Image.from_dataset'] = dict(
    mode='std', call=lambda a, cp: _g('highdicom.Image')().from_dataset(a, copy=cp),
    arg=lambda rng: __import__('synth').ct_frame((0.0, 0.0, 1.0), rng.randint(2, 5), rng.randint(2, 5)))
CONVERTERS['KeyObjectSelectionDocument.from_dataset'] = dict(
    mode='nocopy', call=lambda a, cp: _g('highdicom.ko.KeyObjectSelectionDocument')().from_dataset(a),
    arg=lambda rng: _file_roundtrip(_make_kos(rng)))
CONVERTERS['Measurement.from_sequence'] = dict(
    mode='nocopy', call=lambda a, cp: _g('highdicom.sr.Measurement')().from_sequence(a),
    arg=lambda rng: _g('highdicom.sr.ContentSequence')().from_sequence(_plain_seq([_item(rng, 'NUM')])))
CONVERTERS['QualitativeEvaluation.from_sequence'] = dict(
    mode='nocopy', call=lambda a, cp: _g('highdicom.sr.QualitativeEvaluation')().from_sequence(a),
    arg=lambda rng: _plain_seq([_item(rng, 'CODE')]))
CONVERTERS['PlanarROIMeasurementsAndQualitativeEvaluations.from_sequence'] = dict(
    mode='nocopy',
    call=lambda a, cp: _g('highdicom.sr.PlanarROIMeasurementsAndQualitativeEvaluations')().from_sequence(a),
    arg=lambda rng: _plain_seq(_sr_doc(rng)[2].get_planar_roi_measurement_groups()[0]))
CONVERTERS['PersonObserverIdentifyingAttributes.from_sequence'] = dict(
    mode='nocopy', call=lambda a, cp: _g('highdicom.sr.PersonObserverIdentifyingAttributes')().from_sequence(a),
    arg=lambda rng: _plain_seq(_g('highdicom.sr.PersonObserverIdentifyingAttributes')()(
        name='Foo^Bar', login_name=rng.choice([None, 'foo']), organization_name=rng.choice([None, 'org']))))
CONVERTERS['DeviceObserverIdentifyingAttributes.from_sequence'] = dict(
    mode='nocopy', call=lambda a, cp: _g('highdicom.sr.DeviceObserverIdentifyingAttributes')().from_sequence(a),
    arg=lambda rng: _plain_seq(_g('highdicom.sr.DeviceObserverIdentifyingAttributes')()(
        uid=_g('highdicom.UID')()(), name=rng.choice([None, 'dev']), manufacturer_name=rng.choice([None, 'm']))))


def _specimen_step(rng):
    import highdicom as hd
    from pydicom.sr.codedict import codes
    proc = rng.choice([hd.SpecimenCollection(procedure=codes.SCT.Biopsy),
                       hd.SpecimenStaining(substances=[codes.SCT.HematoxylinStain, codes.SCT.WaterSolubleEosinStain]),
                       hd.SpecimenProcessing(description='cut')])
    return hd.SpecimenPreparationStep('spec' + str(rng.randint(1, 9)), processing_procedure=proc)


CONVERTERS['SpecimenPreparationStep.from_dataset'] = dict(
    mode='nocopy', call=lambda a, cp: _g('highdicom.SpecimenPreparationStep')().from_dataset(a),
    arg=lambda rng: _plain(_specimen_step(rng)))
CONVERTERS['KeyObjectSelection.from_sequence'] = dict(
    mode='nocopy', call=lambda a, cp: _g('highdicom.ko.KeyObjectSelection')().from_sequence(a, is_root=True),
    arg=lambda rng: _plain_seq(_kos(rng)[1]))


def _make_kos(rng):
    import highdicom as hd
    from highdicom.ko import KeyObjectSelectionDocument
    cts, content = _kos(rng)
    return KeyObjectSelectionDocument(evidence=cts, content=content, series_instance_uid=hd.UID(), series_number=1,
                                      sop_instance_uid=hd.UID(), instance_number=1, manufacturer='m')


def _node_ids(x):
    ids = set()
    _snap(x, ids)
    return ids


def run_converter(c):
    import random
    import warnings
    warnings.simplefilter('ignore')
    spec = CONVERTERS[c['target']]
    rng = random.Random(c['seed'])
    arg = spec['arg'](rng)
    cp = c['copy']
    hist = c.get('hist', 'plain')
    if hist != 'plain':
        # HISTORY of the argument: it already is an object of the library's class, obtained by an earlier
        # conversion (in place / with copying) of the plain dataset - the hooks the class installs for
        # copying (__deepcopy__, __getstate__ ...) now run on the CALLER'S object
        arg = spec['call'](arg, hist == 'copy')
    ids0 = set()
    before = _snap(arg, ids0)
    cls0 = type(arg)
    items0 = list(arg) if spec['mode'] == 'wrap' else None
    res = spec['call'](arg, cp)
    after = _snap(arg)
    out = {'ran': True, 'result_class': type(res).__name__, 'same': res is arg}
    mode = spec['mode']
    if cp or mode == 'nocopy':
        d = _first_diff(before, after)
        if d:
            was = '' if hist == 'plain' else f' (a {cls0.__name__} obtained by an earlier conversion' + \
                ('' if mode == 'nocopy' else ' with copying' if hist == 'copy' else ' in place') + ')'
            out['violation'] = (f"{c['target']}(copy={cp if mode != 'nocopy' else 'n/a'}) modified its "
                                f"argument{was}: {d}")
            return out
        if res is arg:
            out['violation'] = f"{c['target']}(copy=True) returned the argument itself"
            return out
        if mode != 'nocopy':
            shared = _node_ids(res) & ids0
            if shared:
                out['violation'] = (f"{c['target']}(copy=True): result shares {len(shared)} nested "
                                    f"dataset/sequence object(s) with the argument")
                return out
    else:
        if mode == 'std' and res is not arg:
            out['violation'] = f"{c['target']}(copy=False) returned a different object"
            return out
        if mode == 'wrap' and not (len(res) == len(items0) and all(r is a for r, a in zip(res, items0))):
            out['violation'] = f"{c['target']}(copy=False) did not return the items it was given"
            return out
        if mode == 'std' and type(arg) is cls0 and 'Sequence' not in cls0.__name__ and cls0.__name__ in (
                'Dataset', 'FileDataset'):
            out['violation'] = f"{c['target']}(copy=False) left the argument an unconverted {cls0.__name__}"
            return out
    return out


# ---- constructors ------------------------------------------------------------
# A builder takes (rng, opt) and returns (caller-owned arguments, make[, post]):
# make() calls the public constructor (an object or, for entry points that build
# several objects in one call, a list of objects); post(obj, read_back) is an extra
# independent check of what was stored.  opt carries the explicit dimensions of the
# case (memory layout, dtype, rank, palette ...), absent keys are drawn from rng.
def _b_seg(seg_type):
    def build(rng, opt=None):
        import highdicom as hd
        opt = opt or {}
        src, arr, st, descs, kw = _seg(rng, seg_type=seg_type, dtype=opt.get('dtype'), layout=opt.get('layout'),
                                       palette=opt.get('palette'), source=opt.get('source'))
        owned = kw.pop('_owned', [])
        if opt.get('ts') == 'rle' and st != 'BINARY':
            kw['transfer_syntax_uid'] = '1.2.840.10008.1.2.5'        # RLE Lossless: the encoder sees the frames
        args = [src, arr, descs] + ([kw['pixel_measures']] if 'pixel_measures' in kw else []) + owned
        strs = dict(manufacturer=_bstr(rng, 64), manufacturer_model_name=_bstr(rng, 64),
                    software_versions=_bstr(rng, 64), device_serial_number=_bstr(rng, 64),
                    content_label=_bstr(rng, 16, cs=True), content_description=_bstr(rng, 64),
                    series_description=_bstr(rng, 64))

        def make():
            return hd.seg.Segmentation(src, arr, st, descs, series_instance_uid=hd.UID(), series_number=1,
                                       sop_instance_uid=hd.UID(), instance_number=1, **strs, **kw)

        def post(obj, back):
            tf = kw.get('palette_color_lut_transformation')
            if tf is None:
                return None
            for col in ('Red', 'Green', 'Blue'):
                for suffix in ('Descriptor', 'Data'):
                    k = f'{col}PaletteColorLookupTable{suffix}'
                    if k not in obj or obj[k].value != tf[k].value:
                        return f'{k} of the object is not the table of the transformation passed in'
            return None
        return args, make, post
    return build


def _b_pm(rng, opt=None):
    import numpy as np
    import highdicom as hd
    import synth
    from pydicom.sr.codedict import codes
    opt = opt or {}
    rows, cols = rng.choice([(2, 3), (4, 4)])
    ndim = opt.get('ndim', 4)
    P = 1 if ndim == 2 else rng.randint(1, 3)
    src = None
    if opt.get('source'):
        src, P, rows, cols = _sources(rng, opt['source'], P, rows, cols)
    M = opt.get('maps', 1) if ndim == 4 else 1
    dt = np.dtype(opt.get('dtype') or rng.choice(['u1', 'u2', 'f4', 'f8']))
    shape = {2: (rows, cols), 3: (P, rows, cols), 4: (P, rows, cols, M)}[ndim]
    count = P * rows * cols * M
    if dt.kind == 'f':
        arr = np.array([rng.choice([1.5, -2.25, 0.0, rng.random() * 100]) for _ in range(count)], dtype=dt)
        vr = (-1e30, 1e30)
    else:
        arr = np.array([rng.randint(0, np.iinfo(dt).max) for _ in range(count)], dtype=dt)
        vr = (0, int(np.iinfo(dt).max))
    arr = arr.reshape(shape)
    expected = arr.astype(dt.newbyteorder('=')).reshape(P, rows, cols, M).transpose(0, 3, 1, 2).reshape(P * M, rows, cols)
    if 'layout' in opt:
        arr = _relayout(arr, opt['layout'])
    elif rng.random() < 0.3:
        arr = np.asfortranarray(arr)

    def mapping():
        return hd.pm.RealWorldValueMapping(lut_label=_bstr(rng, 16), lut_explanation=_bstr(rng, 64),
                                           unit=rng.choice([codes.UCUM.NoUnits, _coded(rng)]),
                                           value_range=vr, slope=2.0, intercept=-0.5)
    flat = [mapping() for _ in range(M)]
    maps = [[m] for m in flat] if ndim == 4 else flat
    if src is None:
        src = synth.ct_series(P, rows, cols)
    kw, owned = {}, []
    if opt.get('palette') is not None and dt.kind == 'u':
        bits, n, via = opt['palette']
        cols3 = [[rng.randrange(2 ** bits) for _ in range(n)] for _ in range(3)]
        tf, owned = _palette_from(bits, 0, cols3[0], cols3[1], cols3[2], via)
        kw['palette_color_lut_transformation'] = tf
        owned = [tf] + owned

    def make():
        return hd.pm.ParametricMap(src, arr, hd.UID(), 1, hd.UID(), 1, 'm', 'mm', '1', 'sn',
                                   contains_recognizable_visual_features=False, real_world_value_mappings=maps,
                                   window_center=1.0, window_width=2.0, **kw)

    def post(obj, back):
        # the stored (little-endian) pixel data decode to the VALUES that were passed in
        for kwd, code in (('FloatPixelData', '<f4'), ('DoubleFloatPixelData', '<f8'), ('PixelData', None)):
            if kwd in back:
                code = code or ('<u1' if back.BitsAllocated == 8 else '<u2')
                got = np.frombuffer(back[kwd].value, code)[:P * M * rows * cols].reshape(P * M, rows, cols)
                if not np.array_equal(got, expected.astype(got.dtype.newbyteorder('='))):
                    return f'{kwd} does not hold the values of the pixel array passed in'
                return None
        return 'no pixel data element'
    return [src, arr] + flat + owned, make, post


def _sc_shape(rng, opt):
    kind = opt.get('sc_kind') or rng.choice(['u8', 'u16', 'rgb'])
    rows, cols = rng.choice([(2, 4), (3, 5), (4, 4)])
    return kind, rows, cols


def _b_sc(rng, opt=None):
    import numpy as np
    import highdicom as hd
    opt = opt or {}
    kind, rows, cols = _sc_shape(rng, opt)
    if kind == 'u8':
        a = np.array([rng.randint(0, 255) for _ in range(rows * cols)], np.uint8).reshape(rows, cols)
        ba, pi = 8, rng.choice(['MONOCHROME1', 'MONOCHROME2'])
    elif kind == 'u16':
        a = np.array([rng.randint(0, 4095) for _ in range(rows * cols)], np.uint16).reshape(rows, cols)
        ba, pi = rng.choice([16, 12]), 'MONOCHROME2'
        if opt.get('ts') == 'rle':
            ba = 16      # RLE Lossless: bits allocated must be a multiple of 8 (12 is refused by design)
    else:
        a = np.array([rng.randint(0, 255) for _ in range(rows * cols * 3)], np.uint8).reshape(rows, cols, 3)
        ba, pi = 8, 'RGB'
    expected = a.copy()
    if 'layout' in opt:
        a = _relayout(a, opt['layout'])
    elif rng.random() < 0.3:
        a = np.asfortranarray(a)

    tskw = {'transfer_syntax_uid': '1.2.840.10008.1.2.5'} if opt.get('ts') == 'rle' else {}
    spacing = None          # the optional physical pixel spacing: short and long float reprs (see kind ctor_num)
    if rng.random() < 0.5:
        spacing = rng.choice([[0.5, 0.5], (1 / 3, 0.25), [0.1 + 0.2, 2 / 7], (25.4 / 600, 25.4 / 600), [2, 1]])
        tskw = dict(tskw, pixel_spacing=spacing)

    def make():
        return hd.sc.SCImage(a, pi, ba, 'PATIENT', hd.UID(), hd.UID(), 1, hd.UID(), 1, 'm', patient_id='p',
                             patient_name='a^b', patient_birth_date='19700101', patient_sex='O',
                             accession_number='1', study_id='1', study_date='20200101', study_time='101010',
                             referring_physician_name='x^y', patient_orientation=('L', 'P'), **tskw)

    def post(obj, back):
        if spacing is not None:
            d = _num_close(back.PixelSpacing, spacing, 'PixelSpacing') if 'PixelSpacing' in back else \
                'PixelSpacing is not in the file'
            if d:
                return d
        if 'transfer_syntax_uid' in tskw:
            got = back.pixel_array
            return None if np.array_equal(got.reshape(expected.shape), expected) else \
                'decoded RLE PixelData does not hold the values of the pixel array passed in'
        got = np.frombuffer(back.PixelData, '<u1' if back.BitsAllocated == 8 else '<u2')[:expected.size]
        if not np.array_equal(got.reshape(expected.shape), expected):
            return 'PixelData does not hold the values of the pixel array passed in'
        return None
    return [a] + ([spacing] if spacing is not None else []), make, post


def _b_sr(cls_name):
    def build(rng, opt=None):
        import highdicom as hd
        from highdicom import sr
        _, ct, report = _sr_doc(rng, cls_name)

        def make():
            return getattr(sr, cls_name)(evidence=[ct], content=report, series_instance_uid=hd.UID(),
                                         series_number=1, sop_instance_uid=hd.UID(), instance_number=1,
                                         manufacturer='m')
        return [ct, report], make
    return build


def _b_ko(rng, opt=None):
    import highdicom as hd
    from highdicom.ko import KeyObjectSelectionDocument
    cts, content = _kos(rng)

    def make():
        return KeyObjectSelectionDocument(evidence=cts, content=content, series_instance_uid=hd.UID(),
                                          series_number=1, sop_instance_uid=hd.UID(), instance_number=1,
                                          manufacturer='m')
    return [cts, content], make


def _b_ann(rng, opt=None):
    import highdicom as hd
    from highdicom.ann import MicroscopyBulkSimpleAnnotations
    sm, groups, arrays = _ann(rng, (opt or {}).get('layout'))

    def make():
        return MicroscopyBulkSimpleAnnotations([sm], '2D', groups, hd.UID(), 1, hd.UID(), 1, 'm', 'mm', '1', 'sn')
    return [sm, groups] + arrays, make


def _b_pr(rng, opt=None):
    """Presentation states: grayscale with a VOI window / VOI LUT / modality LUT, pseudo-colour
    with a 16-bit palette colour table of odd or even size."""
    import numpy as np
    import highdicom as hd
    import synth
    opt = opt or {}
    form = opt.get('pr') or rng.choice(['window', 'voilut', 'modlut', 'pseudocolor'])
    cts, smallest = _pr_refs(rng, opt.get('refs'), 3 if form == 'color' else 1)
    if opt.get('container') == 'tuple':
        cts = tuple(cts)
    common_kw = dict(referenced_images=cts, series_number=1, instance_number=1,
                     manufacturer='m', manufacturer_model_name='mm', software_versions='1',
                     device_serial_number=_bstr(rng, 64), content_label=_bstr(rng, 16, cs=True),
                     content_description=_bstr(rng, 64))
    owned = []
    n = opt.get('entries') or rng.choice([3, 4, 5, 256])
    lay = opt.get('layout', 'C')
    if form == 'voilut':
        data = _relayout(np.array([rng.randrange(65536) for _ in range(n)], np.uint16), lay)
        voi = [hd.pr.SoftcopyVOILUTTransformation(voi_luts=[hd.VOILUT(rng.randint(0, 5), data, 'x')])]
        owned = [data]
    else:
        voi = [hd.pr.SoftcopyVOILUTTransformation(window_center=float(rng.randint(1, 80)), window_width=400.0)]
    kw = dict(voi_lut_transformations=voi)
    if form == 'modlut':
        data = _relayout(np.array([rng.randrange(65536) for _ in range(n)], np.uint16), lay)
        kw['modality_lut_transformation'] = hd.ModalityLUTTransformation(
            modality_lut=hd.ModalityLUT('HU', rng.randint(0, 5), data))
        owned = [data, kw['modality_lut_transformation']]
    if form == 'pseudocolor':
        cols3 = [[rng.randrange(65536) for _ in range(n)] for _ in range(3)]
        # (a combined array in non-native byte order is refused by from_combined_lut: kind lut)
        tf, more = _palette_from(16, 0, cols3[0], cols3[1], cols3[2],
                                 'luts' if 'swapped' in lay else rng.choice(['luts', 'combined']), lay)
        kw['palette_color_lut_transformation'] = tf
        owned = [tf] + more

    if form == 'color':
        kw = {}

    def make():
        cls = hd.pr.PseudoColorSoftcopyPresentationState if form == 'pseudocolor' else \
            hd.pr.ColorSoftcopyPresentationState if form == 'color' else hd.pr.GrayscaleSoftcopyPresentationState
        return cls(series_instance_uid=hd.UID(), sop_instance_uid=hd.UID(), **common_kw, **kw)

    def post(obj, back):
        listed = sorted(str(it.ReferencedSOPInstanceUID) for sr in back.ReferencedSeriesSequence
                        for it in sr.ReferencedImageSequence)
        if listed != sorted(str(d.SOPInstanceUID) for d in cts):
            return 'the Referenced Series Sequence does not list exactly the referenced images passed in'
        area = back.DisplayedAreaSelectionSequence[0]
        if smallest is not None:
            got = [str(it.ReferencedSOPInstanceUID) for it in area.get('ReferencedImageSequence', [])]
            if got != [str(smallest.SOPInstanceUID)] or [int(v) for v in area.DisplayedAreaBottomRightHandCorner] != \
                    [int(smallest.TotalPixelMatrixColumns), int(smallest.TotalPixelMatrixRows)]:
                return 'the displayed area is not the total pixel matrix of the (first) smallest referenced level'
        return None
    return [cts, voi] + owned, make, post


PR_REFS = ['series', 'series_rev', 'mf', 'tiled', 'pyramid_desc', 'pyramid_asc', 'pyramid_mixed', 'pyramid_ties']


def _pr_refs(rng, refs, samples):
    """Referenced images of a presentation state: a single-frame series (any order), one multi-frame
    image, one tiled slide image, or several levels of a multi-resolution pyramid in the order the
    caller happens to hold them (base level first, smallest first, mixed, levels of equal size).
    Returns (images, the level whose area must be displayed or None)."""
    import highdicom as hd
    import synth
    if refs in (None, 'series'):
        return synth.ct_series(rng.randint(1, 3), 4, 4), None
    if refs == 'series_rev':
        return synth.ct_series(rng.randint(2, 3), 4, 4)[::-1], None
    if refs == 'mf':
        return [synth.ct_multiframe([0.0, 2.5, 5.0][:rng.randint(1, 3)], 4, 4)], None
    series, pyr = hd.UID(), hd.UID()

    def level(f):
        ds = synth.sm_tiled(32 // f, 32 // f, 8, 8, samples=samples, spacing=(0.5 * f, 0.5 * f))
        ds.SeriesInstanceUID, ds.PyramidUID = series, pyr
        return ds
    if refs == 'tiled':
        lv = [level(rng.choice([1, 2]))]
    elif refs == 'pyramid_ties':
        lv = [level(f) for f in rng.choice([(1, 2, 2), (2, 1, 2), (4, 4), (1, 4, 2, 4)])]
    else:
        lv = [level(f) for f in ((1, 2, 4) if rng.random() < 0.6 else (1, 2))]
        if refs == 'pyramid_asc':
            lv = lv[::-1]
        elif refs == 'pyramid_mixed':
            lv = lv[1:] + lv[:1]
    smallest = min(lv, key=lambda d: int(d.TotalPixelMatrixRows) * int(d.TotalPixelMatrixColumns))
    return lv, smallest


def _b_pyramid(rng, opt=None):
    """One call, several objects: hd.seg.create_segmentation_pyramid through each of its
    three input forms, with and without identifiers passed by the caller."""
    import numpy as np
    import highdicom as hd
    import synth
    opt = opt or {}
    mode = opt.get('mode') or rng.choice(['factors', 'sources', 'arrays'])
    levels = opt.get('levels') or rng.choice([2, 3])
    sizes = [(24, 32), (12, 16), (6, 8)][:levels]
    st = rng.choice(['BINARY', 'FRACTIONAL'])
    nseg = rng.randint(1, 2)
    dt = rng.choice(['uint8', 'bool'] if st == 'BINARY' else ['uint8', 'float32'])

    def mask(r, c):
        if dt == 'uint8' and st == 'BINARY':
            return np.array([rng.randint(0, nseg) for _ in range(r * c)], np.uint8).reshape(r, c)
        a = np.array([rng.random() < 0.4 for _ in range(r * c * nseg)]).reshape(1, r, c, nseg)
        return a.astype(dt)
    series, pyr = hd.UID(), hd.UID()
    nsrc = levels if mode == 'sources' else 1
    sources = []
    for (r, c) in sizes[:nsrc]:
        ds = synth.sm_tiled(r, c, 8, 8, spacing=(0.5 * sizes[0][0] / r, 0.5 * sizes[0][1] / c))
        ds.SeriesInstanceUID, ds.PyramidUID = series, pyr
        sources.append(ds)
    arrays = [_relayout(mask(r, c), opt.get('layout', 'C')) for (r, c) in (sizes if mode == 'arrays' else sizes[:1])]
    kw = {}
    if mode == 'factors':
        kw['downsample_factors'] = [2.0, 4.0][:levels - 1]
    given = [hd.UID() for _ in range(levels)] if opt.get('uids') == 'given' else None
    if given is not None:
        kw['sop_instance_uids'] = given
    descs = [synth.seg_description(k + 1) for k in range(nseg)]

    def make():
        return hd.seg.create_segmentation_pyramid(
            source_images=sources, pixel_arrays=arrays, segmentation_type=st, segment_descriptions=descs,
            series_instance_uid=None if opt.get('series') == 'default' else hd.UID(), series_number=1, manufacturer='m',
            manufacturer_model_name='mm', software_versions='1', device_serial_number='sn', **kw)

    def post(objs, backs):
        if len(objs) != levels:
            return f'{len(objs)} levels built, {levels} expected'
        if given is not None and [str(o.SOPInstanceUID) for o in objs] != [str(u) for u in given]:
            return 'sop_instance_uids passed by the caller are not the identifiers of the levels'
        return None
    return [sources, arrays, descs] + ([given] if given else []), make, post


def _b_legacy(rng, opt=None):
    import highdicom as hd
    import synth
    from highdicom.legacy import LegacyConvertedEnhancedCTImage
    cts = synth.ct_series(rng.randint(1, 3), 4, 4)

    def make():
        return LegacyConvertedEnhancedCTImage(cts, hd.UID(), 1, hd.UID(), 1)
    return [cts], make


def _b_content(kind):
    """Content classes built on their own (not SOP instances)."""
    def build(rng, opt=None):
        import random
        sub = rng.getrandbits(32)

        def make():
            import highdicom as hd
            import synth
            r = random.Random(sub)
            if kind == 'coded_concept':
                return _coded(r)
            if kind == 'content_item':
                return _item(r, r.choice(VALUE_TYPES))
            if kind == 'segment_description':
                return synth.seg_description(r.randint(1, 9), label=_bstr(r, 64), category=_coded(r),
                                             ptype=_coded(r), algorithm_type='AUTOMATIC', tracking_uid=hd.UID(),
                                             tracking_id=_bstr(r, 64))
            if kind == 'algorithm_identification':
                return hd.AlgorithmIdentificationSequence(
                    name=_bstr(r, 64), version=_bstr(r, 64), family=_coded(r), source=_bstr(r, 64),
                    parameters={_bstr(r, 8): _bstr(r, 8)})
            raise ValueError(kind)
        return [], make
    return build


def _b_generated_ids(kind):
    """Content classes that generate an identifier when the caller passes none, several per call."""
    def build(rng, opt=None):
        import random
        sub = rng.getrandbits(32)

        def make():
            import highdicom as hd
            from highdicom import sr
            r = random.Random(sub)
            if kind == 'tracking_identifiers':
                return [sr.TrackingIdentifier(identifier=_bstr(r, 64)) for _ in range(3)] + [sr.TrackingIdentifier()]
            if kind == 'dimension_indexes':
                return [hd.seg.DimensionIndexSequence(r.choice(['PATIENT', 'SLIDE'])) for _ in range(2)] + \
                    [hd.pm.DimensionIndexSequence(r.choice(['PATIENT', 'SLIDE'])) for _ in range(2)]
            raise ValueError(kind)
        return [], make
    return build


# ---- numbers that end up as text (kind ctor_num) ----------------------------------
# Floating-point ARGUMENTS whose shortest repr is longer than the 16 characters of a Decimal String (results
# of ordinary arithmetic: 1/3, 0.1 + 0.2, 25.4 / 600 ...) next to short ones, in every form a caller holds
# a number in.  What the library stores must be writable AND readable under strict validation and must be
# the number that was passed (to the precision 16 characters allow).
NUM_VALUES = {
    'half': 0.5, 'whole': 2.0, 'third': 1 / 3, 'sum': 0.1 + 0.2, 'sevenths': 2 / 7, 'dpi': 25.4 / 600,
    'large': 123456.78912345678, 'tiny': 1.2345678912345678e-05, 'huge': 1e16 / 3, 'micro': 1e-07 / 3,
    'pi': 3.141592653589793, 'f32': 0.10000000149011612, 'exp22': 1.2345678912345678e+22, 'len17': 1e15 / 3,
    'exp100': 1.2345678912345678e+100, 'subnormal': 4.9406564584124654e-321,
}
NUM_LONG = [k for k, v in sorted(NUM_VALUES.items()) if len(repr(v)) > 16]
NUM_FORMS = ['float', 'np64', 'np32', 'array', 'list', 'tuple', 'int']


def _num_scalar(x, form):
    import numpy as np
    if form == 'np32':
        return np.float32(x)
    if form in ('np64', 'array'):
        return np.float64(x)
    if form == 'int':
        return int(x) if abs(x) >= 1 else 1
    return float(x)


def _num_seq(xs, form):
    """Several numbers as one argument: list / tuple of floats, of numpy scalars, or an array."""
    import numpy as np
    if form == 'array':
        return np.array([float(x) for x in xs], dtype=np.float64)
    vals = [_num_scalar(x, form) for x in xs]
    return tuple(vals) if form in ('tuple', 'np64') else vals


def _num_close(got, want, what):
    """The number stored is the number passed, to the precision a decimal string of 16 characters has (>= 9 digits)."""
    for g, w in zip(got, want):
        g, w = float(g), float(w)
        if abs(g - w) > 1e-8 * abs(w):
            return f'{what}: {g!r} is stored for the argument {w!r}'
    return None


def _ds_values(ds, acc):
    from pydicom.multival import MultiValue
    for e in ds:
        if e.VR == 'SQ':
            for it in e.value:
                _ds_values(it, acc)
        elif e.VR == 'DS' and e.value not in (None, ''):
            acc.setdefault(e.keyword, []).extend(
                list(e.value) if isinstance(e.value, (MultiValue, list, tuple)) else [e.value])
    return acc


def _b_num(target):
    def build(rng, opt=None):
        import math
        import numpy as np
        import highdicom as hd
        import synth
        from highdicom import sr
        from pydicom.sr.codedict import codes
        opt = opt or {}
        form = opt.get('numform') or rng.choice(NUM_FORMS[:6])
        x = NUM_VALUES[opt.get('num') or rng.choice(sorted(NUM_VALUES))]
        y = NUM_VALUES[rng.choice(sorted(NUM_VALUES))] if rng.random() < 0.6 else rng.choice([0.5, 1.0, 2 * x, x / 3])
        z = rng.choice([x, y, 0.75, x + y])
        fx = lambda v: float(_num_scalar(v, form))       # the VALUE handed over (float32 / int forms change it)
        expect = {}                                          # keyword -> numbers that must be stored there
        args = []

        def owned(v):
            args.append(v)
            return v
        if target == 'sc':
            a = np.array([rng.randint(0, 255) for _ in range(12)], np.uint8).reshape(3, 4)
            ps = owned(_num_seq([x, y], form))
            expect['PixelSpacing'] = [fx(x), fx(y)]
            ref = synth.ct_frame((0.0, 0.0, 0.0), 3, 4)
            via_ref = rng.random() < 0.4
            tskw = {'transfer_syntax_uid': rng.choice(['1.2.840.10008.1.2', '1.2.840.10008.1.2.1', '1.2.840.10008.1.2.5'])}
            args += [a, ref]

            def make():
                if via_ref:
                    return hd.sc.SCImage.from_ref_dataset(
                        ref, a, 'MONOCHROME2', 8, 'PATIENT', hd.UID(), 1, hd.UID(), 1, 'm', pixel_spacing=ps,
                        patient_orientation=('L', 'P'), **tskw)
                return hd.sc.SCImage(a, 'MONOCHROME2', 8, 'PATIENT', hd.UID(), hd.UID(), 1, hd.UID(), 1, 'm',
                                     patient_id='p', patient_name='a^b', pixel_spacing=ps,
                                     patient_orientation=('L', 'P'), **tskw)
        elif target == 'measures':
            ps = owned(_num_seq([x, y], form))
            th = owned(_num_scalar(z, form))
            sb = owned(rng.choice([None, _num_scalar(x + y, form)]))
            expect = {'PixelSpacing': [fx(x), fx(y)], 'SliceThickness': [fx(z)]}
            if sb is not None:
                expect['SpacingBetweenSlices'] = [fx(x + y)]

            def make():
                return hd.PixelMeasuresSequence(pixel_spacing=ps, slice_thickness=th, spacing_between_slices=sb)
        elif target == 'plane_position':
            slide = rng.random() < 0.5
            pos = owned(_num_seq([x, -y, z], form))
            if slide:
                expect = {'XOffsetInSlideCoordinateSystem': [fx(x)], 'YOffsetInSlideCoordinateSystem': [fx(-y)],
                          'ZOffsetInSlideCoordinateSystem': [fx(z)]}
            else:
                expect = {'ImagePositionPatient': [fx(x), fx(-y), fx(z)]}

            def make():
                if slide:
                    return hd.PlanePositionSequence('SLIDE', pos, pixel_matrix_position=(1, 1))
                return hd.PlanePositionSequence('PATIENT', pos)
        elif target == 'plane_orientation':
            ang = x if abs(x) < 7 else math.fmod(x, 3.0)
            cs = [math.cos(ang), math.sin(ang), 0.0, -math.sin(ang), math.cos(ang), 0.0]
            if form == 'int':
                cs = [0.0, 1.0, 0.0, -1.0, 0.0, 0.0]
            io = owned(_num_seq(cs, form))
            system = rng.choice(['PATIENT', 'SLIDE'])
            expect = {'ImageOrientation' + system.capitalize(): [fx(v) for v in cs]}

            def make():
                return hd.PlaneOrientationSequence(system, io)
        elif target == 'voi':
            many = rng.random() < 0.4
            wc = owned(_num_seq([x, z], 'list' if form in ('array', 'np64', 'np32') else form) if many
                       else _num_scalar(x, form))
            ww = owned(_num_seq([y, x + y], 'list' if form in ('array', 'np64', 'np32') else form) if many
                       else _num_scalar(y, form))
            soft = rng.random() < 0.5
            if many:
                f2 = (lambda v: v) if form in ('array', 'np64', 'np32') else fx
                expect = {'WindowCenter': [f2(x), f2(z)], 'WindowWidth': [f2(y), f2(x + y)]}
            else:
                expect = {'WindowCenter': [fx(x)], 'WindowWidth': [fx(y)]}

            def make():
                cls = hd.pr.SoftcopyVOILUTTransformation if soft else hd.VOILUTTransformation
                return cls(window_center=wc, window_width=ww)
        elif target == 'modality':
            ri = owned(_num_scalar(-x, form) if form != 'int' else -3)
            rs = owned(_num_scalar(y, form))
            expect = {'RescaleIntercept': [fx(-x) if form != 'int' else -3.0], 'RescaleSlope': [fx(y)]}

            def make():
                return hd.ModalityLUTTransformation(rescale_intercept=ri, rescale_slope=rs, rescale_type='US')
        elif target == 'num_item':
            v = owned(_num_scalar(rng.choice([x, -x]), form))
            tc = rng.random() < 0.3
            offs = owned(_num_seq([x, y], form))
            expect = {'ReferencedTimeOffsets': [fx(x), fx(y)]} if tc else {'NumericValue': [float(v)]}

            def make():
                if tc:
                    return sr.TcoordContentItem(codes.DCM.Manifest, 'SEGMENT', referenced_time_offsets=offs,
                                                relationship_type='CONTAINS')
                return sr.NumContentItem(codes.SCT.Volume, v, codes.UCUM.Millimeter, relationship_type='CONTAINS')
        elif target in ('seg_geom', 'pm_geom'):
            # plane positions / orientation / pixel measures passed by the caller, all of them awkward numbers:
            # frames spaced by x along the normal of a rotated plane (the derived SpacingBetweenSlices too)
            n, rows, cols = rng.randint(2, 3), 3, 4
            step = x if 1e-3 < x < 1e3 else z if 1e-3 < z < 1e3 else 1 / 3
            ang = rng.choice([0.3, 1 / 3, math.pi / 7])
            cs = [math.cos(ang), math.sin(ang), 0.0, -math.sin(ang), math.cos(ang), 0.0]
            src = synth.ct_series(n, rows, cols)
            positions = [hd.PlanePositionSequence('PATIENT', [y, -y, k * step]) for k in range(n)]
            orientation = hd.PlaneOrientationSequence('PATIENT', cs)
            measures = hd.PixelMeasuresSequence(pixel_spacing=_num_seq([x, y], form) if x < 1e6 and y < 1e6 else [x, 0.5],
                                                slice_thickness=_num_scalar(step, 'float'))
            args += [src, positions, orientation, measures]
            geo = dict(plane_positions=positions, plane_orientation=orientation, pixel_measures=measures)
            expect = {'SpacingBetweenSlices': [step]}
            if target == 'seg_geom':
                arr = owned(np.array([rng.randint(0, 1) for _ in range(n * rows * cols)], np.uint8).reshape(n, rows, cols))
                arr[:, 0, 0] = 1

                def make():
                    return hd.seg.Segmentation(src, arr, 'BINARY', [synth.seg_description(1)], hd.UID(), 1, hd.UID(), 1,
                                               'm', 'mm', '1', 'sn', **geo)
            else:
                arr = owned(np.array([rng.random() for _ in range(n * rows * cols)], np.float32).reshape(n, rows, cols))
                mp = hd.pm.RealWorldValueMapping('l', 'e', codes.UCUM.NoUnits, (-x, y), slope=x, intercept=-y)
                expect = {'WindowCenter': [x], 'WindowWidth': [y]}

                def make():
                    return hd.pm.ParametricMap(src, arr, hd.UID(), 1, hd.UID(), 1, 'm', 'mm', '1', 'sn',
                                               contains_recognizable_visual_features=False,
                                               real_world_value_mappings=[mp], window_center=x, window_width=y, **geo)
        elif target == 'seg_volume':
            # the pixel array is an hd.Volume whose affine has an awkward spacing / a rotated direction
            n, rows, cols = rng.randint(2, 3), 3, 4
            src = synth.ct_series(n, rows, cols)
            ang = rng.choice([0.3, 1 / 3])
            d = np.array([[0.0, -math.sin(ang), math.cos(ang)], [0.0, math.cos(ang), math.sin(ang)], [-1.0, 0.0, 0.0]])
            sp = [v if 1e-3 < v < 1e3 else 1 / 3 for v in (x, y, z)]
            data = np.zeros((n, rows, cols), np.uint8)
            data[:, 1, 1] = 1
            vol = owned(hd.Volume.from_components(data, spacing=sp, coordinate_system='PATIENT', position=[x % 50, -y % 50, 1 / 3],
                                                  direction=d, frame_of_reference_uid=src[0].FrameOfReferenceUID))
            args.append(src)
            expect = {'SpacingBetweenSlices': [sp[0]], 'PixelSpacing': [sp[1], sp[2]]}

            def make():
                return hd.seg.Segmentation(src, vol, 'BINARY', [synth.seg_description(1)], hd.UID(), 1, hd.UID(), 1,
                                           'm', 'mm', '1', 'sn')
        elif target == 'volume_groups':
            # the functional-group sequences a Volume / VolumeGeometry hands out for its geometry
            ang = rng.choice([0.3, 1 / 3, 0.0])
            d = np.array([[math.cos(ang), -math.sin(ang), 0.0], [math.sin(ang), math.cos(ang), 0.0], [0.0, 0.0, 1.0]])
            sp = [v if 1e-4 < v < 1e5 else 2 / 7 for v in (x, y, z)]
            geom = owned(hd.VolumeGeometry.from_components((2, 3, 4), spacing=sp, coordinate_system='PATIENT',
                                                           position=[-x % 97, y % 89, 1 / 3], direction=d))
            expect = {'SpacingBetweenSlices': [sp[0]], 'PixelSpacing': [sp[1], sp[2]]}

            def make():
                return geom.get_plane_positions() + [geom.get_plane_orientation(), geom.get_pixel_measures()]
        elif target == 'pm_tiled':
            # a tiled Parametric Map over a TILED_SPARSE slide image with plane positions made by the caller: the
            # x / y / z offsets of the first tile become the TotalPixelMatrixOriginSequence of the map (D120: they
            # were stored as raw floats - the DS objects of the plane positions keep the unrounded float value)
            sm = synth.sm_tiled(4, 4, 2, 2, tiled_full=False, samples=3, origin=(0.5, 7.25), spacing=(0.5, 0.5))
            pform = form
            with np.errstate(over='ignore'):
                if form == 'np32' and not all(np.isfinite(np.float32(v)) for v in (x, y, z)):
                    pform = 'float'          # (no float32 holds the number: PlanePositionSequence refuses inf)
            fx = lambda v: float(_num_scalar(v, pform))
            first = owned(_num_seq([x, -y, z], pform))
            second = owned(_num_seq([x + 1, -y, z], pform))
            pps = [hd.PlanePositionSequence('SLIDE', image_position=first, pixel_matrix_position=(1, 1)),
                   hd.PlanePositionSequence('SLIDE', image_position=second, pixel_matrix_position=(3, 1))]
            arr = owned(np.array([rng.randint(0, 1000) for _ in range(8)], np.uint16).reshape(2, 2, 2))
            mp = hd.pm.RealWorldValueMapping('l', 'e', codes.UCUM.NoUnits, (0, 1000), slope=1, intercept=0)
            args += [sm, pps]
            expect = {'XOffsetInSlideCoordinateSystem': [fx(x)], 'YOffsetInSlideCoordinateSystem': [fx(-y)],
                      'ZOffsetInSlideCoordinateSystem': [fx(z)]}      # (first occurrence = the origin sequence)

            def make():
                return hd.pm.ParametricMap([sm], arr, hd.UID(), 1, hd.UID(), 1, 'm', 'mm', '1', 'sn',
                                           contains_recognizable_visual_features=False,
                                           real_world_value_mappings=[mp], window_center=500.0, window_width=1000.0,
                                           plane_positions=pps)
        elif target == 'pr_window':
            cts = synth.ct_series(2, 4, 4)
            voi = [hd.pr.SoftcopyVOILUTTransformation(window_center=_num_scalar(x, form), window_width=_num_scalar(y, form))]
            args += [cts, voi]
            expect = {'WindowCenter': [fx(x)], 'WindowWidth': [fx(y)]}

            def make():
                return hd.pr.GrayscaleSoftcopyPresentationState(
                    referenced_images=cts, series_instance_uid=hd.UID(), series_number=1, sop_instance_uid=hd.UID(),
                    instance_number=1, manufacturer='m', manufacturer_model_name='mm', software_versions='1',
                    device_serial_number='sn', content_label='LABEL', voi_lut_transformations=voi)
        else:
            raise ValueError(target)

        def post(obj, back):
            objs, backs = (obj, back) if isinstance(obj, list) else ([obj], [back])
            if target == 'pm_tiled':
                if 'TotalPixelMatrixOriginSequence' not in back:
                    return 'TotalPixelMatrixOriginSequence is not in what was read back'
                backs = [back.TotalPixelMatrixOriginSequence[0]]
            seen = {}
            for b in backs:
                _ds_values(b, seen)
            for kwd, want in expect.items():
                got = seen.get(kwd)
                if got is None:
                    return f'{kwd} is not in what was read back'
                if len(got) < len(want):
                    return f'{kwd} holds {len(got)} values, {len(want)} were passed'
                d = _num_close(got[:len(want)], want, kwd)
                if d:
                    return d
            return None
        return args, make, post
    return build


NUM_CONSTRUCTORS = {'num_' + t: _b_num(t) for t in (
    'sc', 'measures', 'plane_position', 'plane_orientation', 'voi', 'modality', 'num_item', 'seg_geom', 'pm_geom',
    'seg_volume', 'volume_groups', 'pr_window', 'pm_tiled')}


CONSTRUCTORS = {
    'tracking_identifiers': _b_generated_ids('tracking_identifiers'),
    'dimension_indexes': _b_generated_ids('dimension_indexes'),
    'seg_binary': _b_seg('BINARY'), 'seg_fractional': _b_seg('FRACTIONAL'), 'seg_labelmap': _b_seg('LABELMAP'),
    'pm': _b_pm, 'sc': _b_sc, 'sr_comprehensive': _b_sr('ComprehensiveSR'),
    'sr_comprehensive3d': _b_sr('Comprehensive3DSR'), 'sr_enhanced': _b_sr('EnhancedSR'),
    'ko': _b_ko, 'ann': _b_ann, 'pr': _b_pr, 'legacy': _b_legacy, 'pyramid': _b_pyramid,
    'coded_concept': _b_content('coded_concept'), 'content_item': _b_content('content_item'),
    'segment_description': _b_content('segment_description'),
    'algorithm_identification': _b_content('algorithm_identification'),
}


def _veq(a, b):
    import numpy as np
    from pydicom.multival import MultiValue
    if isinstance(a, (bytes, bytearray)) and isinstance(b, (bytes, bytearray)):
        # element for element: a value the writer had to pad is NOT the value that was built
        return bytes(a) == bytes(b)
    if isinstance(a, (list, tuple, MultiValue)) or isinstance(b, (list, tuple, MultiValue)):
        la = list(a) if isinstance(a, (list, tuple, MultiValue)) else [a]
        lb = list(b) if isinstance(b, (list, tuple, MultiValue)) else [b]
        return len(la) == len(lb) and all(_veq(x, y) for x, y in zip(la, lb))
    if isinstance(a, float) and isinstance(b, float) and a != a and b != b:
        return True
    if a in (None, '') and b in (None, ''):
        return True          # empty (type 2) value
    try:
        if a == b:
            return True
    except Exception:
        pass
    return str(a) == str(b)


def _cmp_ds(a, b, path='ds'):
    """Element-wise comparison of what was built (a) and what was read back (b)."""
    ta, tb = set(a.keys()), set(b.keys())
    for t in sorted(ta | tb):
        if t not in tb:
            return f'{path}.{int(t):08X} missing after read-back'
        if t not in ta:
            return f'{path}.{int(t):08X} appeared after read-back'
        ea, eb = a[t], b[t]
        if ea.VR != eb.VR and not {ea.VR, eb.VR} <= {'OB', 'OW', 'OB or OW', 'US', 'SS', 'US or SS'}:
            return f'{path}.{int(t):08X} VR {ea.VR} -> {eb.VR}'
        if ea.VR == 'SQ':
            if len(ea.value) != len(eb.value):
                return f'{path}.{int(t):08X} sequence length {len(ea.value)} -> {len(eb.value)}'
            for i, (x, y) in enumerate(zip(ea.value, eb.value)):
                d = _cmp_ds(x, y, f'{path}.{int(t):08X}[{i}]')
                if d:
                    return d
        elif not _veq(ea.value, eb.value):
            return f'{path}.{int(t):08X} ({ea.keyword}) {str(ea.value)[:60]!r} -> {str(eb.value)[:60]!r}'
    return None


def _uids(ds, acc, path='ds'):
    for e in ds:
        if e.VR == 'SQ':
            for i, it in enumerate(e.value):
                _uids(it, acc, f'{path}.{e.keyword}[{i}]')
        elif e.VR == 'UI':
            vals = e.value if isinstance(e.value, (list, tuple)) or hasattr(e.value, '__iter__') and not \
                isinstance(e.value, str) else [e.value]
            for v in vals:
                acc.append((f'{path}.{e.keyword}', str(v)))


HD_ROOT = '1.2.826.0.1.3680043.10.511.3.'


STRING_VRS = ('AE', 'CS', 'SH', 'LO', 'ST', 'LT', 'UI', 'UR')
# numbers that are written as text: decimal string (16 characters), integer string (12 characters)
NUMBER_STRING_VRS = {'DS': (16, re.compile(r' *[+-]?([0-9]+(\.[0-9]*)?|\.[0-9]+)([eE][+-]?[0-9]+)? *\Z')),
                     'IS': (12, re.compile(r' *[+-]?[0-9]+ *\Z'))}


def _written_number(v):
    """The characters pydicom's writer (filewriter.write_number_string) puts into the file for one value
    of a DS / IS element: the original string if the value carries one, else str() - for a plain float /
    a DSfloat made from a float that is repr(), however long."""
    s = getattr(v, 'original_string', None)
    return s if isinstance(s, str) else str(v)


def _number_string_problem(vr, v):
    """None, or why the text written for the value v of a DS / IS element violates the value representation
    (pydicom 3 does NOT check float-valued DS when writing, not even with writing_validation_mode = RAISE)."""
    lim, rx = NUMBER_STRING_VRS[vr]
    s = _written_number(v)
    if len(s) > lim:
        return (f'{s!r} is written with {len(s)} characters, a value of VR {vr} has {lim} at most: a reader '
                f'with value validation set to raise refuses the file')
    if not rx.match(s):
        return f'{s!r} is not a {"decimal" if vr == "DS" else "integer"} string'
    return None


def _touch(ds):
    """Access (= convert and validate) every element of a dataset that was read from a file."""
    for e in ds:
        if e.VR == 'SQ':
            for it in e.value:
                _touch(it)
        else:
            e.value


def _strict_read(data, **kw):
    """dcmread + access to every element with reading_validation_mode = RAISE."""
    import pydicom
    from pydicom import config
    old = config.settings.reading_validation_mode
    config.settings.reading_validation_mode = config.RAISE
    try:
        back = pydicom.dcmread(io.BytesIO(data), **kw)
        _touch(back)
        if getattr(back, 'file_meta', None) is not None:
            _touch(back.file_meta)
        return back
    finally:
        config.settings.reading_validation_mode = old


def _validate_all(ds, path='ds'):
    """Independent of WHEN pydicom validates: every string value held by the
    object must pass pydicom's validator for its VR, and every number that is
    written as text (DS, IS) must fit its value representation."""
    from pydicom import config
    from pydicom.multival import MultiValue
    from pydicom.valuerep import validate_value
    for e in ds:
        if e.VR in NUMBER_STRING_VRS and e.value not in (None, ''):
            for v in (list(e.value) if isinstance(e.value, (MultiValue, list, tuple)) else [e.value]):
                d = None if v in (None, '') else _number_string_problem(e.VR, v)
                if d:
                    return f'{path}.{e.keyword} ({e.VR}): {d}'
            continue
        if e.VR == 'SQ':
            for i, it in enumerate(e.value):
                d = _validate_all(it, f'{path}.{e.keyword}[{i}]')
                if d:
                    return d
        elif isinstance(e.value, (bytes, bytearray)):
            if len(e.value) % 2:
                return (f'{path}.{e.keyword} ({e.VR}) holds {len(e.value)} bytes: DICOM values have even length, '
                        f'the writer pads it and the file read back differs from the object')
        elif e.VR in STRING_VRS and e.value not in (None, ''):
            vals = [e.value] if isinstance(e.value, str) else list(e.value)
            for v in vals:
                try:
                    validate_value(e.VR, str(v), config.RAISE)
                except Exception as ex:
                    return f'{path}.{e.keyword} ({e.VR}) = {str(v)!r}: {ex}'[:300]
    return None


REJECTIONS = (ValueError, TypeError, NotImplementedError)


def _check_object(target, obj, out):
    """One constructed object: values valid, file meta carries the identifiers, strict
    write, read back element for element.  Returns (violation or None, read-back)."""
    import pydicom
    from pydicom import config
    from pydicom.dataset import Dataset
    old = config.settings.writing_validation_mode
    holder = obj
    if not isinstance(obj, Dataset):      # a sequence class
        holder = Dataset()
        holder.ContentSequence = obj
    d = _validate_all(holder)
    if d:
        return f"{target}: constructed object holds a value that cannot be written as it is: {d}", None
    if 'SOPInstanceUID' not in holder:
        # content class: write it as an item of a bare dataset and read it back
        wrap = Dataset()
        wrap.ContentSequence = [holder]
        config.settings.writing_validation_mode = config.RAISE
        try:
            b = io.BytesIO()
            try:
                wrap.save_as(b, implicit_vr=False, little_endian=True)
            except Exception as ex:
                return f"{target}: strict write failed: {type(ex).__name__}: {ex}"[:400], None
        finally:
            config.settings.writing_validation_mode = old
        try:
            back = _strict_read(b.getvalue(), force=True)
        except Exception as ex:
            return (f"{target}: what was written cannot be read back with value validation set to raise: "
                    f"{type(ex).__name__}: {ex}")[:400], None
        d = _cmp_ds(wrap, back)
        return (f"{target}: read-back differs: {d}" if d else None), back
    # identifiers in the file meta of the object as built (pydicom's writer would repair them)
    fm0 = getattr(obj, 'file_meta', None)
    if fm0 is None or str(fm0.get('MediaStorageSOPInstanceUID', '')) != str(obj.SOPInstanceUID) or \
            str(fm0.get('MediaStorageSOPClassUID', '')) != str(obj.SOPClassUID):
        return (f"{target}: file meta of the constructed object carries "
                f"{fm0.get('MediaStorageSOPInstanceUID', None) if fm0 is not None else None} / "
                f"{fm0.get('MediaStorageSOPClassUID', None) if fm0 is not None else None}, dataset has "
                f"{obj.SOPInstanceUID} / {obj.SOPClassUID}"), None
    config.settings.writing_validation_mode = config.RAISE
    try:
        b = io.BytesIO()
        try:
            obj.save_as(b, enforce_file_format=True)
        except Exception as ex:
            return f"{target}: strict write failed: {type(ex).__name__}: {ex}"[:400], None
    finally:
        config.settings.writing_validation_mode = old
    try:
        back = _strict_read(b.getvalue())
    except Exception as ex:
        return (f"{target}: the file that was written cannot be read back with value validation set to raise: "
                f"{type(ex).__name__}: {ex}")[:400], None
    d = _cmp_ds(obj, back)
    if d:
        return f"{target}: read-back differs: {d}", back
    fm = back.file_meta
    if str(fm.MediaStorageSOPInstanceUID) != str(obj.SOPInstanceUID) or \
            str(fm.MediaStorageSOPClassUID) != str(obj.SOPClassUID) or 'TransferSyntaxUID' not in fm:
        return f"{target}: file meta does not carry the instance identifiers", back
    us = []
    _uids(obj, us)
    for p, u in us:
        if not _uid_ok(u):
            return f"{target}: {p} = {u!r} is not a valid UID", back
    return None, back


def _uids_in(x, acc):
    import pydicom
    if isinstance(x, pydicom.Dataset):
        a = []
        _uids(x, a)
        acc.update(u for _, u in a)
    elif isinstance(x, str):
        acc.add(x)
    elif hasattr(x, '__iter__') and not isinstance(x, bytes) and not hasattr(x, 'dtype'):
        for y in x:
            _uids_in(y, acc)


def run_constructor(c):
    import random
    import warnings
    from pydicom import config
    warnings.simplefilter('ignore')
    target = c['target']
    build = CONSTRUCTORS.get(target) or NUM_CONSTRUCTORS[target]
    strict = c.get('strict', 'write')      # RAISE from construction on | only when writing
    opt = c.get('opt') or {}
    exotic = any(w in str(opt.get('layout', '')) for w in ('swapped', 'readonly'))
    # a number that is not a Python float (numpy float32 scalar, int, array where a scalar is documented) or that
    # no decimal string of 16 characters can hold may be refused - as long as the arguments are left alone
    exotic = exotic or opt.get('numform') in ('np32', 'int', 'array') or opt.get('num') in ('exp100', 'subnormal')
    old = config.settings.writing_validation_mode
    out = {'ran': True, 'strict': strict}
    label = target + (f' {opt}' if opt else '')
    if strict == 'construct':
        config.settings.writing_validation_mode = config.RAISE
    args = before = None
    try:
        try:
            built = build(random.Random(c['seed']), opt)
            args, make = built[0], built[1]
            post = built[2] if len(built) > 2 else None
            before = [_snap(a) for a in args]
            obj = make()
        except Exception as ex:
            if before is not None:
                for i, (x, y) in enumerate(zip(before, [_snap(a) for a in args])):
                    d = _first_diff(x, y, f'argument#{i}')
                    if d:
                        out['violation'] = f"{label} constructor raised {type(ex).__name__} AND modified its input: {d}"
                        return out
            if 'read-only' in str(ex):
                out['violation'] = (f"{label} constructor writes to an array passed to it "
                                    f"(write-protected input): {type(ex).__name__}: {ex}")[:400]
                return out
            if before is not None and exotic and isinstance(ex, REJECTIONS) and not _call_mistake(ex):
                # an unusual but valid array may be refused - as long as it is left alone
                out['ran'] = False
                out['rejected'] = f'{type(ex).__name__}: {ex}'[:200]
                return out
            if strict != 'construct':
                raise
            out['violation'] = (f"{label}: valid arguments cannot be built with "
                                f"writing_validation_mode=RAISE: {type(ex).__name__}: {ex}")[:400]
            return out
    finally:
        config.settings.writing_validation_mode = old
    after = [_snap(a) for a in args]
    objs = list(obj) if isinstance(obj, list) else [obj]
    out['class'] = type(objs[0]).__name__
    out['objects'] = len(objs)
    for i, (x, y) in enumerate(zip(before, after)):
        d = _first_diff(x, y, f'argument#{i}')
        if d:
            out['violation'] = f"{label} constructor modified its input: {d}"
            return out
    backs = []
    for k, o in enumerate(objs):
        v, back = _check_object(label + (f' [object {k}]' if len(objs) > 1 else ''), o, out)
        if v:
            out['violation'] = v
            return out
        backs.append(back)
    if post is not None:
        d = post(obj, backs if isinstance(obj, list) else backs[0])
        if d:
            out['violation'] = f"{label}: {d}"
            return out
    if not hasattr(objs[0], 'keys') or 'SOPInstanceUID' not in objs[0]:
        # content classes: identifiers the library generates are new for every object and every call
        def gen_uids(o):
            acc = []
            for it in ([o] if hasattr(o, 'keys') else list(o)):
                _uids(it, acc)
            return {u for _, u in acc if u.startswith(HD_ROOT)}
        per = [gen_uids(o) for o in objs]
        out['generated_uids'] = sum(len(x) for x in per)
        for i in range(len(per)):
            for j in range(i + 1, len(per)):
                if per[i] & per[j]:
                    out['violation'] = (f"{label}: objects {i} and {j} built by one call share the generated "
                                        f"identifier {sorted(per[i] & per[j])[0]}")
                    return out
        if out['generated_uids'] and c.get('kind') == 'ctor_multi':
            obj2 = make()
            again = set().union(*[gen_uids(o) for o in (list(obj2) if isinstance(obj2, list) else [obj2])])
            if again & set().union(*per):
                out['violation'] = f"{label}: generated identifiers repeated across two calls"
        return out
    # every object built by ONE call has its own identifier (also in the file meta) ...
    sops = [str(o.SOPInstanceUID) for o in objs]
    metas = [str(b.file_meta.MediaStorageSOPInstanceUID) for b in backs]
    if len(set(sops)) != len(sops) or len(set(metas)) != len(metas):
        rep = next(u for u in sops if sops.count(u) > 1) if len(set(sops)) != len(sops) else metas[0]
        out['violation'] = (f"{label}: {len(sops)} objects built by one call share the SOP Instance UID {rep} "
                            f"(identifiers of the objects: {[u[-12:] for u in sops]})")
        return out
    # ... and identifiers generated by the library are new on every call
    obj2 = make()
    objs2 = list(obj2) if isinstance(obj2, list) else [obj2]
    us, us2 = [], []
    for o in objs:
        _uids(o, us)
    for o in objs2:
        _uids(o, us2)
    in_args = set()
    _uids_in(args, in_args)
    g1 = {u for _, u in us if u.startswith(HD_ROOT) and u not in in_args}
    g2 = {u for _, u in us2 if u.startswith(HD_ROOT) and u not in in_args}
    out['generated_uids'] = len(g1)
    explicit = any(str(o.SOPInstanceUID) in in_args for o in objs)     # identifiers the caller passed stay
    if (not explicit and set(sops) & {str(o.SOPInstanceUID) for o in objs2}) or (g1 & g2):
        out['violation'] = f"{label}: identifiers repeated across two calls: {sorted(g1 & g2)[:2]}"
        return out
    return out


# ---- model-compared object kinds ------------------------------------------------
PLAIN_LUTS = ('LUT', 'VOILUT', 'ModalityLUT', 'PresentationLUT')


def _call_mistake(ex):
    """A TypeError about the call itself is a mistake of this harness, never a refusal of the library."""
    m = str(ex)
    return isinstance(ex, TypeError) and ('positional argument' in m or 'keyword argument' in m or
                                          'multiple values for' in m)


def _viol(msg):
    return Err('VIOLATION ' + ''.join(ch if 32 <= ord(ch) < 127 else ' ' for ch in msg[:400]))


def _unchanged(before, owned, what):
    for i, (x, y) in enumerate(zip(before, [_snap(a) for a in owned])):
        d = _first_diff(x, y, f'argument#{i}')
        if d:
            return _viol(f'{what} modified its input: {d}')
    return None


def run_lut(c):
    """Look-up table classes: what is stored for the table the caller passed.
    Output [descriptor, stored bytes] (plain / palette LUT) or [descriptor, [r, g, b]]
    (transformation, possibly read off the object it was placed in)."""
    import numpy as np
    import highdicom as hd
    import synth
    from pydicom.sr.codedict import codes
    bits, first, cls, lay = c['bits'], c['first'], c['cls'], c.get('layout', 'C')
    dt = np.uint8 if bits == 8 else np.uint16
    what = f"{cls}({c.get('via') or ''}{', in ' + c['holder'] if c.get('holder') else ''}, {bits} bit, " \
           f"{len(c['r'])} {'values of segmented data' if cls.startswith('Segmented') or c.get('via') == 'segments' else 'entries'}, " \
           f"layout {lay})"
    owned = before = None
    if cls == 'SegmentedPaletteColorLUT':
        return _run_segmented_lut(c, what)
    try:
        if cls in PLAIN_LUTS or cls == 'PaletteColorLUT':
            data = _relayout(np.array(c['r'], dt), lay)
            owned, before = [data], [_snap(data)]
            if cls == 'PaletteColorLUT':
                obj = hd.PaletteColorLUT(first, data, 'red')
                key = 'RedPaletteColorLookupTable'
            else:
                obj = {'LUT': lambda: hd.LUT(first, data, 'x'), 'VOILUT': lambda: hd.VOILUT(first, data),
                       'ModalityLUT': lambda: hd.ModalityLUT('HU', first, data),
                       'PresentationLUT': lambda: hd.PresentationLUT(first, data)}[cls]()
                key = 'LUT'
            result = [[int(x) for x in obj[key + 'Descriptor'].value], list(bytes(obj[key + 'Data'].value))]
            got = obj.lut_data
            target = obj
        else:
            tf, owned = _palette_from(bits, first, c['r'], c['g'], c['b'], c['via'], lay)
            before = [_snap(a) for a in owned]
            target = tf
            if c.get('holder') == 'seg':
                n = len(c['r'])
                src = synth.ct_series(1, 2, 3)
                arr = (np.arange(6, dtype=np.uint8).reshape(1, 2, 3) % min(n, 3))
                nseg = int(arr.max())
                target = hd.seg.Segmentation(src, arr, 'LABELMAP', [synth.seg_description(k + 1) for k in range(nseg)],
                                             hd.UID(), 1, hd.UID(), 1, 'm', 'mm', '1', 'sn',
                                             palette_color_lut_transformation=tf)
            elif c.get('holder') == 'pm':
                src = synth.ct_series(1, 2, 3)
                target = hd.pm.ParametricMap(
                    src, np.arange(6, dtype=np.uint16).reshape(1, 2, 3, 1), hd.UID(), 1, hd.UID(), 1, 'm', 'mm', '1', 'sn',
                    contains_recognizable_visual_features=False,
                    real_world_value_mappings=[[hd.pm.RealWorldValueMapping(
                        'l', 'e', codes.UCUM.NoUnits, (0, 65535), slope=1, intercept=0)]],
                    window_center=1.0, window_width=2.0, palette_color_lut_transformation=tf)
            elif c.get('holder') == 'pr':
                target = hd.pr.PseudoColorSoftcopyPresentationState(
                    synth.ct_series(1, 4, 4), hd.UID(), 1, hd.UID(), 1, 'm', 'mm', '1', 'sn', tf, 'LABEL')
            seg_ = 'Segmented' if c['via'] in ('segmented', 'segments') else ''
            result = [[int(x) for x in target['RedPaletteColorLookupTableDescriptor'].value],
                      [list(bytes(target[f'{seg_}{col}PaletteColorLookupTableData'].value))
                       for col in ('Red', 'Green', 'Blue')]]
            got = None
            if target is tf and c['via'] not in ('segmented', 'segments'):
                got = tf.red_lut.lut_data
            if c['via'] == 'segments':
                for col in ('r', 'g', 'b'):
                    lut1 = {'r': tf.red_lut, 'g': tf.green_lut, 'b': tf.blue_lut}[col]
                    try:
                        seen = [int(x) for x in lut1.segmented_lut_data]
                    except RuntimeError as ex:
                        return _viol(f'{what}: segmented_lut_data of the {col} table raises {ex}')
                    if seen != [int(x) for x in c[col]]:
                        return _viol(f'{what}: segmented_lut_data of the {col} table of the transformation is '
                                     f'{seen[:9]}, the caller passed {c[col][:9]}')
    except REJECTIONS as ex:
        if _call_mistake(ex):
            raise
        if 'read-only' in str(ex):
            return _viol(f'{what} writes to the array passed to it: {ex}')
        if before is not None:
            v = _unchanged(before, owned, what)
            if v:
                return v
        return Err(type(ex).__name__)
    v = _unchanged(before, owned, what)
    if v:
        return v
    if got is not None and [int(x) for x in got] != [int(x) for x in c['r']]:
        return _viol(f'{what}: lut_data of the object is {[int(x) for x in got][:6]}, the caller passed {c["r"][:6]}')
    viol, _ = _check_object(what, target, {})
    if viol:
        return _viol(viol)
    return result


def _segments_count(data):
    """Independent of the model and of the library: the number of entries WELL-FORMED segmented data
    (opcode, length, value triples; DICOM PS3.3 C.7.9.2) expand to."""
    return sum(int(data[i + 1]) for i in range(0, len(data), 3))


def _run_segmented_lut(c, what):
    """hd.SegmentedPaletteColorLUT on its own: [descriptor, stored bytes, number of expanded entries,
    what the segmented_lut_data accessor returns]."""
    import numpy as np
    import highdicom as hd
    dt = np.uint8 if c['bits'] == 8 else np.uint16
    data = _relayout(np.array(c['r'], dt), c.get('layout', 'C'))
    before = [_snap(data)]
    color = c.get('color', 'red')
    try:
        obj = hd.SegmentedPaletteColorLUT(c['first'], data, color)
    except REJECTIONS + (IndexError,) as ex:
        if _call_mistake(ex):
            raise
        if 'read-only' in str(ex):
            return _viol(f'{what} writes to the array passed to it: {ex}')
        return _unchanged(before, [data], what) or Err(type(ex).__name__)
    v = _unchanged(before, [data], what)
    if v:
        return v
    key = f'{color.title()}PaletteColorLookupTable'
    n = int(len(obj.lut_data))
    if not 1 <= n <= 65536:
        return _viol(f'{what}: a table of {n} entries was accepted (the descriptor cannot describe it)')
    try:
        seen = [int(x) for x in obj.segmented_lut_data]
    except Exception as ex:
        return _viol(f'{what}: the segmented_lut_data accessor of the constructed table raises '
                     f'{type(ex).__name__}: {ex}')
    result = [[int(x) for x in obj[key + 'Descriptor'].value], list(bytes(obj['Segmented' + key + 'Data'].value)), n,
              seen]
    if obj.number_of_entries != n:
        return _viol(f'{what}: number_of_entries is {obj.number_of_entries}, the segments expand to {n} entries')
    viol, back = _check_object(what + f' expanding to {n} entries', obj, {})
    if viol:
        return _viol(viol)
    again = hd.SegmentedPaletteColorLUT.extract_from_dataset(back.ContentSequence[0], color)
    try:
        seen2 = [int(x) for x in again.segmented_lut_data]
    except Exception as ex:
        return _viol(f'{what}: segmented_lut_data of the table read back raises {type(ex).__name__}: {ex}')
    if again.number_of_entries != n or seen2 != [int(x) for x in c['r']]:
        return _viol(f'{what}: the table read back has {again.number_of_entries} entries / other segments than '
                     f'the {n}-entry table that was built')
    return result


def _lut_expected(c):
    """Independent of the model: numpy little-endian image of the tables, padded to even length."""
    import numpy as np
    code = '<u1' if c['bits'] == 8 else '<u2'

    def enc(col):
        if c.get('via') == 'segmented':
            col = [v for x in col for v in (0, 1, x)]
        raw = np.array(col, code).tobytes()
        return list(raw + (b'\0' if len(raw) % 2 else b''))
    n = len(c['r'])
    if c['cls'] == 'SegmentedPaletteColorLUT':
        n = _segments_count(c['r'])
        return [[0 if n == 65536 else n, c['first'], c['bits']], enc(c['r']), n, [int(x) for x in c['r']]]
    if c.get('via') == 'segments':
        n = _segments_count(c['r'])
    desc = [0 if n == 65536 else n, c['first'], c['bits']]
    if c['cls'] in PLAIN_LUTS or c['cls'] == 'PaletteColorLUT':
        return [desc, enc(c['r'])]
    return [desc, [enc(c['r']), enc(c['g']), enc(c['b'])]]


def run_pyr_ids(c):
    """create_segmentation_pyramid: number of levels and which levels share a SOP Instance UID."""
    import secrets
    import numpy as np
    import highdicom as hd
    import synth
    sizes = [(32, 32), (16, 16), (8, 8), (4, 4)]
    series, pyr = hd.UID(), hd.UID()
    sources = []
    for (r, cc) in sizes[:c['n_src']]:
        ds = synth.sm_tiled(r, cc, 8, 8, spacing=(0.5 * 32 / r, 0.5 * 32 / cc))
        ds.SeriesInstanceUID, ds.PyramidUID = series, pyr
        sources.append(ds)
    arrays = [((np.arange(r * cc).reshape(r, cc) % 3) == 0).astype(np.uint8) for (r, cc) in sizes[:c['n_pix']]]
    kw = {}
    if c['factors4'] is not None:
        kw['downsample_factors'] = [f / 4 for f in c['factors4']]
    given = None
    if c['given'] is not None:
        given = [hd.UID(HD_ROOT + str(d)) for d in c['given']]
        kw['sop_instance_uids'] = given
    before = [_snap(arrays), _snap(sources)]
    counter = [c.get('base', 1000)]
    orig = secrets.randbelow

    def fake(m):            # distinct draws: a repeated identifier is the library's doing
        counter[0] += 1
        return counter[0]
    secrets.randbelow = fake
    try:
        try:
            segs = hd.seg.create_segmentation_pyramid(
                sources, arrays, 'BINARY', [synth.seg_description(1)],
                series_instance_uid=None if c.get('base', 0) % 2 else hd.UID(), series_number=1, manufacturer='m',
                manufacturer_model_name='mm', software_versions='1', device_serial_number='sn', **kw)
        except REJECTIONS as ex:
            if _call_mistake(ex):
                raise
            return Err(type(ex).__name__)
    finally:
        secrets.randbelow = orig
    v = _unchanged(before, [arrays, sources], 'create_segmentation_pyramid')
    if v:
        return v
    sops = [str(sg.SOPInstanceUID) for sg in segs]
    if given is not None and sops != [str(u) for u in given]:
        return _viol('sop_instance_uids passed by the caller are not the identifiers of the levels')
    for sg in segs:
        if str(sg.file_meta.MediaStorageSOPInstanceUID) != str(sg.SOPInstanceUID) or not _uid_ok(str(sg.SOPInstanceUID)):
            return _viol('file meta of a level does not carry its (valid) SOP Instance UID')
    return [len(segs), [sops.index(u) for u in sops]]


def _pm_native_array(c):
    import numpy as np
    code = ('>' if c['be'] else '<') + ('f4' if c['k'] == 4 else 'f8')
    a = np.array(c['vals'], code)                      # planes x pixels x mappings
    P, npx, M = a.shape
    return a.reshape(P, c['rows'], npx // c['rows'], M)


def run_pm_native(c):
    """Parametric Map, native transfer syntax, float pixel array given value by value: the
    bytes of the (Double)FloatPixelData element."""
    import numpy as np
    import highdicom as hd
    import synth
    from pydicom.sr.codedict import codes
    a4 = _pm_native_array(c)
    P, rows, cols, M = a4.shape
    arr = a4 if c['ndim'] == 4 else (a4[..., 0] if c['ndim'] == 3 else a4[0, :, :, 0])
    arr = _relayout(arr, c.get('layout', 'C')) if c.get('layout', 'C') != 'C' else np.ascontiguousarray(arr)
    flat = [hd.pm.RealWorldValueMapping(f'm{j}', 'e', codes.UCUM.NoUnits, (-1e30, 1e30), slope=1.0, intercept=0.0)
            for j in range(M)]
    maps = [[m] for m in flat] if c['ndim'] == 4 else flat
    src = synth.ct_series(P, rows, cols)
    before = [_snap(arr)]
    try:
        pm = hd.pm.ParametricMap(src, arr, hd.UID(), 1, hd.UID(), 1, 'm', 'mm', '1', 'sn',
                                 contains_recognizable_visual_features=False, real_world_value_mappings=maps,
                                 window_center=1.0, window_width=2.0)
    except REJECTIONS as ex:
        if _call_mistake(ex):
            raise
        if 'read-only' in str(ex):
            return _viol(f'ParametricMap writes to the pixel array passed to it: {ex}')
        v = _unchanged(before, [arr], 'ParametricMap')
        return v or Err(type(ex).__name__)
    v = _unchanged(before, [arr], f'ParametricMap(pixel_array {arr.dtype.str}{list(arr.shape)}, {M} mapping(s))')
    if v:
        return v
    kwd = 'FloatPixelData' if c['k'] == 4 else 'DoubleFloatPixelData'
    if kwd not in pm:
        return Err('no ' + kwd)
    return list(bytes(pm[kwd].value))


def _zs_regular(zs):
    """Independent of the library: do the frame positions form a regular stack (a single frame counts,
    the library then records a spacing of 1.0)?  The generator draws steps that are either equal or
    differ by more than 50 %."""
    d = [b - a for a, b in zip(zs, zs[1:])]
    return all(abs(x - d[0]) < 1e-9 and abs(x) > 1e-9 for x in d)


def _measures_setup(c):
    """Sources and arguments of a Segmentation for one configuration of the seg_measures kind."""
    import numpy as np
    import highdicom as hd
    import synth
    zs, rows, cols = c['zs'], c['rows'], c['cols']
    n = len(zs)
    spacing_given = c['has_spacing']
    if c['source'] == 'series':
        ids = (synth.uid(), synth.uid(), synth.uid())
        src = [synth.ct_frame((0.0, 0.0, z), rows, cols, series_uid=ids[0], study_uid=ids[1], for_uid=ids[2],
                              instance_number=k + 1) for k, z in enumerate(zs)]
        if not c['user']:      # (the shipped CT fixture carries a SpacingBetweenSlices of its own)
            for d in src:
                if spacing_given:
                    d.SpacingBetweenSlices = 7.5
                elif 'SpacingBetweenSlices' in d:
                    del d.SpacingBetweenSlices
    elif c['source'] in ('mf', 'seg'):
        ds = synth.ct_multiframe(zs, rows, cols)
        if c['source'] == 'seg':
            seg = synth.make_seg([ds], np.ones((n, rows, cols), np.uint8), 'BINARY', [1])
            ds = _file_roundtrip(seg)
            pm = ds.SharedFunctionalGroupsSequence[0].PixelMeasuresSequence[0]
            if 'SpacingBetweenSlices' in pm:
                del pm.SpacingBetweenSlices
        if spacing_given and not c['user']:
            ds.SharedFunctionalGroupsSequence[0].PixelMeasuresSequence[0].SpacingBetweenSlices = 7.5
        src = [ds]
    else:       # tiled slide image: one plane of n tiles
        ds = synth.sm_tiled(rows, cols * n, rows, cols, samples=1)
        if spacing_given and not c['user']:
            ds.SharedFunctionalGroupsSequence[0].PixelMeasuresSequence[0].SpacingBetweenSlices = 7.5
        src = [ds]
    kw = {}
    if c['user']:
        kw['pixel_measures'] = hd.PixelMeasuresSequence(
            pixel_spacing=(0.5, 0.5) if c['source'] == 'tiled' else (1.0, 1.0), slice_thickness=1.0,
            spacing_between_slices=7.5 if spacing_given else None)
    arr = np.zeros((n, rows, cols), np.uint8)
    arr[:, 0, 0] = 1
    return src, arr, kw


def run_seg_measures(c):
    """Segmentation.__init__, the pixel measures it records: [was an object of the caller (source
    image(s), pixel_measures argument) changed, does the new object record a SpacingBetweenSlices]."""
    import highdicom as hd
    import synth
    src, arr, kw = _measures_setup(c)
    owned = [src] + ([kw['pixel_measures']] if kw else [])
    before = [_snap(a) for a in owned]
    seg = hd.seg.Segmentation(src, arr, 'BINARY', [synth.seg_description(1)], hd.UID(), 1, hd.UID(), 1,
                              'm', 'mm', '1', 'sn', omit_empty_frames=False, **kw)
    what = (f"Segmentation({'multi-frame ' if c['source'] in ('mf', 'seg') else ''}{c['source']} source, "
            f"{len(c['zs'])} frame(s) at z = {c['zs']}, pixel_measures {'passed' if c['user'] else 'not passed'}, "
            f"SpacingBetweenSlices {'present' if c['has_spacing'] else 'absent'})")
    changed = False
    for i, (x, y) in enumerate(zip(before, [_snap(a) for a in owned])):
        d = _first_diff(x, y, 'source_images' if i == 0 else 'pixel_measures')
        if d:
            return _viol(f'{what} constructor modified its input: {d}')
    pm = seg.SharedFunctionalGroupsSequence[0].PixelMeasuresSequence[0]
    rec = pm.get('SpacingBetweenSlices')
    # independent expectation of the VALUE that is recorded
    zs = c['zs']
    want = 7.5 if c['has_spacing'] else None
    if want is None and c['source'] != 'tiled' and _zs_regular(zs):
        want = abs(zs[1] - zs[0]) if len(zs) > 1 else 1.0
    if (rec is None) != (want is None) or (rec is not None and abs(float(rec) - want) > 1e-6):
        return _viol(f'{what} records SpacingBetweenSlices = {rec}, expected {want}')
    viol, _ = _check_object(what, seg, {})
    if viol:
        return _viol(viol)
    return [changed, rec is not None]


def _area_refs(c):
    import synth
    refs = []
    if c['tiled']:
        base = synth.sm_tiled(8, 8, 8, 8, samples=1)
        for (r, cc) in c['sizes']:
            d = _copy.deepcopy(base)
            d.SOPInstanceUID = synth.uid()
            d.TotalPixelMatrixRows, d.TotalPixelMatrixColumns = r, cc       # a level of the pyramid (metadata)
            refs.append(d)
    else:
        for k, (r, cc) in enumerate(c['sizes']):
            d = synth.ct_frame((0.0, 0.0, float(k)), 2, 2)
            d.Rows, d.Columns = r, cc
            refs.append(d)
    return refs


def run_pr_area(c):
    """pr.content._add_displayed_area_attributes on the caller's list of referenced images:
    [bottom right hand corner, position of the image it refers to, the caller's list afterwards]."""
    from pydicom.dataset import Dataset
    from highdicom.pr.content import _add_displayed_area_attributes
    refs = _area_refs(c)
    orig = list(refs)
    if c.get('container') == 'tuple':
        refs = tuple(refs)
    before = [_snap(d) for d in orig]
    ds = Dataset()
    try:
        _add_displayed_area_attributes(ds, refs)
    except IndexError:
        return Err('IndexError')
    except AttributeError as ex:
        return _viol(f'_add_displayed_area_attributes needs a mutable list of referenced images '
                     f'(a {type(refs).__name__} is a valid Sequence[Dataset]): {ex}')
    v = _unchanged(before, orig, '_add_displayed_area_attributes')
    if v:
        return v
    item = ds.DisplayedAreaSelectionSequence[0]
    uids = [str(d.SOPInstanceUID) for d in orig]
    sel = 0
    if 'ReferencedImageSequence' in item:
        sel = uids.index(str(item.ReferencedImageSequence[0].ReferencedSOPInstanceUID))
    return [[int(v) for v in item.DisplayedAreaBottomRightHandCorner], sel,
            [next(i for i, o in enumerate(orig) if o is r) for r in refs] if len(refs) == len(orig) else [-1]]


# ---- VOI LUT transformations restricted to frames / segments of the referenced images ----------
def _voi_images(c):
    """Referenced images of a pr_voi case: 'ct' single-frame CT images of one series, 'mf' a multi-frame
    CT image of n frames, 'tiled' a tiled slide image of n frames, 'seg' a segmentation of n segments
    (one frame each).  The LAST `extra` of them are NOT handed to the presentation state."""
    import numpy as np
    import synth
    ids = (synth.uid(), synth.uid(), synth.uid())
    out = []
    for k, im in enumerate(c['images']):
        if im['type'] == 'ct':
            out.append(synth.ct_frame((0.0, 0.0, 2.5 * k), 4, 4, series_uid=ids[0], study_uid=ids[1], for_uid=ids[2],
                                      instance_number=k + 1))
        elif im['type'] == 'mf':
            out.append(synth.ct_multiframe([2.5 * j for j in range(im['n'])], 4, 4))
        elif im['type'] == 'tiled':
            out.append(synth.sm_tiled(4, 4 * im['n'], 4, 4, samples=1))
        else:
            n = im['n']
            arr = np.zeros((1, 4, 4), np.uint8)
            for j in range(n):
                arr[0, j // 4, j % 4] = j + 1
            out.append(synth.make_seg(synth.ct_series(1, 4, 4), arr, 'BINARY', list(range(1, n + 1))))
    return out


def _voi_numbers(item, kwd):
    from pydicom.multival import MultiValue
    if kwd not in item:
        return None
    v = item[kwd].value
    return [int(x) for x in v] if isinstance(v, (MultiValue, list, tuple)) else [int(v)]


def _voi_cells(vois, kwd='ReferencedFrameNumber'):
    return [[_voi_numbers(it, kwd) for it in v.get('ReferencedImageSequence', [])] for v in vois]


def _voi_build(c, images):
    """The caller's SoftcopyVOILUTTransformation items: per item a list of (image, frame numbers or None[,
    segment numbers]) references; one number is stored as a scalar, several as a multi-valued element."""
    import highdicom as hd
    vois = []
    for k, refs in enumerate(c['items']):
        kw = {}
        if refs is not None:
            seq = None
            for r in refs:
                num = lambda v: None if v is None else (v[0] if len(v) == 1 else list(v))
                one = hd.ReferencedImageSequence([images[r[0]]], referenced_frame_number=num(r[1]),
                                                 referenced_segment_number=num(r[2]) if len(r) > 2 else None)
                if seq is None:
                    seq = one
                else:
                    seq.append(one[0])
            kw['referenced_images'] = seq
        if c.get('lut') and k % 2:
            import numpy as np
            kw['voi_luts'] = [hd.VOILUT(0, np.arange(4 + k, dtype=np.uint16), 'x')]
        else:
            kw.update(window_center=40.0 + k, window_width=400.0)
        vois.append(hd.pr.SoftcopyVOILUTTransformation(**kw))
    return vois


def run_pr_voi(c):
    """Softcopy VOI LUT module of a presentation state built from SEVERAL transformations that refer to
    frames (segments) of the referenced images: [the caller's frame numbers afterwards, the frame numbers
    the object holds] per transformation and reference item, or the refusal."""
    import highdicom as hd
    from pydicom.dataset import Dataset
    from highdicom.pr.content import _add_softcopy_voi_lut_attributes
    images = _voi_images(c)
    extra = c.get('extra', 0)
    refs = images[:len(images) - extra]
    vois = _voi_build(c, images)
    if c.get('container') == 'tuple':
        refs, vois = tuple(refs), tuple(vois)
    owned = [refs, vois]
    before = [_snap(a) for a in owned]
    cells0 = _voi_cells(vois)
    segs0 = _voi_cells(vois, 'ReferencedSegmentNumber')
    entry = c['entry']
    what = (f"{entry} presentation state, {len(vois)} VOI LUT transformation(s) referring to frames {cells0}"
            + (f" / segments {segs0}" if any(x is not None for row in segs0 for x in row) else '')
            + f" of {[(im['type'], im.get('n', 1)) for im in c['images']]}")
    kw = dict(series_instance_uid=hd.UID(), series_number=1, sop_instance_uid=hd.UID(), instance_number=1,
              manufacturer='m', manufacturer_model_name='mm', software_versions='1', device_serial_number='sn',
              content_label='LABEL', voi_lut_transformations=vois)
    if len(refs) > 1 and any(im['type'] != 'ct' for im in c['images']):
        kw['modality_lut_transformation'] = hd.ModalityLUTTransformation(rescale_intercept=0.0, rescale_slope=1.0, rescale_type='HU')
    try:
        if entry == 'direct':
            obj = Dataset()
            _add_softcopy_voi_lut_attributes(obj, refs, vois)
        elif entry == 'pseudo':
            import numpy as np
            lut = np.stack([np.arange(256), np.arange(256)[::-1], np.full(256, 7)], axis=1).astype(np.uint16) * 256
            obj = hd.pr.PseudoColorSoftcopyPresentationState(
                referenced_images=refs, palette_color_lut_transformation=(
                    hd.PaletteColorLUTTransformation.from_combined_lut(lut, palette_color_lut_uid=hd.UID())), **kw)
        else:
            obj = hd.pr.GrayscaleSoftcopyPresentationState(referenced_images=refs, **kw)
    except REJECTIONS as ex:
        if _call_mistake(ex):
            raise
        return _unchanged(before, owned, what + f' (refused: {type(ex).__name__})') or Err(type(ex).__name__)
    except Exception as ex:         # lists and tuples of valid images / transformations: nothing else may escape
        return _unchanged(before, owned, what + f' (raised {type(ex).__name__})') or \
            _viol(f'{what} ({type(refs).__name__} of images, {type(vois).__name__} of transformations) raises '
                  f'{type(ex).__name__}: {ex}')
    v = _unchanged(before, owned, what)
    if v:
        return v
    stored = list(obj.SoftcopyVOILUTSequence)
    if _voi_cells(stored, 'ReferencedSegmentNumber') != segs0:
        return _viol(f'{what}: the object holds the segment numbers '
                     f"{_voi_cells(stored, 'ReferencedSegmentNumber')}")
    if entry != 'direct':
        viol, back = _check_object(what, obj, {})
        if viol:
            return _viol(viol)
        if _voi_cells(back.SoftcopyVOILUTSequence) != _voi_cells(stored):
            return _viol(f'{what}: frame numbers read back differ from those of the object')
    return [_voi_cells(vois), _voi_cells(stored)]


def _voi_expected(c):
    """Independent of the model: may these transformations be combined (every (image, frame) gets at
    most one window, every reference is to an image of the presentation state), and what the caller's
    items and the object must hold.  None: no expectation (segment references)."""
    if any(im['type'] == 'seg' for im in c['images']):
        return None
    items = c['items']
    if not items or (len(items) > 1 and any(r is None for r in items)):
        return 'refuse'
    known = len(c['images']) - c.get('extra', 0)
    seen = set()
    for refs in items:
        for r in refs or []:
            if r[0] >= known:
                return 'refuse'
            im = c['images'][r[0]]
            for f in (r[1] if r[1] is not None else range(1, (im['n'] if im['type'] != 'ct' else 1) + 1)):
                if (r[0], f) in seen:
                    return 'refuse'
                seen.add((r[0], f))
    cells = [[(None if r[1] is None else list(r[1])) for r in (refs or [])] for refs in items]
    return [cells, cells]


# ---- conversions and copies of objects that already are objects of the library ---------------
OBJ_CLASSES = {       # class -> (module path, is an _Image subclass: installs __getstate__ / __setstate__)
    'Image': ('highdicom.Image', True), 'Segmentation': ('highdicom.seg.Segmentation', True),
    'Comprehensive3DSR': ('highdicom.sr.Comprehensive3DSR', False),
    'MicroscopyBulkSimpleAnnotations': ('highdicom.ann.MicroscopyBulkSimpleAnnotations', False),
    'CodedConcept': ('highdicom.sr.CodedConcept', False), 'ContentItem': (None, False),
}
OBJ_HISTORIES = ['plain', 'conv_copy', 'conv_inplace', 'read', 'constructed']
OBJ_OPS = ['from_copy', 'from_default', 'from_nocopy', 'deepcopy', 'pickle']


def _obj_bytes(ds):
    b = io.BytesIO()
    ds.save_as(b)
    return b.getvalue()


def _obj_subject(c, rng):
    """(object with the HISTORY asked for, its class).  plain: a pydicom dataset as read from a file;
    conv_copy / conv_inplace: result of an earlier from_dataset; read: imread / segread / srread /
    annread of a file (content classes: converted in place); constructed: straight from the constructor."""
    import pydicom
    import highdicom as hd
    import synth
    name, hist = c['cls'], c['hist']
    if name == 'Image':
        form = c.get('form', 'ct')
        raw = synth.ct_frame((0.0, 0.0, 1.0), rng.randint(2, 5), rng.randint(2, 5)) if form == 'ct' else \
            synth.ct_multiframe([0.0, 2.5, 5.0][:rng.randint(2, 3)], 3, 4) if form == 'mf' else \
            synth.sm_tiled(8, 8, 4, 4, samples=rng.choice([1, 3]))
        cls, reader = hd.Image, hd.imread
    elif name == 'Segmentation':
        raw = _make_seg(rng, seg_type=c.get('form'))
        cls, reader = hd.seg.Segmentation, hd.seg.segread
    elif name == 'Comprehensive3DSR':
        raw = _sr_doc(rng, name)[0]
        cls, reader = hd.sr.Comprehensive3DSR, hd.sr.srread
    elif name == 'MicroscopyBulkSimpleAnnotations':
        raw = _make_ann(rng)
        cls, reader = hd.ann.MicroscopyBulkSimpleAnnotations, hd.ann.annread
    elif name == 'CodedConcept':
        raw, cls, reader = _coded(rng), hd.sr.CodedConcept, None
    else:
        raw = _item(rng, rng.choice(VALUE_TYPES))
        cls, reader = type(raw), None
    if hist == 'constructed':
        if type(raw) is not cls:
            raise ValueError('no constructor for ' + name)
        return raw, cls
    if reader is None:
        plain = _plain(raw)
    else:
        data = _obj_bytes(raw)
        if hist == 'read':
            return reader(io.BytesIO(data)), cls
        plain = pydicom.dcmread(io.BytesIO(data))
    if hist == 'plain':
        return plain, cls
    return cls.from_dataset(plain, copy=(hist == 'conv_copy')), cls


def _obj_probe(obj):
    """What the object DELIVERS through its public interface (independent of its attributes)."""
    import highdicom as hd
    out = [type(obj).__name__]
    if isinstance(obj, hd.image._Image):
        nf = int(obj.number_of_frames)
        out += [nf, obj.get_stored_frame(1).tobytes(), obj.get_stored_frame(nf).tobytes()]
    if isinstance(obj, hd.seg.Segmentation):
        uids = sorted(map(tuple, obj.get_source_image_uids()))
        out += [uids, list(obj.segment_numbers)]
        try:
            out.append(obj.get_pixels_by_source_instance(
                source_sop_instance_uids=[uids[0][2]], ignore_spatial_locations=True,
                assert_missing_frames_are_empty=True).tobytes())
        except (ValueError, KeyError, RuntimeError, IndexError) as ex:       # (frames without a source instance ...)
            out.append('n/a: ' + type(ex).__name__)
    if isinstance(obj, hd.sr.Comprehensive3DSR):
        out.append([str(it.ConceptNameCodeSequence[0].CodeValue) for it in obj.content])
    if isinstance(obj, hd.ann.MicroscopyBulkSimpleAnnotations):
        out.append([g.number for g in obj.get_annotation_groups()])
    if isinstance(obj, hd.sr.CodedConcept):
        out.append((obj.value, obj.scheme_designator, obj.meaning))
    return out


def run_obj_copy(c):
    """A conversion with / without copying, a deepcopy or a pickle round trip applied to an object
    with a HISTORY: [the result is the argument itself, the argument was changed]."""
    import pickle
    import random
    rng = random.Random(c['seed'])
    obj, cls = _obj_subject(c, rng)
    op = c['op']
    what = (f"{cls.__name__}.from_dataset(copy={'True' if op == 'from_copy' else 'default' if op == 'from_default' else 'False'})"
            if op.startswith('from') else 'copy.deepcopy' if op == 'deepcopy' else 'pickle round trip') + \
        f" of a {type(obj).__name__} ({c['hist']}{', ' + str(c.get('form')) if c.get('form') else ''})"
    steps = {'from_copy': lambda: cls.from_dataset(obj, copy=True), 'from_default': lambda: cls.from_dataset(obj),
             'from_nocopy': lambda: cls.from_dataset(obj, copy=False), 'deepcopy': lambda: _copy.deepcopy(obj),
             'pickle': lambda: pickle.loads(pickle.dumps(obj))}
    is_obj = isinstance(obj, cls)
    ids0 = set()
    before = _snap(obj, ids0)
    elements0 = _plain(obj)
    probe0 = _obj_probe(obj) if is_obj else None
    same = None
    for round_ in (1, 2):           # the original must survive being copied - and being copied AGAIN
        try:
            res = steps[op]()
        except Exception as ex:
            d = _first_diff(before, _snap(obj))
            if d:
                return _viol(f'{what} raised {type(ex).__name__} AND modified the original: {d}')
            if round_ == 2:
                return _viol(f'{what} worked once, the second time it raises {type(ex).__name__}: {ex}')
            if op in ('deepcopy', 'pickle') and not (is_obj and OBJ_CLASSES[c['cls']][1]):
                return Err('not copyable')       # pydicom's own business (e.g. an open file, a local function)
            return _viol(f'{what} raised {type(ex).__name__}: {ex}')
        if op == 'from_nocopy':
            if res is not obj:
                return _viol(f'{what} returned a different object')
            if not is_obj:
                return [True, False]             # converted in place, as asked for
            d = _cmp_ds(elements0, obj)          # an object of the class converted in place AGAIN: nothing to do
            if d:
                return _viol(f'{what} changed the value of an element: {d}')
        else:
            if res is obj:
                return _viol(f'{what} returned the argument itself')
            shared = _node_ids(res) & ids0
            if shared:
                return _viol(f'{what}: the result shares {len(shared)} nested dataset/sequence object(s) with the original')
            d = _cmp_ds(obj, res)
            if d:
                return _viol(f'{what}: the copy differs from the original: {d}')
        d = _first_diff(before, _snap(obj)) if op != 'from_nocopy' else None
        if d:
            return _viol(f'{what} modified the original: {d}')
        if is_obj:
            try:
                if _obj_probe(obj) != probe0:
                    return _viol(f'{what}: the original delivers other frames / look-ups than before')
            except Exception as ex:
                return _viol(f'{what}: the original is no longer usable afterwards: {type(ex).__name__}: {ex}')
            try:
                if _obj_probe(res) != probe0:
                    return _viol(f'{what}: the result delivers other frames / look-ups than the original')
            except Exception as ex:
                return _viol(f'{what}: the result is not usable: {type(ex).__name__}: {ex}')
        same = res is obj
    if 'SOPInstanceUID' in obj and is_obj:      # ... and still is a file that reads back element for element
        import pydicom
        b = io.BytesIO()
        try:
            obj.save_as(b, enforce_file_format=True)
        except Exception as ex:
            return _viol(f'{what}: the original cannot be written afterwards: {type(ex).__name__}: {ex}')
        d = _cmp_ds(elements0, pydicom.dcmread(io.BytesIO(b.getvalue())))
        if d:
            return _viol(f'{what}: the original written afterwards differs from what it was: {d}')
    return [bool(same), False]


TS_CODES = {0: [None], 1: ['1.2.840.10008.1.2'], 2: ['1.2.840.10008.1.2.1'], 3: ['1.2.840.10008.1.2.2'],
            4: ['1.2.840.10008.1.2.1.99'],
            5: ['1.2.840.10008.1.2.5', '1.2.840.10008.1.2.4.50', '1.2.840.10008.1.2.4.80', '1.2.840.10008.1.2.4.90'],
            6: ['1.2.840.10008.5.1.4.1.1.2', '1.2.3.4', '1.2.840.10008.1.1']}
SEX = [None, '', 'M', 'F', 'O', 'X']
QUALIFICATION = [None, '', 'PRODUCT', 'RESEARCH', 'SERVICE', 'FOO']
SOP_LO_ARGS = ['series_description', 'manufacturer', 'manufacturer_model_name', 'device_serial_number',
               'software_versions', 'institution_name', 'institutional_department_name']
SOP_LO_KEYWORDS = ['SeriesDescription', 'Manufacturer', 'ManufacturerModelName', 'DeviceSerialNumber',
                   'SoftwareVersions', 'InstitutionName', 'InstitutionalDepartmentName']


def _ts_code(uid):
    for code, uids in TS_CODES.items():
        if uid in uids:
            return code
    return 6


def run_sop_init(c):
    """highdicom.base.SOPClass(...) itself: file meta information and the mandatory modules."""
    from highdicom.base import SOPClass
    kw = dict(study_instance_uid=c['study'], series_instance_uid=c['series'], series_number=c['series_number'],
              sop_instance_uid=c['instance'], sop_class_uid=c['cls'], instance_number=c['instance_number'],
              modality='OT', transfer_syntax_uid=TS_CODES[c['ts']][c['ts_pick'] % len(TS_CODES[c['ts']])],
              patient_sex=SEX[c['sex']], content_qualification=QUALIFICATION[c['qual']])
    for name, v in zip(SOP_LO_ARGS, c['lo']):
        kw[name] = None if v is None else _pystr(v)
    try:
        obj = SOPClass(**kw)
    except (ValueError, TypeError) as ex:
        if _call_mistake(ex):
            raise
        return Err(type(ex).__name__)
    fm = obj.file_meta
    # strict write + read back, except for values that end in a blank: trailing blanks of LO values are
    # padding in DICOM (PS3.5 6.2) and pydicom strips them when reading, so such a value cannot read back
    # character for character whatever the library does (the model comparison still covers them)
    if all(not v or v[-1] != 32 for v in c['lo']):
        viol, _ = _check_object('SOPClass', obj, {})
        if viol:
            return _viol(viol)

    def lo(kwd):
        v = obj.get(kwd)
        return None if v is None else [ord(ch) for ch in str(v)]

    def code(v, table):
        return None if v in (None, '') else table.index(str(v)) - 1
    return [_ts_code(str(fm.TransferSyntaxUID)), [ord(ch) for ch in str(fm.MediaStorageSOPClassUID)],
            [ord(ch) for ch in str(fm.MediaStorageSOPInstanceUID)], [ord(ch) for ch in str(obj.SOPClassUID)],
            [ord(ch) for ch in str(obj.SOPInstanceUID)], [ord(ch) for ch in str(obj.StudyInstanceUID)],
            [ord(ch) for ch in str(obj.SeriesInstanceUID)], int(obj.SeriesNumber), int(obj.InstanceNumber),
            code(obj.get('PatientSex'), SEX), [lo(k) for k in SOP_LO_KEYWORDS],
            code(obj.get('ContentQualification'), QUALIFICATION)]


def _plane_array(c):
    """The plane handed to the kernel: Rows x Columns (x Segments), float values given in quarters."""
    import numpy as np
    vals = c['plane']
    rows = c['rows']
    a = np.array(vals, dtype=np.float64) / 4 if c['fl'] else np.array(vals)
    a = a.astype(c['in_dtype'])
    nch = len(vals[0])
    a = a.reshape(rows, len(vals) // rows, nch) if c['nd3'] else a.reshape(rows, len(vals) // rows)
    return _relayout(a, c.get('layout', 'C'))


def run_seg_plane(c):
    """Segmentation._get_segment_pixel_array on one plane: [was the caller's array written to, values]."""
    import numpy as np
    import highdicom as hd
    from highdicom.seg import SegmentationTypeValues as T
    arr = _plane_array(c)
    before = _snap(arr)
    try:
        out = hd.seg.Segmentation._get_segment_pixel_array(
            arr, c['seg'], np.array(c['described']), T.FRACTIONAL if c['frac'] else T.BINARY, c['mfv'],
            np.dtype(c['out_dtype']).type)
    except ValueError as ex:
        if 'read-only' in str(ex):
            return [True, []]
        raise
    changed = _snap(arr) != before
    if out.dtype != np.dtype(c['out_dtype']):
        return _viol(f"plane has dtype {out.dtype}, {c['out_dtype']} was asked for")
    return [bool(changed), [int(v) for v in np.asarray(out).reshape(-1)]]


# ---- geometry: Volume / VolumeGeometry / affine helpers / coordinate transformers (kinds geom, geom_form) ----
# The arguments are small matrices and vectors; what varies is the FORM the caller holds them in: nested /
# flat lists and tuples, float64 arrays (C, Fortran, a view into a larger array, a transposed view, a flat
# (9,) array, a strided flat view, write-protected), arrays of another dtype (float32, int64, longdouble,
# non-native byte order).  A library can skip a defensive copy exactly for float64 arrays.
MATRIX_FORMS = ['list', 'tuple', 'flat', 'flat_tuple', 'f8', 'f8_F', 'f8_view', 'f8_T', 'f8_flat', 'f8_flat_view',
                'f8_readonly', 'f8_flat_readonly', 'f4', 'i8', 'g', 'f8_swapped']
VECTOR_FORMS = ['list', 'tuple', 'f8', 'f8_view', 'f8_readonly', 'f4', 'i8']
FLAT_FORMS = ('flat', 'flat_tuple', 'f8_flat', 'f8_flat_view', 'f8_flat_readonly')
GEOM_COMPONENT_ENTRIES = ['affine', 'geometry', 'volume']
GEOM_FORM_ENTRIES = ['geometry_affine', 'volume_affine', 'affine_attrs', 'geometry_attrs', 'volume_attrs', 'rotation',
                     'pix2ref', 'ref2pix', 'img2ref', 'ref2img', 'pix2pix', 'img2img', 'volume_ops']
ORIENT_LETTERS = 'LRPAHF'


def _as_form(a, form):
    """The float64 value `a` (vector or matrix) in one of the forms a caller can hold it in."""
    import numpy as np
    a = np.array(a, dtype=np.float64)
    integral = bool(np.all(a == np.round(a)))
    if form == 'list':
        return a.tolist()
    if form == 'tuple':
        return tuple(tuple(r) for r in a.tolist()) if a.ndim == 2 else tuple(a.tolist())
    if form == 'flat':
        return a.reshape(-1).tolist()
    if form == 'flat_tuple':
        return tuple(a.reshape(-1).tolist())
    if form == 'f8':
        return a.copy()
    if form == 'f8_F':
        return np.asfortranarray(a)
    if form == 'f8_view':
        if a.ndim == 2:
            big = np.full((a.shape[0] + 2, a.shape[1] + 2), 7.0)
            big[1:-1, 1:-1] = a
            return big[1:-1, 1:-1]
        big = np.full(2 * a.size + 3, 7.0)
        big[1:1 + 2 * a.size:2] = a
        return big[1:1 + 2 * a.size:2]
    if form == 'f8_T':
        return np.array(a.T, dtype=np.float64).T if a.ndim == 2 else a.copy()
    if form == 'f8_flat':
        return a.reshape(-1).copy()
    if form == 'f8_flat_view':
        big = np.full(2 * a.size + 1, 7.0)
        big[::2][:a.size] = a.reshape(-1)
        return big[::2][:a.size]
    if form in ('f8_readonly', 'f8_flat_readonly'):
        r = a.reshape(-1).copy() if form == 'f8_flat_readonly' else a.copy()
        r.flags.writeable = False
        return r
    if form == 'f4':            # (only values a float32 holds exactly: the VALUE of the argument must not change)
        return a.astype(np.float32) if _exact_in_f4(a) else a.copy()
    if form == 'i8':
        return a.astype(np.int64) if integral else a.copy()
    if form == 'g':
        return a.astype(np.longdouble)
    if form == 'f8_swapped':
        return a.astype(a.dtype.newbyteorder('S'))
    raise ValueError(form)


def _form_class(x):
    """0 a list / tuple, 1 a float64 numpy array in native byte order, 2 another array."""
    import numpy as np
    if not isinstance(x, np.ndarray):
        return 0
    return 1 if x.dtype == np.dtype('float64') and x.dtype.isnative else 2


def _exact_in_f4(a):
    import numpy as np
    a = np.asarray(a, dtype=np.float64)
    return bool(np.all(a.astype(np.float32).astype(np.float64) == a))


def _geom_components(c):
    """Arguments of the from_components family as the caller holds them: (kwargs, owned, reference affine or
    None when the arguments are not acceptable)."""
    import math
    import numpy as np
    owned = {}
    kw = {}
    sdiv = c.get('sdiv', 4)
    sp = [q / sdiv for q in c['spacing']]
    if c.get('scalar'):
        kw['spacing'] = float(sp[0]) if c.get('sform') != 'i8' or sp[0] != int(sp[0]) else int(sp[0])
    else:
        kw['spacing'] = owned['spacing'] = _as_form(sp, c.get('sform', 'list'))
    if c.get('dir') is not None:
        d = np.array(c['dir'], dtype=np.float64)
        form = c.get('dform', 'list')
        if c.get('badshape'):             # (2, 2), (8,), (3, 4), (1, 9): no direction matrix
            d = d.reshape(c['badshape'])
        else:
            d = d.reshape(3, 3)
            if c.get('rot'):            # an inexact direction: the exact one turned about two axes
                a, b = c['rot']
                rz = np.array([[math.cos(a), -math.sin(a), 0.0], [math.sin(a), math.cos(a), 0.0], [0.0, 0.0, 1.0]])
                rx = np.array([[1.0, 0.0, 0.0], [0.0, math.cos(b), -math.sin(b)], [0.0, math.sin(b), math.cos(b)]])
                d = rz @ rx @ d
        kw['direction'] = owned['direction'] = _as_form(d, form)
    if c.get('orient') is not None:
        letters = [ORIENT_LETTERS[k] if 0 <= k < 6 else 'X' for k in c['orient']]
        kw['patient_orientation'] = ''.join(letters) if c.get('oform', 'str') == 'str' else list(letters)
    for name in ('pos', 'center'):
        if c.get(name) is not None:
            key = {'pos': 'position', 'center': 'center_position'}[name]
            kw[key] = owned[key] = _as_form([q / 4 for q in c[name]], c.get('pform', 'list'))
    return kw, owned


def _geom_reference(c):
    """numpy reference for the affine of the from_components family (None: arguments that must be refused)."""
    import math
    import numpy as np
    if (c.get('dir') is None) == (c.get('orient') is None) or (c.get('pos') is None) == (c.get('center') is None):
        return None
    sp = np.array([q / c.get('sdiv', 4) for q in c['spacing']])
    if len(sp) != 3 or sp.min() <= 0:
        return None
    if c.get('dir') is not None:
        if c.get('badshape') or len(c['dir']) != 9:
            return None
        d = np.array(c['dir'], dtype=np.float64).reshape(3, 3)
        if not np.array_equal(d.T @ d, np.eye(3)):
            return None
        if c.get('rot'):
            a, b = c['rot']
            rz = np.array([[math.cos(a), -math.sin(a), 0.0], [math.sin(a), math.cos(a), 0.0], [0.0, 0.0, 1.0]])
            rx = np.array([[1.0, 0.0, 0.0], [0.0, math.cos(b), -math.sin(b)], [0.0, math.sin(b), math.cos(b)]])
            d = rz @ rx @ d
    else:
        o = c['orient']
        if len(o) != 3 or any(not 0 <= k < 6 for k in o) or sorted(k // 2 for k in o) != [0, 1, 2]:
            return None
        d = np.zeros((3, 3))
        for j, k in enumerate(o):
            d[k // 2, j] = 1.0 if k % 2 == 0 else -1.0
    ref = np.eye(4)
    ref[:3, :3] = d * sp[None, :]
    if c.get('pos') is not None:
        if len(c['pos']) != 3:
            return None
        ref[:3, 3] = np.array(c['pos']) / 4
    else:
        n = c.get('shape')
        if n is None or len(n) != 3 or len(c['center']) != 3:
            return None
        ref[:3, 3] = np.array(c['center']) / 4 - ref[:3, :3] @ ((np.array(n) - 1) / 2)
    return ref


_GEOM_DETAIL = {}


def run_geom(c):
    """The from_components family: create_affine_matrix_from_components, VolumeGeometry.from_components,
    Volume.from_components.  Output [was an argument of the caller changed, affine in eighths]; the details of
    a change are kept for the oracle's message."""
    import numpy as np
    import highdicom as hd
    from highdicom.spatial import create_affine_matrix_from_components
    entry = c['entry']
    kw, owned = _geom_components(c)
    what = (f"{ {'affine': 'create_affine_matrix_from_components', 'geometry': 'VolumeGeometry.from_components', 'volume': 'Volume.from_components'}[entry]}"
            f"(direction as {c.get('dform') if c.get('dir') is not None else None}"
            f", spacing {[q / c.get('sdiv', 4) for q in c['spacing']]}"
            f"{' (scalar)' if c.get('scalar') else ''} as {c.get('sform', 'list')}, "
            f"{'position' if c.get('pos') is not None else 'center_position'} as {c.get('pform', 'list')})")
    shape = c.get('shape')
    array = None
    if entry == 'volume':
        array = np.arange(int(np.prod(shape)), dtype=np.uint16).reshape(shape)
        owned['array'] = array

    def call():
        if entry == 'affine':
            return create_affine_matrix_from_components(spatial_shape=shape, **kw)
        if entry == 'geometry':
            return hd.VolumeGeometry.from_components(shape, coordinate_system='PATIENT', **kw).affine
        return hd.Volume.from_components(array, coordinate_system='PATIENT', **kw).affine
    names = sorted(owned)
    before = [_snap(owned[k]) for k in names]
    values = {k: np.array(owned[k], dtype=np.float64).copy() for k in names if k != 'array'}
    _GEOM_DETAIL.pop('msg', None)

    def changed():
        for k, x in zip(names, before):
            d = _first_diff(x, _snap(owned[k]), f"argument '{k}'")
            if d:
                now = np.array(owned[k], dtype=np.float64).reshape(-1).tolist() if k != 'array' else '...'
                was = values[k].reshape(-1).tolist() if k != 'array' else '...'
                _GEOM_DETAIL['msg'] = f'{what} modified its input: {d}; it held {was} and now holds {now}'
                return True
        return False
    try:
        aff = call()
    except REJECTIONS as ex:
        if _call_mistake(ex):
            raise
        if 'read-only' in str(ex):
            return _viol(f'{what} writes to an array passed to it (write-protected input): {type(ex).__name__}: {ex}')
        if changed():
            return _viol(_GEOM_DETAIL['msg'] + f' (and raised {type(ex).__name__})')
        return Err(type(ex).__name__)
    ch = changed()
    ref = _geom_reference(c)
    if ref is None:
        return _viol(f'{what}: arguments that must be refused were accepted')
    if not np.allclose(aff, ref, rtol=1e-9, atol=1e-9):
        return _viol(f'{what}: affine {np.round(aff, 6).tolist()} instead of {np.round(ref, 6).tolist()}')
    if not ch:
        # the very same argument objects used for a second construction
        try:
            aff2 = call()
        except Exception as ex:
            return _viol(f'{what}: a second construction from the same argument objects raises '
                         f'{type(ex).__name__}: {ex}')
        if not np.array_equal(aff, aff2):
            return _viol(f'{what}: constructing twice from the same arguments gives two different geometries')
        ch = changed()
    e8 = np.asarray(aff, dtype=np.float64) * 8
    if c.get('rot') or c.get('sdiv', 4) != 4 or not np.array_equal(e8, np.round(e8)):
        return [bool(ch), None]
    return [bool(ch), [int(v) for v in e8.reshape(-1)]]


def _geom_attr_reference(pos, ori, ps, sbs):
    """Affine of a volume over (slice, row, column) indices from image attributes (right-handed)."""
    import numpy as np
    row, col = np.array(ori[:3]), np.array(ori[3:])
    ref = np.eye(4)
    ref[:3, 0] = np.cross(col, row) * sbs        # right-handed: axis 0 = axis 1 x axis 2
    ref[:3, 1] = col * ps[0]
    ref[:3, 2] = row * ps[1]
    ref[:3, 3] = pos
    return ref


def run_geom_form(c):
    """The other geometry entry points x the form of every array argument: an affine passed directly,
    from_attributes, the rotation / affine helpers, the six coordinate transformers (constructor, for_image(s)
    and the call on a coordinate array), conversions of a Volume built on the caller's array.  Output
    'ok' / refusal; every violation is found here (snapshots, numpy reference, result independent of the form)."""
    import math
    import random
    import numpy as np
    import highdicom as hd
    from highdicom import spatial as S
    rng = random.Random(c['seed'])
    entry, mform, vform = c['entry'], c['mform'], c['vform']
    what = f'{entry} (matrix arguments as {mform}, vector arguments as {vform})'
    ang = c.get('angle', 0.0)
    ori = [math.cos(ang), math.sin(ang), 0.0, -math.sin(ang), math.cos(ang), 0.0]
    if ang == 0.0:
        ori = rng.choice([[1.0, 0.0, 0.0, 0.0, 1.0, 0.0], [0.0, 1.0, 0.0, 0.0, 0.0, -1.0], [0.0, 0.0, -1.0, 1.0, 0.0, 0.0]])
    pos = [rng.choice([0.0, 10.5, -20.25, 1 / 3]) for _ in range(3)]
    ps = [rng.choice([0.5, 0.75, 2.5, 1.0, 1 / 3]) for _ in range(2)]
    sbs = rng.choice([1.25, 2.0, 0.7])
    if vform == 'i8':
        pos, ps, sbs = [float(round(v)) for v in pos], [float(max(1, round(v))) for v in ps], 2.0
    if vform == 'f4' and not (_exact_in_f4(pos) and _exact_in_f4(ps)):
        pos, ps = [10.5, -20.25, 3.0], [0.5, 0.75]
    if (vform == 'f4' or mform == 'f4') and not _exact_in_f4(ori):
        ori = [0.0, 1.0, 0.0, 0.0, 0.0, -1.0]
    owned = {}

    def arg(name, value, form):
        owned[name] = _as_form(value, form)
        return owned[name]
    shape = (2, 3, 4)
    result = {}
    plain = {}

    def prepare(forms):
        """(callable, reference or None) with the arguments in the given forms."""
        mf, vf = forms
        if entry in ('geometry_affine', 'volume_affine', 'volume_ops'):
            ref = _geom_attr_reference(pos, ori, ps, sbs)
            aform = mf if mf not in ('list', 'tuple', 'flat', 'flat_tuple', 'f8_flat', 'f8_flat_view', 'f8_flat_readonly') \
                else 'f8'              # the affine is documented as an array
            if aform in ('i8', 'f4') and not (np.all(ref == np.round(ref)) if aform == 'i8' else _exact_in_f4(ref)):
                aform = 'f8_view'
            aff = arg('affine', ref, aform)
            if entry == 'geometry_affine':
                return (lambda: hd.VolumeGeometry(aff, shape, 'PATIENT').affine), ref
            dt = c.get('dtype', 'uint8')
            data = _relayout((np.arange(24) % 7).astype(dt).reshape(shape), c.get('layout', 'C'))
            owned['array'] = data
            if entry == 'volume_affine':
                return (lambda: hd.Volume(data, aff, 'PATIENT').affine), ref

            def ops():
                vol = hd.Volume(data, aff, 'PATIENT')
                vsnap = (_snap(vol.array), _snap(vol.affine))
                made = {
                    'flip': lambda: vol.flip_spatial([0, 2]), 'permute': lambda: vol.permute_spatial_axes([2, 0, 1]),
                    'swap': lambda: vol.swap_spatial_axes(0, 1), 'pad': lambda: vol.pad([[1, 0], [0, 2], [1, 1]]),
                    'pad_shape': lambda: vol.pad_to_spatial_shape((4, 5, 6)), 'crop_shape': lambda: vol.crop_to_spatial_shape((1, 2, 3)),
                    'index': lambda: vol[1:, ::-1, 1:3], 'astype': lambda: vol.astype(np.float32),
                    'same_type': lambda: vol.astype(data.dtype.type), 'copy': lambda: vol.copy(),
                    'with_array': lambda: vol.with_array(np.zeros(shape, np.int16)),
                    'orient': lambda: vol.to_patient_orientation('FPL'), 'handed': lambda: vol.ensure_handedness('LEFT_HANDED', flip_axis=0),
                    'mean_std': lambda: vol.normalize_mean_std(), 'min_max': lambda: vol.normalize_min_max(),
                    'clip': lambda: vol.clip(1, 4), 'geometry': lambda: vol.get_geometry(),
                    'match': lambda: vol.match_geometry(vol.get_geometry().pad(1)),
                }
                out = []
                for name in sorted(made):
                    try:
                        r = made[name]()
                    except REJECTIONS as ex:
                        if 'read-only' in str(ex):
                            raise
                        r = None
                    if (_snap(vol.array), _snap(vol.affine)) != vsnap:
                        raise AssertionError(f'Volume.{name} changed the volume it was applied to')
                    out.append(None if r is None else np.asarray(r.affine))
                return np.concatenate([np.zeros((4, 4)) if r is None else r for r in out])
            return ops, None
        ip = arg('image_position', pos, vf)
        io = arg('image_orientation', ori, vf)
        px = arg('pixel_spacing', ps, vf)
        if entry == 'affine_attrs':
            return (lambda: S.create_affine_matrix_from_attributes(ip, io, px, sbs, index_convention=('D', 'R'),
                                                                   slices_first=True)), \
                _geom_attr_reference(pos, ori, ps, sbs)
        if entry == 'geometry_attrs':
            return (lambda: hd.VolumeGeometry.from_attributes(
                image_position=ip, image_orientation=io, pixel_spacing=px, spacing_between_slices=sbs,
                number_of_frames=2, rows=3, columns=4, coordinate_system='PATIENT').affine), \
                _geom_attr_reference(pos, ori, ps, sbs)
        if entry == 'volume_attrs':
            data = np.zeros(shape, np.uint8)
            owned['array'] = data
            return (lambda: hd.Volume.from_attributes(
                array=data, image_position=ip, image_orientation=io, pixel_spacing=px, spacing_between_slices=sbs,
                coordinate_system='PATIENT').affine), _geom_attr_reference(pos, ori, ps, sbs)
        if entry == 'rotation':
            return (lambda: np.concatenate([S.create_rotation_matrix(io, pixel_spacing=px, spacing_between_slices=sbs),
                                            S.get_normal_vector(io).reshape(1, 3)])), None
        # coordinate transformers: the constructor AND the call on an array of coordinates
        pos2 = [pos[k] + 3.0 * ori[k] - 1.5 * ori[3 + k] for k in range(3)]       # in the plane of the first image
        ip2 = arg('image_position_to', pos2, vf)
        io2 = arg('image_orientation_to', ori, vf)
        px2 = arg('pixel_spacing_to', [2 * ps[0], 2 * ps[1]], vf)
        pix = np.array([[0, 0], [1, 2], [3, 1]])
        img = np.array([[0.5, 0.5], [1.25, 2.0], [3.0, 1.5]])
        ref3 = np.array([pos, pos2, [pos[0] + 1.0, pos[1], pos[2]]])
        cform = mf if mf in ('f8', 'f8_F', 'f8_view', 'f8_T', 'f8_readonly') else 'f8'
        def int_coordinates():
            if cform == 'f8_view':
                big = np.full((5, 4), 7, dtype=np.int64)
                big[1:4, 1:3] = pix
                owned['coordinates'] = big[1:4, 1:3]
            elif cform == 'f8_T':
                owned['coordinates'] = np.array(pix.T, dtype=np.int64).T
            else:
                owned['coordinates'] = np.asfortranarray(pix) if cform == 'f8_F' else pix.copy()
                if cform == 'f8_readonly':
                    owned['coordinates'].flags.writeable = False
            return owned['coordinates']
        if entry == 'pix2ref':
            co = int_coordinates()
            return (lambda: S.PixelToReferenceTransformer(ip, io, px)(co)), None
        if entry == 'ref2pix':
            co = arg('coordinates', ref3, cform)
            return (lambda: S.ReferenceToPixelTransformer(ip, io, px, sbs)(co)), None
        if entry == 'img2ref':
            co = arg('coordinates', img, cform)
            return (lambda: S.ImageToReferenceTransformer(ip, io, px)(co)), None
        if entry == 'ref2img':
            co = arg('coordinates', ref3, cform)
            return (lambda: S.ReferenceToImageTransformer(ip, io, px, sbs)(co)), None
        if entry == 'pix2pix':
            co = int_coordinates()
            return (lambda: S.PixelToPixelTransformer(ip, io, px, ip2, io2, px2)(co)), None
        if entry == 'img2img':
            co = arg('coordinates', img, cform)
            return (lambda: S.ImageToImageTransformer(ip, io, px, ip2, io2, px2)(co)), None
        raise ValueError(entry)

    # the result with every argument as a plain list / C-contiguous float64 array: what every form must give
    base_call, ref = prepare(('f8' if entry in ('geometry_affine', 'volume_affine', 'volume_ops') else 'list', 'list'))
    saved_layout = c.get('layout')
    try:
        base = np.asarray(base_call(), dtype=np.float64)
    except REJECTIONS as ex:
        if _call_mistake(ex):
            raise
        return Err('baseline ' + type(ex).__name__)
    owned.clear()
    call, ref = prepare((mform, vform))
    names = sorted(owned)
    before = [_snap(owned[k]) for k in names]

    def changed():
        for k, x in zip(names, before):
            d = _first_diff(x, _snap(owned[k]), f"argument '{k}'")
            if d:
                return f'{what} modified its input: {d}'
        return None
    try:
        got = np.asarray(call(), dtype=np.float64)
    except AssertionError as ex:
        return _viol(f'{what}: {ex}')
    except REJECTIONS as ex:
        if _call_mistake(ex):
            raise
        if 'read-only' in str(ex):
            return _viol(f'{what} writes to an array passed to it (write-protected input): {type(ex).__name__}: {ex}')
        d = changed()
        if d:
            return _viol(d + f' (and raised {type(ex).__name__})')
        return Err(type(ex).__name__)
    d = changed()
    if d:
        return _viol(d)
    if ref is not None and not np.allclose(got, ref, rtol=1e-9, atol=1e-9):
        return _viol(f'{what}: affine {np.round(got, 6).tolist()} instead of {np.round(ref, 6).tolist()}')
    if got.shape != base.shape or not np.allclose(got, base, rtol=1e-6, atol=1e-6, equal_nan=True):
        return _viol(f'{what}: the result depends on the form of the arguments: {np.round(got, 5).tolist()[:4]} '
                     f'instead of {np.round(base, 5).tolist()[:4]} with plain lists')
    try:
        again = np.asarray(call(), dtype=np.float64)
    except Exception as ex:
        return _viol(f'{what}: a second call with the same argument objects raises {type(ex).__name__}: {ex}')
    if not np.array_equal(again, got, equal_nan=True):
        return _viol(f'{what}: two calls with the same argument objects give different results')
    d = changed()
    if d:
        return _viol(d)
    return 'ok'


# --------------------------------------------------------------------------
# generators
# --------------------------------------------------------------------------
ALPHA = [65, 66, 90, 88, 97, 122, 48, 57, 53, 32, 95, 92, 10, 13, 45, 46, 94, 61, 233, 8364, 0x4e2d, 9, 126]
CSALPHA = [65, 66, 90, 88, 76, 48, 57, 53, 32, 95]


def _rstr(rng, vr):
    lim = LIMIT[vr]
    pb = {'CS': 0.35, 'SH': 0.35, 'LO': 0.3, 'ST': 0.1, 'LT': 0.04}[vr]   # long literals are slow to parse in coqc
    n = rng.choice([lim - 1, lim, lim + 1]) if rng.random() < pb else \
        rng.choice([0, 1, 2, 3, 5, rng.randint(0, min(lim + 2, 40))])
    mode = rng.random()
    if vr == 'CS' and mode < 0.7:
        s = [rng.choice(CSALPHA) for _ in range(n)]
        if s and rng.random() < 0.6:
            s[0] = rng.choice([65, 76, 90])
        if s and rng.random() < 0.5:
            s[-1] = rng.choice([65, 57, 88])
        if rng.random() < 0.15:
            s.insert(rng.randrange(len(s) + 1), rng.choice([10, 97, 92, 233]))
        if rng.random() < 0.1:
            s.append(10)
        return s
    if mode < 0.5:
        s = [rng.choice([65, 97, 48, 32, 95, 233]) for _ in range(n)]
    else:
        s = [rng.choice(ALPHA) for _ in range(n)]
    if s and rng.random() < 0.2:
        s[rng.randrange(len(s))] = 92
    return s


def _rnum(rng, vr):
    """A string around the grammar and the length limit of a decimal / integer string."""
    digits = lambda k: ''.join(rng.choice('0123456789') for _ in range(k))
    lim = NUMBER_STRING_VRS[vr][0]
    sign = rng.choice(['', '', '-', '+'])
    if vr == 'IS':
        t = sign + digits(rng.choice([1, 2, 9, lim - 2, lim - 1, lim, lim + 1]))
    else:
        form = rng.random()
        a, b = rng.choice([0, 1, 1, 2, 6]), rng.choice([0, 1, 3, 10, 13, 14, 15, 16])
        if form < 0.5:
            t = sign + digits(a) + '.' + digits(b)
        elif form < 0.8:
            t = sign + digits(max(a, 1)) + rng.choice(['.', '']) + digits(rng.choice([0, 5, 9, 10])) + \
                rng.choice('eE') + rng.choice(['', '+', '-']) + digits(rng.choice([0, 1, 2, 2, 3]))
        else:
            t = sign + digits(rng.choice([1, 5, 15, 16, 17]))
    r = rng.random()
    if r < 0.15:
        t = ' ' * rng.randint(1, 2) + t
    elif r < 0.3:
        t = t + ' ' * rng.randint(1, 2)
    elif r < 0.4 and t:
        i = rng.randrange(len(t) + 1)
        t = t[:i] + rng.choice(['a', '\n', ',', ' ', '-', '.', 'e']) + t[i:]
    return [ord(ch) for ch in t]


def gen_cases(rng, tier):
    n = {'quick': 1, 'thorough': 8, 'search': 4}[tier]
    cases = []
    for vr in VRS:
        for _ in range(60 * n if vr == 'CS' else 25 * n):
            cases.append({'kind': 'guard', 'vr': vr, 's': _rstr(rng, vr)})
        for _ in range(40 * n if vr == 'CS' else 12 * n):
            cases.append({'kind': 'valid', 'vr': vr, 's': _rstr(rng, vr)})
    for s in ([65, 10], [65, 32], [65, 95], [95, 65], [49, 65], [65] * 16, [65] * 17, [], [10], [65, 10, 66]):
        cases.append({'kind': 'guard', 'vr': 'CS', 's': s})
        cases.append({'kind': 'valid', 'vr': 'CS', 's': s})
    for vr in VRS:      # exact length boundaries, clean characters
        for d in (-1, 0, 1):
            cases.append({'kind': 'guard', 'vr': vr, 's': [65] * (LIMIT[vr] + d)})
            if vr != 'LT' or d == 1:
                cases.append({'kind': 'valid', 'vr': vr, 's': [65] * (LIMIT[vr] + d)})
    for vr in NUMBER_STRING_VRS:
        for _ in range(45 * n if vr == 'DS' else 20 * n):
            cases.append({'kind': 'valid', 'vr': vr, 's': _rnum(rng, vr)})
    for t in ('0.3333333333333333', '0.30000000000000004', '0.3333333333333', '1.2345678912e-05', '1.2345678912345678e-05',
              '-1.23456789e+100', '333333333333333.3', '1234567890123456', '12345678901234567', '', ' ', '.', '.5', '5.',
              '+.5e-3', '1e', '1e+', 'e5', '1.5\n', '1 ', ' 1', '1 2', '--1', '1.2.3', '1E5', '0x10', 'nan', 'inf', '1,5'):
        cases.append({'kind': 'valid', 'vr': 'DS', 's': [ord(ch) for ch in t]})
        if len(t) < 14:
            cases.append({'kind': 'valid', 'vr': 'IS', 's': [ord(ch) for ch in t]})
    special = [0, 1, 9, 10, 11, 99, 100, 2 ** 64, 2 ** 127, 2 ** 128 - 1, 10 ** 38, 10 ** 38 - 1]
    for k in special + [rng.getrandbits(rng.choice([8, 32, 64, 100, 128])) for _ in range(25 * n)]:
        cases.append({'kind': 'uid_uuid', 'n': str(k)})
    for k in [0, 9, 10, 10 ** 34, 10 ** 35 - 1] + [rng.randrange(10 ** rng.randint(1, 35)) for _ in range(25 * n)]:
        cases.append({'kind': 'uid_hd', 'n': str(k)})
    for _ in range(40 * n):
        comps = []
        for _ in range(rng.choice([1, 2, 3, 5, 9])):
            c = rng.choice(['0', '1', '25', '00', '01', '840', '', '10008', 'a', '9' * rng.randint(1, 30)])
            comps.append(c)
        s = '.'.join(comps)
        if rng.random() < 0.1:
            s += rng.choice(['\n', '.', ' '])
        cases.append({'kind': 'uid_valid', 's': [ord(ch) for ch in s]})
    cases.append({'kind': 'uid_valid', 's': [ord(ch) for ch in '1.' + '2' * 62]})
    cases.append({'kind': 'uid_valid', 's': [ord(ch) for ch in '1.' + '2' * 63]})
    for _ in range(2 * n):
        cases.append({'kind': 'uid_unique', 'count': 300})
    for j, t in enumerate(sorted(CONVERTERS)):
        for cp in (True, False):
            for _ in range(2 * n):
                cases.append({'kind': 'conv', 'target': t, 'copy': cp, 'seed': rng.getrandbits(32)})
            # the argument already is an object of the class (converted earlier, in place or with copying)
            for hist in (('inplace', 'copy') if n > 1 else (('inplace', 'copy')[(j + cp) % 2],)):
                cases.append({'kind': 'conv', 'target': t, 'copy': cp, 'seed': rng.getrandbits(32), 'hist': hist})
    for t in sorted(CONSTRUCTORS):
        reps = 12 if t in ('coded_concept', 'content_item', 'segment_description') else 4
        for i in range(reps * n):
            cases.append({'kind': 'ctor', 'target': t, 'seed': rng.getrandbits(32),
                          'strict': 'construct' if i % 2 else 'write'})
    cases += _gen_layout_cases(rng, n)
    cases += _gen_multi_cases(rng, n)
    cases += _gen_lut_cases(rng, n)
    cases += _gen_pyr_id_cases(rng, n)
    cases += _gen_pm_native_cases(rng, n)
    cases += _gen_sop_init_cases(rng, n)
    cases += _gen_seg_plane_cases(rng, n)
    cases += _gen_measures_cases(rng, n)
    cases += _gen_area_cases(rng, n)
    cases += _gen_src_cases(rng, n)
    cases += _gen_voi_cases(rng, n)
    cases += _gen_obj_copy_cases(rng, n)
    cases += _gen_num_cases(rng, n)
    cases += _gen_geom_cases(rng, n)
    cases += _gen_geom_form_cases(rng, n)
    return cases


def _gen_src_cases(rng, n):
    """Every image-taking constructor x the FORM of the source / referenced images (kind ctor_src)."""
    cases = []
    i = 0
    for t in ('seg_binary', 'seg_fractional', 'seg_labelmap'):
        forms = SOURCE_FORMS if (n > 1 or t == 'seg_binary') else \
            ['mf', 'seg_nospacing'] + rng.sample([f for f in SOURCE_FORMS if f not in ('mf', 'seg_nospacing')], 3)
        for form in forms:
            i += 1
            cases.append(_ctor(rng, t, {'source': form}, i))
    for form in ('series_rev', 'series_shuffled', 'mf', 'mf_spacing', 'mf_single', 'mf_irregular', 'seg_nospacing'):
        i += 1
        cases.append(_ctor(rng, 'pm', {'source': form, 'ndim': rng.choice([3, 4])}, i))
    for refs in PR_REFS:
        tiled = refs.startswith(('tiled', 'pyramid'))
        forms = ['window', 'pseudocolor', 'color'] if tiled else ['window', rng.choice(['voilut', 'modlut', 'pseudocolor'])]
        for form in forms:
            if form == 'color' and n == 1 and refs in ('tiled', 'pyramid_asc') and rng.random() < 0.5:
                continue
            i += 1
            cases.append(_ctor(rng, 'pr', {'refs': refs, 'pr': form}, i))
    cases.append(_ctor(rng, 'pr', {'refs': 'pyramid_asc', 'pr': 'window', 'container': 'tuple'}, i))
    cases.append(_ctor(rng, 'pr', {'refs': 'series', 'pr': 'window', 'container': 'tuple'}, i))
    return cases


def _gen_measures_cases(rng, n):
    """Segmentation.__init__ x where the pixel measures come from x whether a spacing is there / can be
    derived (kind seg_measures, model-compared)."""
    cases = []
    for source in ('series', 'mf', 'seg', 'tiled'):
        for user in (False, True):
            for has_spacing in (False, True):
                stacks = ['single', 'regular', 'irregular'] if source != 'tiled' else ['regular']
                if source == 'seg':
                    stacks = ['regular', rng.choice(['single', 'irregular'])]
                for stack in stacks:
                    for _ in range(n):
                        step = rng.choice([0.5, 1.25, 2.5, 3.0])
                        k = 1 if stack == 'single' else rng.randint(2, 4) if stack == 'regular' else rng.randint(3, 4)
                        zs = [j * step for j in range(k)]
                        if stack == 'irregular':       # one gap of 2 or 3 steps (first, middle or last)
                            j0 = rng.randrange(1, k)
                            gap = step * rng.choice([1.0, 2.0])
                            zs = [z + (gap if j >= j0 else 0.0) for j, z in enumerate(zs)]
                        rows, cols = rng.choice([(2, 3), (4, 4), (3, 2)])
                        cases.append({'kind': 'seg_measures', 'source': source, 'user': user,
                                      'has_spacing': has_spacing, 'zs': zs, 'rows': rows, 'cols': cols})
    return cases


def _gen_area_cases(rng, n):
    """_add_displayed_area_attributes x tiled or not x number of referenced images x ORDER of their
    sizes (ascending, descending, mixed, ties, rows x columns products that tie) (kind pr_area)."""
    cases = []
    pool = [(8, 8), (16, 16), (32, 32), (64, 64), (16, 8), (8, 16), (4, 32), (32, 4), (24, 10), (100, 3)]
    fixed = [[(32, 32)], [(8, 8), (16, 16), (32, 32)], [(32, 32), (16, 16), (8, 8)], [(16, 16), (8, 8), (32, 32)],
             [(32, 32), (8, 8)], [(8, 8), (32, 32)], [(16, 8), (8, 16)], [(8, 16), (16, 8), (4, 32)],
             [(32, 32), (8, 8), (16, 16), (8, 8)], [(16, 16), (16, 16)], []]
    for tiled in (True, False):
        for sizes in fixed:
            cases.append({'kind': 'pr_area', 'tiled': tiled, 'sizes': [list(x) for x in sizes], 'container': 'list'})
        for _ in range(8 * n):
            sizes = [rng.choice(pool) for _ in range(rng.choice([1, 2, 2, 3, 4, 5]))]
            cases.append({'kind': 'pr_area', 'tiled': tiled, 'sizes': [list(x) for x in sizes],
                          'container': 'tuple' if rng.random() < 0.15 else 'list'})
    return cases


def _gen_voi_cases(rng, n):
    """Presentation states x NUMBER of VOI LUT transformations x what each refers to (nothing, whole
    images, one frame = a scalar element, several frames = a multi-valued element, segments) x whether
    several of them refer to the SAME image x order of the forms x overlap (kind pr_voi)."""
    cases = []
    mf6 = [{'type': 'mf', 'n': 6}]
    two = [{'type': 'mf', 'n': 4}, {'type': 'mf', 'n': 3}]
    cts = [{'type': 'ct'}] * 3
    seg = [{'type': 'seg', 'n': 4}]
    fixed = [
        (mf6, [[[0, [1, 2]]], [[0, [3, 4]]]]),                       # several frames each, same image
        (mf6, [[[0, [5, 1]]], [[0, [2, 6]]], [[0, [3, 4]]]]),
        (mf6, [[[0, [1]]], [[0, [2]]]]),                             # one frame each
        (mf6, [[[0, [6]]], [[0, [1, 2]]]]),                          # one frame first, several later
        (mf6, [[[0, [1, 2]]], [[0, [3]]]]),                          # several first, one later
        (mf6, [[[0, [1, 2, 3]]]]), (mf6, [None]), (mf6, [None, None]), (mf6, []), (mf6, [[[0, None]]]),
        (mf6, [[[0, None]], [[0, [2]]]]), (mf6, [[[0, [1, 2]]], [[0, [2, 3]]]]),
        (mf6, [[[0, [1, 2]]], None]), (mf6, [[[0, [2, 3]]], [[0, [4]]], [[0, [5, 6, 1]]]]),
        ([{'type': 'tiled', 'n': 6}], [[[0, [1, 2]]], [[0, [3, 4, 5]]]]),
        (two, [[[0, [1, 2]]], [[1, [1, 2]]], [[0, [3]]]]),
        (two, [[[0, [1, 2]], [1, [1]]], [[0, [3, 4]], [1, [2, 3]]]]),     # per-item frame numbers
        (two, [[[0, [1, 2]], [1, [1]]], [[0, [3, 4]], [1, [1, 3]]]]),
        (cts, [[[0, None]], [[1, None]], [[2, None]]]), (cts, [[[0, None], [1, None]], [[2, None]]]),
        (cts, [[[0, None]], [[0, None], [1, None]]]), (cts, [[[0, None], [1, None], [2, None]]]),
        (seg, [[[0, None, [1, 2]]], [[0, None, [3]]]]), (seg, [[[0, None, [1, 2]]], [[0, None, [3, 4]]]]),
        (seg, [[[0, None, [1, 2]]], [[0, None, [2, 3]]]]), (seg, [[[0, [1, 2], [1, 2]]], [[0, [3], [3]]]]),
    ]
    for i, (images, items) in enumerate(fixed):
        for entry in (('gsps', 'pseudo', 'direct') if (n > 1 or i < 2) else (('gsps', 'pseudo', 'direct')[i % 3],)):
            cases.append({'kind': 'pr_voi', 'entry': entry, 'images': images, 'items': items, 'extra': 0,
                          'container': 'list', 'lut': False})
    # a reference to an image that is not among the referenced images of the presentation state
    cases.append({'kind': 'pr_voi', 'entry': 'gsps', 'images': two, 'items': [[[0, [1, 2]]], [[1, [1, 2]]]], 'extra': 1,
                  'container': 'list', 'lut': False})
    for _ in range(14 * n):
        kind = rng.choice(['mf', 'mf', 'tiled', 'two', 'ct'])
        if kind == 'ct':
            k = rng.randint(2, 4)
            images = [{'type': 'ct'}] * k
            order = list(range(k))
            rng.shuffle(order)
            cut = sorted(rng.sample(range(1, k), rng.randint(1, k - 1)))
            items = [[[j, None] for j in order[a:b]] for a, b in zip([0] + cut, cut + [k])]
            if rng.random() < 0.2:
                items[-1].append([order[0], None])
        else:
            images = [{'type': 'mf' if kind != 'tiled' else 'tiled', 'n': rng.randint(2, 8)}]
            if kind == 'two':
                images.append({'type': 'mf', 'n': rng.randint(2, 5)})
            pool = [(j, f) for j, im in enumerate(images) for f in range(1, im['n'] + 1)]
            rng.shuffle(pool)
            T = rng.randint(1, 4)
            items = []
            for t in range(T):
                refs = []
                for j in range(len(images)):
                    mine = [f for (jj, f) in pool if jj == j]
                    take = mine[:rng.choice([1, 2, 2, 3])]
                    pool = [x for x in pool if not (x[0] == j and x[1] in take)]
                    if take and (rng.random() < 0.8 or not refs):
                        refs.append([j, take])
                if not refs:
                    refs = [[0, [rng.randint(1, images[0]['n'])]]]          # (frames used up: an overlap)
                items.append(refs)
            if rng.random() < 0.2 and T > 1:                                 # overlap on purpose
                a, b = rng.sample(range(T), 2)
                items[b][0] = [items[a][0][0], items[b][0][1][:-1] + [items[a][0][1][-1]]] \
                    if items[b][0][0] == items[a][0][0] else items[b][0]
            if rng.random() < 0.15:
                items[rng.randrange(T)] = [[0, None]]                       # one of them for the whole image
        cases.append({'kind': 'pr_voi', 'entry': rng.choice(['gsps', 'gsps', 'pseudo', 'direct']), 'images': images,
                      'items': items, 'extra': 0, 'container': rng.choice(['list', 'list', 'tuple']),
                      'lut': rng.random() < 0.3})
    return cases


def _gen_obj_copy_cases(rng, n):
    """Objects of the library with a HISTORY (plain dataset, converted earlier with / without copying,
    read by imread / segread / srread / annread, straight from the constructor) x what is applied to them
    (from_dataset with copy True / default / False, copy.deepcopy, pickle) (kind obj_copy)."""
    cases = []
    forms = {'Image': ['ct', 'mf', 'tiled'], 'Segmentation': ['BINARY', 'FRACTIONAL', 'LABELMAP']}
    for cls in OBJ_CLASSES:
        for hist in OBJ_HISTORIES:
            if hist == 'constructed' and cls == 'Image':
                continue
            if hist == 'read' and cls in ('CodedConcept', 'ContentItem'):
                continue
            image = OBJ_CLASSES[cls][1]
            ops = OBJ_OPS if (image or n > 1) else ['from_copy', rng.choice(OBJ_OPS[1:])]
            if hist == 'plain' and n == 1:
                ops = ['from_copy', 'from_nocopy', rng.choice(['deepcopy', 'pickle', 'from_default'])] if image else \
                    [rng.choice(['from_copy', 'from_nocopy'])]
            for op in ops:
                cases.append({'kind': 'obj_copy', 'cls': cls, 'hist': hist, 'op': op, 'seed': rng.getrandbits(32),
                              'form': rng.choice(forms[cls]) if cls in forms else None})
    return cases


def _gen_num_cases(rng, n):
    """Every entry point that stores a floating-point ARGUMENT as a decimal string x the number (short repr,
    and the long reprs ordinary arithmetic produces: 17-22 characters, exponent notation, huge / tiny) x the
    form the caller holds it in (float, numpy float64 / float32 scalar, array, list, tuple, int)
    (kind ctor_num)."""
    cases = []
    i = 0
    cheap = ('num_sc', 'num_measures', 'num_plane_position', 'num_plane_orientation', 'num_voi', 'num_modality',
             'num_num_item', 'num_pm_tiled')
    forms = NUM_FORMS[:6]
    for t in sorted(NUM_CONSTRUCTORS):
        names = sorted(NUM_VALUES) if (t in cheap or n > 1) else ['half'] + rng.sample(NUM_LONG, 4)
        for name in names:
            i += 1
            form = forms[i % len(forms)] if rng.random() < 0.8 else rng.choice(NUM_FORMS)
            cases.append({'kind': 'ctor_num', 'target': t, 'seed': rng.getrandbits(32),
                          'strict': 'construct' if i % 2 else 'write', 'opt': {'num': name, 'numform': form}})
        for _ in range((3 if t in cheap else 1) * n):      # the plain float, whatever was drawn above
            i += 1
            cases.append({'kind': 'ctor_num', 'target': t, 'seed': rng.getrandbits(32),
                          'strict': 'construct' if i % 2 else 'write',
                          'opt': {'num': rng.choice(NUM_LONG), 'numform': 'float'}})
    return cases


def _signed_permutation(rng, identity=False):
    """An exact direction matrix (row by row): the unit vectors in some order with some signs."""
    perm = [0, 1, 2]
    sg = [1, 1, 1]
    if not identity:
        rng.shuffle(perm)
        sg = [rng.choice([1, -1]) for _ in range(3)]
    m = [0] * 9
    for j in range(3):
        m[3 * perm[j] + j] = sg[j]
    return m


def _gen_geom_cases(rng, n):
    """create_affine_matrix_from_components / VolumeGeometry.from_components / Volume.from_components x the FORM
    of the direction matrix (16 forms) x spacing (unit, scalar, dyadic, 1/3) x its form x position or
    center_position x their form x direction or patient_orientation + every guard violated (kind geom)."""
    cases = []

    def base(entry, **k):
        c = {'kind': 'geom', 'entry': entry, 'dir': _signed_permutation(rng), 'dform': 'list', 'orient': None,
             'spacing': [rng.choice([1, 2, 3, 5, 10, 6]) for _ in range(3)], 'sdiv': 4, 'scalar': False, 'sform': 'list',
             'pos': [rng.randint(-200, 200) for _ in range(3)], 'center': None, 'pform': rng.choice(VECTOR_FORMS),
             'shape': [rng.randint(1, 3), rng.randint(1, 4), rng.randint(1, 4)] if entry != 'affine' or rng.random() < 0.5
             else None, 'rot': None}
        c.update(k)
        return c
    for entry in GEOM_COMPONENT_ENTRIES:
        for form in MATRIX_FORMS:
            cases.append(base(entry, dform=form, sform=rng.choice(VECTOR_FORMS)))
        for form in VECTOR_FORMS:       # the spacing / the position in every form, the direction as an array
            cases.append(base(entry, sform=form, pform=form, dform=rng.choice(['f8', 'f8_F', 'list'])))
    for _ in range(45 * n):
        entry = rng.choice(GEOM_COMPONENT_ENTRIES)
        c = base(entry, dform=rng.choice(MATRIX_FORMS), sform=rng.choice(VECTOR_FORMS))
        r = rng.random()
        if r < 0.25:
            c['rot'] = [rng.choice([0.3, -0.7, 1 / 3, 2.0]), rng.choice([0.0, 0.25, -1.1])]
        elif r < 0.4:
            c['sdiv'] = rng.choice([3, 7])
        elif r < 0.6:
            c['dir'], c['orient'] = None, [2 * ax + rng.randint(0, 1) for ax in rng.sample([0, 1, 2], 3)]
            c['oform'] = rng.choice(['str', 'list'])
        if rng.random() < 0.1:
            c['spacing'] = [4, 4, 4]
        if rng.random() < 0.15:
            c['scalar'], c['spacing'] = True, [c['spacing'][0]] * 3
        if rng.random() < 0.4:
            c['center'], c['pos'] = c['pos'], None
            c['shape'] = c['shape'] or [2, 3, 4]
        cases.append(c)
    # every guard violated (alone, and two at a time to pin the order)
    bad = [dict(orient=[0, 2, 4]), dict(dir=None), dict(center=[4, 8, 12], shape=[2, 2, 2]), dict(pos=None),
           dict(spacing=[4, 4]), dict(spacing=[4, 4, 4, 4]), dict(spacing=[4, 0, 4]), dict(spacing=[4, -2, 4]),
           dict(dir=[2, 0, 0, 0, 1, 0, 0, 0, 1]), dict(dir=[1, 0, 0, 1, 0, 0, 0, 0, 1]), dict(dir=[1, 1, 0, 0, 1, 0, 0, 0, 1]),
           dict(dir=[0, 0, 0, 0, 1, 0, 0, 0, 1]), dict(dir=[1, 0, 0, 1], badshape=[2, 2]), dict(dir=[1, 0, 0, 0, 1, 0, 0, 0], badshape=[8]),
           dict(dir=[1, 0, 0, 0, 0, 1, 0, 0, 0, 0, 1, 0], badshape=[3, 4]), dict(dir=[1, 0, 0, 0, 1, 0, 0, 0, 1], badshape=[1, 9]),
           dict(dir=None, orient=[0, 2]), dict(dir=None, orient=[0, 1, 2]), dict(dir=None, orient=[0, 2, 6]),
           dict(dir=None, orient=[0, 2, 4, 4]), dict(dir=None, orient=[4, 5, 0]), dict(pos=[4, 8]), dict(pos=[4, 8, 12, 16]),
           dict(pos=None, center=[4, 8, 12], shape=None), dict(pos=None, center=[4, 8, 12], shape=[2, 2]),
           dict(pos=None, center=[4, 8], shape=[2, 2, 2]), dict(spacing=[4, 4], dir=[2, 0, 0, 0, 1, 0, 0, 0, 1]),
           dict(dir=None, spacing=[0, 4, 4]), dict(pos=None, spacing=[4, 4]), dict(pos=[4, 8], dir=[2, 0, 0, 0, 1, 0, 0, 0, 1])]
    for k in bad:
        entry = 'affine' if ('shape' in k and (k['shape'] is None or len(k['shape']) != 3)) else \
            rng.choice(GEOM_COMPONENT_ENTRIES)
        c = base(entry, dform=rng.choice(['list', 'f8']), pform='list', **k)
        if entry != 'affine' and c['shape'] is None:
            c['shape'] = [2, 2, 2]
        cases.append(c)
    return cases


def _gen_geom_form_cases(rng, n):
    """Volume / VolumeGeometry from an affine or from image attributes, the rotation / affine helpers, the six
    coordinate transformers and conversions of a Volume x the form of every array argument (kind geom_form)."""
    cases = []
    aforms = ['f8', 'f8_F', 'f8_view', 'f8_T', 'f8_readonly', 'f4', 'i8', 'g', 'f8_swapped']
    for entry in GEOM_FORM_ENTRIES:
        if entry in ('geometry_affine', 'volume_affine', 'volume_ops'):
            combos = [(m, 'list') for m in aforms]
        elif entry in ('affine_attrs', 'geometry_attrs', 'volume_attrs', 'rotation'):
            combos = [('f8', v) for v in VECTOR_FORMS]
        elif entry in ('pix2ref', 'img2ref'):
            combos = [(m, v) for m, v in zip(['f8', 'f8_F', 'f8_view', 'f8_T', 'f8_readonly', 'f8', 'f8_view'],
                                             VECTOR_FORMS)]
        else:       # (these four refuse numpy arrays as vector arguments: one such case each)
            combos = [(m, v) for m, v in zip(['f8', 'f8_F', 'f8_view', 'f8_T', 'f8_readonly', 'f8'],
                                             ['list', 'tuple', 'list', 'tuple', 'list', 'f8'])]
        for _ in range(n):
            for m, v in combos:
                c = {'kind': 'geom_form', 'entry': entry, 'mform': m, 'vform': v, 'seed': rng.getrandbits(32),
                     'angle': rng.choice([0.0, 0.0, 0.3, 1 / 3])}
                if entry in ('volume_affine', 'volume_ops'):
                    c['layout'] = rng.choice(['C', 'F', 'offset', 'readonly', 'reversed', 'strided'])
                    c['dtype'] = rng.choice(['uint8', 'int16', 'float32', 'float64'])
                cases.append(c)
    return cases


def _ctor(rng, target, opt, i=0):
    return {'kind': 'ctor_src' if ('source' in opt or 'refs' in opt) else
            'ctor_layout' if 'layout' in opt else 'ctor_multi' if target == 'pyramid' else 'ctor_opt',
            'target': target, 'seed': rng.getrandbits(32), 'strict': 'construct' if i % 2 else 'write', 'opt': opt}


def _gen_layout_cases(rng, n):
    """Every array-taking constructor x memory layout x dtype (incl. non-native byte order)
    x rank; palette colour tables (8/16 bit, odd/even size, each entry point) inside objects."""
    cases = []
    i = 0
    for lay in LAYOUTS:
        # Parametric Map: rank 2 / 3 / 4, one or several mappings, every dtype
        for ndim, maps in ((2, 1), (3, 1), (4, 1), (4, 2)):
            dts = ['f4', 'f8'] + ([rng.choice(['u1', 'u2'])] if n == 1 else ['u1', 'u2'])
            for dt in (dts if ndim != 3 or n > 1 else [rng.choice(dts)]):
                i += 1
                cases.append(_ctor(rng, 'pm', {'layout': lay, 'ndim': ndim, 'maps': maps, 'dtype': dt}, i))
        for t, dts in (('seg_binary', ['uint8', 'uint16', 'bool']), ('seg_labelmap', ['uint8', 'uint16']),
                       ('seg_fractional', ['uint8', 'float32', 'float64', 'bool'])):
            for dt in (dts if n > 1 else rng.sample(dts, 2)):
                i += 1
                cases.append(_ctor(rng, t, {'layout': lay, 'dtype': dt}, i))
        for k in (['u8', 'u16', 'rgb'] if n > 1 else [rng.choice(['u8', 'rgb']), 'u16']):
            i += 1
            cases.append(_ctor(rng, 'sc', {'layout': lay, 'sc_kind': k}, i))
        cases.append(_ctor(rng, 'ann', {'layout': lay}, i))
        cases.append(_ctor(rng, 'sc', {'layout': lay, 'sc_kind': rng.choice(['u8', 'u16', 'rgb']), 'ts': 'rle'}, i))
        cases.append(_ctor(rng, rng.choice(['seg_labelmap', 'seg_fractional']),
                           {'layout': lay, 'dtype': rng.choice(['uint8', 'uint16']), 'ts': 'rle'}, i + 1))
        cases.append(_ctor(rng, 'pyramid', {'layout': lay, 'mode': rng.choice(['factors', 'arrays'])}, i))
        cases.append(_ctor(rng, 'pr', {'layout': lay, 'pr': rng.choice(['voilut', 'modlut', 'pseudocolor']),
                                       'entries': rng.choice([3, 4, 5])}, i))
    for bits in (8, 16):
        for entries in (3, 4, 5, 7, 255, 256):
            for via in (['luts', 'combined', 'colors'] if bits == 8 else ['luts', 'combined']):
                if n == 1 and entries in (7, 255) and via != rng.choice(['luts', 'combined']):
                    continue
                i += 1
                cases.append(_ctor(rng, 'seg_labelmap', {'palette': [bits, entries, via]}, i))
        for entries in (3, 4):
            cases.append(_ctor(rng, 'pm', {'palette': [bits, entries, 'luts'], 'dtype': 'u2', 'ndim': 3}, i))
    return cases


def _gen_multi_cases(rng, n):
    cases = []
    i = 0
    for t in ('tracking_identifiers', 'dimension_indexes'):
        for _ in range(2 * n):
            cases.append({'kind': 'ctor_multi', 'target': t, 'seed': rng.getrandbits(32), 'strict': 'write', 'opt': {}})
    for _ in range(n):
        for mode in ('factors', 'sources', 'arrays'):
            for levels in (2, 3):
                for uids in (None, 'given'):
                    i += 1
                    cases.append(_ctor(rng, 'pyramid', {'mode': mode, 'levels': levels, 'uids': uids,
                                                        'series': rng.choice(['default', 'given'])}, i))
    return cases


FINDINGS = {}      # no open C20 finding: D93 (LUT tables unpadded / byte-swapped), D96 (odd-length native 8-bit
#                    PixelData of SC / legacy images) and D97 (pseudo-colour state refused VOI transformations),
#                    all found by the strata below, were fixed in /repo; their cases are part of the default draw


def _gen_lut_cases(rng, n):
    cases = []

    def col(bits, k):
        return [rng.choice([0, 1, 2 ** bits - 1, rng.randrange(2 ** bits)]) for _ in range(k)]
    sizes = [1, 2, 3, 4, 5, 7, 8, 255, 256, 257]
    # byte order only exists for 16-bit tables
    lays = {8: ['C', 'C', 'strided', 'offset', 'readonly'],
            16: ['C', 'strided', 'offset', 'readonly', 'swapped', 'swapped', 'swapped_offset', 'swapped_readonly']}
    for bits in (8, 16):
        for k in sizes:
            if k > 2 ** bits and rng.random() < 0.5:
                continue
            for cls in ('PaletteColorLUT',) + PLAIN_LUTS:
                if n == 1 and cls in PLAIN_LUTS[1:] and k not in (3, 4, 256):
                    continue
                cases.append({'kind': 'lut', 'cls': cls, 'bits': bits, 'first': rng.choice([0, 0, 1, 2 ** bits - 1]),
                              'r': col(bits, k), 'layout': rng.choice(lays[bits])})
            for via in ('luts', 'combined', 'colors', 'segmented'):
                if via == 'colors' and bits == 16:
                    continue
                if n == 1 and k in (1, 2, 8, 257) and via != 'luts':
                    continue
                holder = rng.choice([None, None, 'seg', 'pm'] + (['pr'] if bits == 16 else [])) \
                    if via in ('luts', 'combined') else rng.choice([None, 'seg']) if via == 'colors' else None
                if holder == 'seg' and k < 2:
                    holder = 'pm'      # a label map needs background + one segment: a one-entry palette cannot hold it
                cases.append({'kind': 'lut', 'cls': 'PaletteColorLUTTransformation', 'via': via, 'bits': bits,
                              'first': 0 if holder else rng.choice([0, 1]), 'r': col(bits, k), 'g': col(bits, k),
                              'b': col(bits, k), 'holder': holder,
                              'layout': rng.choice(lays[bits]) if via != 'colors' else 'C'})
    # refusals: first mapped value / number of entries outside the table, unequal tables
    for bits, first, k in ((8, 256, 3), (8, -1, 3), (16, 65536, 2), (8, 0, 0), (16, 0, 0)):
        cases.append({'kind': 'lut', 'cls': 'PaletteColorLUT', 'bits': bits, 'first': first, 'r': col(bits, k),
                      'layout': 'C'})
        cases.append({'kind': 'lut', 'cls': 'LUT', 'bits': bits, 'first': first, 'r': col(bits, k), 'layout': 'C'})
    for bits in (8, 16):
        cases.append({'kind': 'lut', 'cls': 'PaletteColorLUTTransformation', 'via': 'luts', 'bits': bits, 'first': 0,
                      'r': col(bits, 3), 'g': col(bits, 4), 'b': col(bits, 3), 'holder': None, 'layout': 'C'})
    cases += _gen_segmented_cases(rng, n, lays)
    # tables with 2^16 entries (descriptor 0: VR US cannot hold 65536) through every class; oracle only
    for cls in ('PaletteColorLUT', 'LUT', rng.choice(PLAIN_LUTS[1:])):
        for k in ((65536, 65535) if cls != 'LUT' or n > 1 else (65536,)):
            cases.append({'kind': 'lut', 'cls': cls, 'bits': 16, 'first': rng.choice([0, 1]), 'r': col(16, k),
                          'layout': rng.choice(['C', 'readonly'])})
    for via, holder in (('luts', None), ('combined', 'pr')):
        cases.append({'kind': 'lut', 'cls': 'PaletteColorLUTTransformation', 'via': via, 'bits': 16, 'first': 0,
                      'r': col(16, 65536), 'g': col(16, 65536), 'b': col(16, 65536), 'holder': holder, 'layout': 'C'})
    # 16-bit tables in non-native byte order
    for cls in ('PaletteColorLUT', 'LUT'):
        cases.append({'kind': 'lut', 'cls': cls, 'bits': 16, 'first': 0, 'r': col(16, 4), 'layout': 'swapped'})
    for via in ('luts', 'combined', 'segmented'):
        cases.append({'kind': 'lut', 'cls': 'PaletteColorLUTTransformation', 'via': via, 'bits': 16, 'first': 0,
                      'r': col(16, 4), 'g': col(16, 4), 'b': col(16, 4), 'holder': None,
                      'layout': rng.choice(['swapped', 'swapped_readonly'])})
    return cases


def _segments(rng, bits, total, ramps=True):
    """Well-formed segmented data (first segment discrete, linear segments of length >= 2, ascending
    ramps) that expand to exactly `total` entries."""
    top = 2 ** bits - 1
    maxlen = top                                   # a length is one value of the table's dtype
    data, left, v = [], total, rng.randrange(0, top // 2 + 1)
    k = min(left, rng.choice([1, 1, 2, 3]))
    data += [0, k, v]
    left -= k
    while left > 0:
        k = min(left, maxlen, rng.choice([left, left, 2, 3, 5, rng.randint(1, max(1, left))]))
        if ramps and k >= 2 and rng.random() < 0.7:
            v = rng.randint(v, top)
            data += [1, k, v]
        else:
            v = rng.randrange(0, top + 1)
            data += [0, k, v]
        left -= k
    return data


def _gen_segmented_cases(rng, n, lays):
    """SegmentedPaletteColorLUT with real segments: discrete and linear, expanded sizes around every
    boundary (1, 2, 255, 256, 257, 65535, 65536 = the value VR US cannot hold), alone (model-compared),
    inside a transformation and inside a presentation state; plus a malformed stream."""
    cases = []
    for bits in (8, 16):
        totals = [1, 2, 3, 255, 256, 257, 1000] if bits == 8 else [1, 2, 256, 4096, 65534, 65535, 65536, 65536]
        for total in totals:
            for rep in range(2 if total >= 65535 else 1):
                cases.append({'kind': 'lut', 'cls': 'SegmentedPaletteColorLUT', 'bits': bits,
                              'first': rng.choice([0, 0, 1, 2 ** bits - 1]), 'r': _segments(rng, bits, total),
                              'color': rng.choice(['red', 'green', 'blue']), 'wellformed': True,
                              'layout': rng.choice(lays[bits])})
        for total in ([3, 256] if bits == 8 else [4, 65535, 65536, 65536]):
            holder = rng.choice([None, 'pr']) if bits == 16 else None
            cases.append({'kind': 'lut', 'cls': 'PaletteColorLUTTransformation', 'via': 'segments', 'bits': bits,
                          'first': 0, 'r': _segments(rng, bits, total), 'g': _segments(rng, bits, total),
                          'b': _segments(rng, bits, total), 'holder': holder if total != 65536 or rng.random() < 0.5 else 'pr',
                          'layout': 'C'})
    # segmented_lut_data gives the caller's data back: 1, 2, 3, 4 segments (odd and even numbers of values; an
    # odd number of 8-bit values is stored with a pad byte), values 0 / 1 / 2 in every position
    for bits in (8, 16):
        for nseg in (1, 2, 3, 4, 5):
            d = [0, rng.choice([1, 2, 3]), rng.choice([0, 1, 2, 2 ** bits - 1])]
            for _ in range(nseg - 1):
                d += rng.choice([[0, rng.choice([0, 1, 2, 5]), rng.choice([0, 1, 2, 7])],
                                 [1, rng.choice([0, 2, 3]), rng.choice([2, 100, 2 ** bits - 1])]])
            cases.append({'kind': 'lut', 'cls': 'SegmentedPaletteColorLUT', 'bits': bits, 'first': 0, 'r': d,
                          'color': rng.choice(['red', 'green', 'blue']), 'wellformed': False,
                          'layout': rng.choice(lays[bits])})
    # the seed of every regression of the 2^16 rule: one discrete entry and one ramp over the full 16-bit range
    cases.append({'kind': 'lut', 'cls': 'SegmentedPaletteColorLUT', 'bits': 16, 'first': 0,
                  'r': [0, 1, 0, 1, 65535, 65535], 'color': 'red', 'wellformed': True, 'layout': 'C'})
    # segmented DATA of exactly 2^bits values (the other use of the 2^16 rule in the constructor)
    cases.append({'kind': 'lut', 'cls': 'SegmentedPaletteColorLUT', 'bits': 8, 'first': 0,
                  'r': [0, 1, 7] * 85 + [0], 'color': 'red', 'wellformed': False, 'layout': 'C'})
    cases.append({'kind': 'lut', 'cls': 'SegmentedPaletteColorLUT', 'bits': 8, 'first': 0,
                  'r': ([0, 2, 7] * 86)[:255], 'color': 'blue', 'wellformed': True, 'layout': 'C'})
    # malformed stream / not a table of 1 .. 2^16 entries: model-compared, oracle silent
    bad = [[1, 5, 100], [0, 1, 7, 1, 1, 100], [0, 1, 7, 1, 0, 100], [0, 1], [0, 1, 5, 1, 3], [0, 1, 5, 2, 3, 4],
           [0, 1, 5, 3, 3, 4], [0, 0, 5], [0, 0, 5, 1, 4, 9], [0], [], [0, 2, 1, 0], [7, 1, 1]]
    for d in bad:
        cases.append({'kind': 'lut', 'cls': 'SegmentedPaletteColorLUT', 'bits': rng.choice([8, 16]), 'first': 0,
                      'r': d, 'color': 'green', 'wellformed': False, 'layout': 'C'})
    cases.append({'kind': 'lut', 'cls': 'SegmentedPaletteColorLUT', 'bits': 16, 'first': 0,
                  'r': [0, 65535, 5, 0, 65535, 5], 'color': 'red', 'wellformed': False, 'layout': 'C'})
    for first in (-1, 256, 65536):
        cases.append({'kind': 'lut', 'cls': 'SegmentedPaletteColorLUT', 'bits': 8 if first == 256 else 16,
                      'first': first, 'r': [0, 2, 5], 'color': 'red', 'wellformed': False, 'layout': 'C'})
    return cases


def _gen_pyr_id_cases(rng, n):
    cases = []
    combos = [(1, 1, [8], None), (1, 1, [8, 16], None), (1, 1, [6, 8, 16], None), (1, 1, [8, 8], None),
              (2, 1, None, None), (3, 1, None, None), (1, 2, None, None), (1, 3, None, None),
              (2, 2, None, None), (3, 3, None, None),
              # identifiers of the caller: right / wrong number, repeated ones are the caller's business
              (1, 1, [8], [5, 6]), (1, 1, [8, 16], [5, 6, 7]), (1, 1, [8], [5, 5]), (1, 1, [8], [5]),
              (1, 1, [8], [5, 6, 7]), (3, 1, None, [1, 2, 3]), (3, 1, None, [1, 2]), (1, 2, None, [9, 10]),
              (2, 2, None, [10 ** 34, 10 ** 34 + 1]),
              # refusals
              (0, 1, None, None), (1, 0, None, None), (0, 0, [8], None), (1, 1, None, None), (1, 1, [], None),
              (1, 1, [4], None), (1, 1, [2], None), (1, 1, [16, 8], None), (1, 1, [8, 4], None),
              (2, 1, [8], None), (1, 2, [8], None), (2, 3, None, None), (3, 2, None, None), (2, 2, [8], None)]
    for a, b, f, g in combos:
        cases.append({'kind': 'pyr_ids', 'n_src': a, 'n_pix': b, 'factors4': f, 'given': g,
                      'base': rng.randrange(10 ** rng.randint(1, 30))})
    for _ in range(6 * n):
        a, b = rng.choice([(1, 1), (1, 1), (rng.randint(0, 3), rng.randint(0, 3))])
        f = rng.choice([None, [rng.choice([2, 4, 5, 6, 8, 16]) for _ in range(rng.randint(0, 3))]])
        g = rng.choice([None, None, [rng.randrange(10 ** 6) for _ in range(rng.randint(1, 4))]])
        cases.append({'kind': 'pyr_ids', 'n_src': a, 'n_pix': b, 'factors4': f, 'given': g,
                      'base': rng.randrange(10 ** 20)})
    return cases


def _lo_arg(rng):
    if rng.random() < 0.45:
        return None
    n = rng.choice([0, 1, 2, 63, 64, 64, 65, rng.randint(1, 64), rng.randint(1, 70)])
    s = [rng.choice([65, 97, 48, 32, 45, 46, 95, 94]) for _ in range(n)]
    if s and rng.random() < 0.06:
        s[rng.randrange(len(s))] = 92
    return s


def _gen_sop_init_cases(rng, n):
    """SOPClass.__init__: every guard alone (first / last position, each exception class), the
    order of the guards (two violations at once), boundary strings, every transfer syntax class."""
    import uuid as _uuid
    cases = []
    classes = ['1.2.840.10008.5.1.4.1.1.66.4', '1.2.840.10008.5.1.4.1.1.2', '1.2.840.10008.5.1.4.1.1.88.33',
               '1.2.840.10008.5.1.4.1.1.7', '1.2.840.10008.5.1.4.1.1.30']

    def uid():
        return rng.choice(['1.2.3', '2.25.' + str(rng.getrandbits(rng.choice([8, 64, 128]))),
                           HD_ROOT + str(rng.randrange(10 ** rng.randint(1, 35)))])

    def base(**over):
        c = {'kind': 'sop_init', 'ts': rng.choice([0, 0, 1, 2, 4, 5]), 'ts_pick': rng.randrange(4), 'study': uid(),
             'series': uid(), 'instance': uid(), 'cls': rng.choice(classes),
             'series_number': rng.choice([1, 1, 2, 99, 2 ** 31 - 1]), 'instance_number': rng.choice([1, 1, 3, 1000]),
             'sex': rng.choice([0, 0, 1, 2, 3, 4]), 'qual': rng.choice([0, 0, 2, 3, 4]),
             'lo': [None] * 7}
        c.update(over)
        return c
    ok_lo = [[65] * 64, [72, 68], None, [], [66] * 63, [73], [68] * 64]
    cases.append(base(lo=ok_lo))
    cases.append(base(lo=ok_lo, ts=0, sex=1, qual=0))
    for ts in range(7):
        for pick in range(len(TS_CODES[ts])):
            cases.append(base(ts=ts, ts_pick=pick))
    for sex in range(6):
        cases.append(base(sex=sex))
    for q in range(6):
        cases.append(base(qual=q))
    for v in (None, 0, -1, 1):
        cases.append(base(series_number=v))
        cases.append(base(instance_number=v))
    for i in range(7):
        for bad in ([65] * 65, [65, 92, 66], [92]):
            lo = [None] * 7
            lo[i] = bad
            if i == 6:
                cases.append(base(lo=list(lo)))          # department without institution: ignored
                lo[5] = [73]
            cases.append(base(lo=lo))
    # two violations: the first guard in source order decides the exception class
    cases.append(base(series_number=None, ts=3))
    cases.append(base(series_number=None, sex=5))
    cases.append(base(series_number=None, lo=[[65] * 65] + [None] * 6))
    cases.append(base(instance_number=None, lo=[None, [92]] + [None] * 5))
    cases.append(base(instance_number=None, qual=5))
    cases.append(base(instance_number=None, series_number=0))
    cases.append(base(instance_number=0, qual=5))
    cases.append(base(series_number=None, instance_number=None))
    for _ in range(30 * n):
        cases.append(base(lo=[_lo_arg(rng) for _ in range(7)],
                          series_number=rng.choice([1, 1, 1, 5, 12, 1, 0, None]),
                          instance_number=rng.choice([1, 1, 1, 7, 300, 1, 0, None]),
                          ts=rng.choice([0, 0, 1, 2, 4, 5, 5, 2, 3, 6]), sex=rng.choice([0, 1, 2, 3, 4, 1, 2, 5]),
                          qual=rng.choice([0, 0, 1, 2, 3, 4, 5, 0])))
    return cases


def _gen_seg_plane_cases(rng, n):
    """_get_segment_pixel_array: dtype x rank x described numbers x segmentation type x
    max_fractional_value x memory layout, on planes the constructor can hand to it."""
    cases = []
    lays = ['C', 'C', 'strided', 'offset', 'readonly', 'F']
    for fl in (False, True):
        for nd3 in (False, True):
            for single1 in (False, True):
                for frac in ((True,) if fl else (False, True)):
                    for mfv in ((1, 255, 2, 100) if frac else (1,)):
                        for rep in range(n):
                            rows, cols = rng.choice([(1, 2), (2, 2), (2, 3), (3, 1)])
                            if nd3:
                                nseg = 1 if single1 else rng.randint(2, 3)
                                described = list(range(1, nseg + 1))
                            else:
                                nseg = 1
                                described = [1] if single1 else rng.choice([[1, 2], [2], [1, 2, 3], [3, 7], [2, 1]])
                            seg = rng.choice(described)
                            if fl:
                                plane = [[rng.choice([0, 1, 2, 3, 4]) for _ in range(nseg)] for _ in range(rows * cols)]
                                in_dt = rng.choice(['float32', 'float64'])
                            elif nd3 or single1:
                                plane = [[rng.randint(0, 1) for _ in range(nseg)] for _ in range(rows * cols)]
                                in_dt = rng.choice(['uint8', 'uint8', 'uint16', 'bool'])
                            else:
                                plane = [[rng.choice([0] + described)] for _ in range(rows * cols)]
                                in_dt = rng.choice(['uint8', 'uint8', 'uint16'])
                            out_dt = 'uint16' if (in_dt == 'uint16' and rng.random() < 0.5) else 'uint8'
                            cases.append({'kind': 'seg_plane', 'fl': fl, 'nd3': nd3, 'described': described, 'seg': seg,
                                          'frac': frac, 'mfv': mfv, 'plane': plane, 'rows': rows, 'in_dtype': in_dt,
                                          'out_dtype': out_dt, 'layout': rng.choice(lays)})
    # the configurations in which the returned plane is a view of the caller's array
    for lay in ('C', 'offset', 'readonly', 'strided'):
        for mfv in (255, 2):
            cases.append({'kind': 'seg_plane', 'fl': False, 'nd3': True, 'described': [1, 2], 'seg': 2, 'frac': True,
                          'mfv': mfv, 'plane': [[0, 1], [1, 1], [1, 0], [0, 0]], 'rows': 2, 'in_dtype': 'uint8',
                          'out_dtype': 'uint8', 'layout': lay})
            cases.append({'kind': 'seg_plane', 'fl': False, 'nd3': False, 'described': [1], 'seg': 1, 'frac': True,
                          'mfv': mfv, 'plane': [[0], [1], [1], [0]], 'rows': 2, 'in_dtype': 'uint8',
                          'out_dtype': 'uint8', 'layout': lay})
    return cases


def _gen_pm_native_cases(rng, n):
    cases = []
    pool = [0.0, 1.0, -1.0, 0.5, -2.25, 1.5, 1024.0, 3.0e-5 * 2 ** 20, -0.0, 255.0, 65535.0, 2.0 ** -10]
    for be in (False, True):
        for k in (4, 8):
            for ndim, M in ((2, 1), (3, 1), (4, 1), (4, 2)):
                for lay in (['C', 'readonly'] if n == 1 else ['C', 'readonly', 'offset', 'strided']):
                    rows, cols = rng.choice([(1, 2), (2, 2), (2, 3)])
                    P = 1 if ndim == 2 else rng.randint(1, 2)
                    vals = [[[rng.choice(pool) for _ in range(M)] for _ in range(rows * cols)] for _ in range(P)]
                    cases.append({'kind': 'pm_native', 'be': be, 'k': k, 'ndim': ndim, 'rows': rows, 'vals': vals,
                                  'layout': lay})
    return cases


# --------------------------------------------------------------------------
# implementation
# --------------------------------------------------------------------------
def _pystr(s):
    return ''.join(chr(c) for c in s)


def run_impl(c):
    import warnings
    warnings.simplefilter('ignore')
    k = c['kind']
    if k == 'guard':
        from highdicom import valuerep as V
        fn = {'CS': V._check_code_string, 'SH': V._check_short_string, 'LO': V._check_long_string,
              'ST': V._check_short_text, 'LT': V._check_long_text}[c['vr']]
        r = catch(fn, _pystr(c['s']))
        return not isinstance(r, Err)
    if k == 'valid':
        from pydicom.valuerep import validate_value
        from pydicom import config
        try:
            validate_value(c['vr'], _pystr(c['s']), config.RAISE)
            return True
        except ValueError:
            return False
    if k == 'uid_uuid':
        import highdicom as hd
        u = hd.UID.from_uuid(str(uuid.UUID(int=int(c['n']))))
        return [ord(ch) for ch in str(u)]
    if k == 'uid_hd':
        import secrets
        import highdicom as hd
        seen = []
        orig = secrets.randbelow

        def fake(m):
            seen.append(m)
            return int(c['n'])
        secrets.randbelow = fake
        try:
            u = hd.UID()
        finally:
            secrets.randbelow = orig
        if seen != [10 ** 35]:
            return Err('unexpected randbelow bound %r' % seen)
        return [ord(ch) for ch in str(u)]
    if k == 'uid_valid':
        # the validator applied when a UI element is written (not UID.is_valid, whose
        # constructor strips blanks and whose '$' tolerates a final newline)
        from pydicom.valuerep import validate_value
        from pydicom import config
        s = _pystr(c['s'])
        if not s:
            return False
        try:
            validate_value('UI', s, config.RAISE)
            return True
        except ValueError:
            return False
    if k == 'uid_unique':
        import highdicom as hd
        us = [str(hd.UID()) for _ in range(c['count'])]
        us += [str(hd.UID.from_uuid(str(uuid.uuid4()))) for _ in range(c['count'])]
        return us
    if k == 'conv':
        return run_converter(c)
    if k in CTOR_KINDS:
        return run_constructor(c)
    if k == 'seg_measures':
        return run_seg_measures(c)
    if k == 'pr_area':
        return run_pr_area(c)
    if k == 'pr_voi':
        return run_pr_voi(c)
    if k == 'obj_copy':
        return run_obj_copy(c)
    if k == 'lut':
        return run_lut(c)
    if k == 'pyr_ids':
        return run_pyr_ids(c)
    if k == 'pm_native':
        return run_pm_native(c)
    if k == 'sop_init':
        return run_sop_init(c)
    if k == 'seg_plane':
        return run_seg_plane(c)
    if k == 'geom':
        return run_geom(c)
    if k == 'geom_form':
        return run_geom_form(c)
    raise ValueError(k)


def coq_term(c):
    k = c['kind']
    if k == 'guard':
        return f"(run_guard {c['vr']} {zl(c['s'])})"
    if k == 'valid':
        if c['vr'] in NUMBER_STRING_VRS:
            return f"(run_valid_num {c['vr']} {zl(c['s'])})"
        return f"(run_valid {c['vr']} {zl(c['s'])})"
    if k == 'geom':
        if c.get('rot') or c.get('sdiv', 4) != 4:
            return None          # inexact numbers: numpy reference only
        o = lambda v: 'None' if v is None else f'(Some {zl(v)})'
        form = c.get('dform', 'list')
        fclass = 0 if form in ('list', 'tuple', 'flat', 'flat_tuple') else \
            2 if form in ('f4', 'i8', 'g', 'f8_swapped') else 1
        dshape = 2 if c.get('badshape') else 1 if form in FLAT_FORMS else 0
        return (f"(run_affine_components {fclass} {dshape} {o(c.get('dir'))} {o(c.get('orient'))} {zl(c['spacing'])} "
                f"{o(c.get('pos'))} {o(c.get('center'))} {o(c.get('shape'))})")
    if k == 'uid_uuid':
        return f"(run_uid 0 {zlit(int(c['n']))})"
    if k == 'uid_hd':
        return f"(run_uid 1 {zlit(int(c['n']))})"
    if k == 'uid_valid':
        return f"(run_uid_valid {zl(c['s'])})"
    if k == 'lut':
        if c['cls'] == 'SegmentedPaletteColorLUT':
            return f"(run_segmented_lut {c['bits']} {zlit(c['first'])} {zl(c['r'])})"
        if c.get('via') in ('segmented', 'segments') or len(c['r']) > 600 or \
                (c.get('via') == 'combined' and 'swapped' in c.get('layout', '')):
            return None        # segmented tables inside a transformation, tables of 2^16 entries (size of the
            #                    term) and the refusal of a non-native combined array: oracle only
        if c['cls'] == 'PaletteColorLUT':
            return f"(run_palette_lut {c['bits']} {zlit(c['first'])} {zl(c['r'])})"
        if c['cls'] in PLAIN_LUTS:
            return f"(run_plain_lut {c['bits']} {zlit(c['first'])} {zl(c['r'])})"
        return f"(run_palette_tf {c['bits']} {zlit(c['first'])} {zl(c['r'])} {zl(c['g'])} {zl(c['b'])})"
    if k == 'pyr_ids':
        f = 'None' if c['factors4'] is None else f"(Some {zl(c['factors4'])})"
        g = 'None' if c['given'] is None else f"(Some {zl(c['given'])})"
        return f"(run_pyramid_ids {c['n_src']} {c['n_pix']} {f} {g})"
    if k == 'pm_native':
        a = _pm_native_array(c)
        P, rows, cols, M = a.shape
        raw = a.tobytes()
        kk = c['k']
        items = [list(raw[i:i + kk]) for i in range(0, len(raw), kk)]       # memory order, C-contiguous
        planes = []
        for p in range(P):
            pxs = []
            for q in range(rows * cols):
                base = (p * rows * cols + q) * M
                pxs.append('[' + '; '.join(zl(items[base + j]) for j in range(M)) + ']')
            planes.append('[' + '; '.join(pxs) + ']')
        return f"(run_pm_native {'true' if c['be'] else 'false'} {M} [{'; '.join(planes)}])"
    if k == 'sop_init':
        def u(x):
            return zl([ord(ch) for ch in x])

        def ostr(v):
            return 'None' if v is None else f'(Some {zl(v)})'
        lo = c['lo']
        return ('(run_sop_init {| a_ts := %d; a_study := %s; a_series := %s; a_instance := %s; a_class := %s; '
                'a_series_number := %s; a_instance_number := %s; a_sex := %s; a_series_desc := %s; '
                'a_manufacturer := %s; a_model := %s; a_serial := %s; a_software := %s; a_institution := %s; '
                'a_department := %s; a_qualification := %s |})' % (
                    c['ts'], u(c['study']), u(c['series']), u(c['instance']), u(c['cls']),
                    common.optz(c['series_number']), common.optz(c['instance_number']),
                    common.optz(None if c['sex'] == 0 else c['sex'] - 1), ostr(lo[0]), ostr(lo[1]), ostr(lo[2]),
                    ostr(lo[3]), ostr(lo[4]), ostr(lo[5]), ostr(lo[6]),
                    common.optz(None if c['qual'] == 0 else c['qual'] - 1)))
    if k == 'seg_measures':
        bb = lambda x: 'true' if x else 'false'
        return (f"(run_seg_measures {bb(c['user'])} {bb(c['source'] in ('mf', 'seg'))} {bb(c['source'] != 'tiled')} "
                f"{bb(c['has_spacing'])} {bb(_zs_regular(c['zs']))})")
    if k == 'pr_area':
        sizes = '[' + '; '.join(f'({r}, {cc})' for r, cc in c['sizes']) + ']'
        return f"(run_displayed_area {'true' if c['tiled'] else 'false'} {sizes})"
    if k == 'pr_voi':
        if any(im['type'] == 'seg' for im in c['images']):
            return None          # references to segments: outside the model (oracle only)
        known = c['images'][:len(c['images']) - c.get('extra', 0)]
        imgs = '[' + '; '.join(f"({'false' if im['type'] == 'ct' else 'true'}, {1 if im['type'] == 'ct' else im['n']})"
                               for im in known) + ']'

        def item(r):
            return f"({r[0]}%nat, {'None' if r[1] is None else '(Some ' + zl(r[1]) + ')'})"
        ts = '[' + '; '.join('None' if refs is None else '(Some [' + '; '.join(item(r) for r in refs) + '])'
                             for refs in c['items']) + ']'
        return f"(run_voi_refs {imgs} {ts})"
    if k == 'obj_copy':
        image_object = OBJ_CLASSES[c['cls']][1] and c['hist'] != 'plain'
        if c['op'] in ('deepcopy', 'pickle') and not image_object:
            return None          # pydicom's own copying of a dataset: oracle only
        return (f"(run_obj_copy {'true' if image_object else 'false'} "
                f"{ {'from_copy': 0, 'from_default': 0, 'from_nocopy': 1, 'deepcopy': 2, 'pickle': 3}[c['op']] })")
    if k == 'seg_plane':
        b = lambda x: 'true' if x else 'false'
        return (f"(run_seg_plane {b(c['fl'])} {b(c['nd3'])} {b(c['described'] == [1])} "
                f"{b(c['in_dtype'] == c['out_dtype'])} {b(c['frac'])} {c['seg']} {c['mfv']} {common.zll(c['plane'])})")
    return None


_UIDRE = re.compile(r'(0|[1-9][0-9]*)(\.(0|[1-9][0-9]*))*\Z')


def _uid_ok(s):
    return len(s) <= 64 and _UIDRE.match(s) is not None


def oracle(c, out):
    k = c['kind']
    if k == 'guard':
        if out:
            # an accepted value must be writable under strict validation
            import pydicom
            from pydicom import config
            from pydicom.dataelem import DataElement
            tag = {'CS': 0x00080060, 'SH': 0x00080050, 'LO': 0x00080070, 'ST': 0x00080081, 'LT': 0x00204000}[c['vr']]
            try:
                DataElement(tag, c['vr'], _pystr(c['s']), validation_mode=config.RAISE)
            except Exception as ex:
                return f"{c['vr']} guard accepted {_pystr(c['s'])!r} but pydicom refuses it: {ex}"[:300]
        return None
    if k == 'valid':
        if c['vr'] in NUMBER_STRING_VRS:
            lim, rx = NUMBER_STRING_VRS[c['vr']]
            t = _pystr(c['s'])
            want = len(t) <= lim and (t == '' or rx.match(t) is not None)
            return None if out == want else \
                f"pydicom {c['vr']} validator={out} on {t!r}, the value representation says {want}"
        return None
    if k in ('uid_uuid', 'uid_hd'):
        if isinstance(out, Err):
            return str(out)
        s = _pystr(out)
        pre = '2.25.' if k == 'uid_uuid' else '1.2.826.0.1.3680043.10.511.3.'
        if not s.startswith(pre) or s[len(pre):] != str(int(c['n'])):
            return f'identifier {s} is not {pre}<decimal of the draw>'
        if not _uid_ok(s):
            return f'identifier {s} is not a valid UID'
        return None
    if k == 'uid_valid':
        want = _uid_ok(_pystr(c['s']))
        return None if out == want else f'pydicom UI validator={out} on {_pystr(c["s"])!r}, independent regex says {want}'
    if k == 'uid_unique':
        if len(set(out)) != len(out):
            return 'two calls returned the same identifier'
        bad = [u for u in out if not _uid_ok(u)]
        return f'invalid identifier {bad[0]}' if bad else None
    if k in ('conv',) + CTOR_KINDS:
        return out.get('violation') if isinstance(out, dict) else f'unexpected output {out!r}'
    if isinstance(out, Err) and out.kind.startswith('VIOLATION'):
        return out.kind[len('VIOLATION '):]
    if k == 'lut':
        if isinstance(out, Err):
            if c['cls'] == 'SegmentedPaletteColorLUT' and c.get('wellformed'):
                return f'well-formed segmented data expanding to {_segments_count(c["r"])} entries refused: {out.kind}'
            return None          # refusal; which inputs are refused is the model's side of the comparison
        if c['cls'] == 'SegmentedPaletteColorLUT' and not c.get('wellformed'):
            # an irregular stream (e.g. a linear segment of length 0): whether it is accepted is the model's
            # side; an accepted one must still be a describable table and give its data back
            desc, _, cnt, seen = out
            if not 1 <= cnt <= 65536 or desc[0] != (0 if cnt == 65536 else cnt) or seen != [int(x) for x in c['r']]:
                return f'accepted segmented data give descriptor {desc}, {cnt} entries, segmented_lut_data {seen[:9]}'
            return None
        stored = [out[1]] if c['cls'] in PLAIN_LUTS + ('PaletteColorLUT', 'SegmentedPaletteColorLUT') else out[1]
        for col, st in zip(('red', 'green', 'blue'), stored):
            if len(st) % 2:
                return (f"{c['cls']} holds an odd-length ({len(st)} bytes) {col if len(stored) > 1 else ''} table: "
                        f"the writer pads it and the file read back differs from the object")
        want = _lut_expected(c)
        if out != want:
            return (f"{c['cls']}: stored descriptor/table {str(out)[:120]} is not the little-endian image of the "
                    f"caller's table (padded to even length) {str(want)[:120]}")
        return None
    if k == 'pyr_ids':
        if isinstance(out, Err):
            return None
        nlev, part = out
        if c['given'] is None and part != list(range(nlev)):
            return (f'create_segmentation_pyramid built {nlev} levels whose SOP Instance UIDs repeat '
                    f'(first occurrence of each: {part}); identifiers must be unique per constructed object')
        if c['given'] is not None and part != [c['given'].index(d) for d in c['given']]:
            return f'levels do not carry the identifiers passed by the caller (pattern {part})'
        return None
    if k == 'pm_native':
        if isinstance(out, Err):
            return f'valid float pixel array refused: {out.kind}' if c.get('layout', 'C') == 'C' else None
        a = _pm_native_array(c)
        want = a.astype(a.dtype.newbyteorder('<')).transpose(0, 3, 1, 2).tobytes()
        if bytes(out) != want:
            return 'stored float pixel data are not the little-endian values of the array passed in'
        return None
    if k == 'sop_init':
        if isinstance(out, Err):
            return None          # which arguments are refused, and how, is the model's side of the comparison
        if c['ts'] in (3, 6):
            return 'a big-endian transfer syntax / a UID that is no transfer syntax was accepted'
        if _pystr(out[2]) != c['instance'] or _pystr(out[4]) != c['instance'] or \
                _pystr(out[1]) != c['cls'] or _pystr(out[3]) != c['cls']:
            return (f"file meta carries {_pystr(out[1])} / {_pystr(out[2])}, data set {_pystr(out[3])} / "
                    f"{_pystr(out[4])}, the caller passed {c['cls']} / {c['instance']}")
        if not _uid_ok(_pystr(out[2])):
            return f'MediaStorageSOPInstanceUID {_pystr(out[2])!r} is not a valid UID'
        for kwd, v in zip(SOP_LO_KEYWORDS, out[10]):
            if v is not None and (len(v) > 64 or 92 in v):
                return f'{kwd} = {_pystr(v)!r} cannot be written as LO'
        if out[7] < 1 or out[8] < 1:
            return 'series / instance number below 1'
        return None
    if k == 'seg_measures':
        if isinstance(out, Err):
            return f'valid arguments refused: {out.kind}'
        patient = c['source'] != 'tiled'
        want = bool(c['has_spacing'] or (patient and _zs_regular(c['zs'])))
        if out[0]:
            return 'the constructor changed an object of the caller'
        if out[1] != want:
            return (f"SpacingBetweenSlices {'recorded' if out[1] else 'not recorded'} in the segmentation; "
                    f"expected {'a' if want else 'no'} spacing for frames at z = {c['zs']}")
        return None
    if k == 'pr_area':
        if isinstance(out, Err):
            return None if not c['sizes'] else f'valid referenced images refused: {out.kind}'
        corner, sel, order = out
        if order != list(range(len(c['sizes']))):
            return (f"_add_displayed_area_attributes reordered the caller's list of referenced images: positions "
                    f"{order} of the list that was passed (sizes {c['sizes']})")
        areas = [r * cc for r, cc in c['sizes']]
        want = areas.index(min(areas)) if c['tiled'] else 0
        if sel != want or corner != [c['sizes'][want][1], c['sizes'][want][0]]:
            return (f'displayed area {corner} of image #{sel}; expected the '
                    f"{'first smallest level' if c['tiled'] else 'first image'} #{want} of sizes {c['sizes']}")
        return None
    if k == 'pr_voi':
        want = _voi_expected(c)
        if isinstance(out, Err):
            return None if want in (None, 'refuse') else \
                f"VOI LUT transformations over disjoint frames {c['items']} of {c['images']} refused: {out.kind}"
        if want == 'refuse':
            return (f"VOI LUT transformations {c['items']} were accepted although they overlap / refer to an image "
                    f"outside the presentation state / lack references")
        if out[0] != out[1]:
            return f'the object holds the frame numbers {out[1]}, the transformations of the caller {out[0]}'
        if want is not None and out != want:
            return (f'after construction the VOI LUT transformations of the caller refer to frames {out[0]}, '
                    f'they were built for {want[0]}')
        return None
    if k == 'obj_copy':
        if isinstance(out, Err):
            return None if out.kind == 'not copyable' else f'valid object refused: {out.kind}'
        if out[1]:
            return 'the original was changed'
        if out[0] != (c['op'] == 'from_nocopy'):
            return 'conversion without copying must return the argument, every other operation a new object'
        return None
    if k == 'geom':
        if isinstance(out, Err):
            return None if _geom_reference(c) is None else \
                f"valid arguments refused ({out.kind}): direction {c.get('dir')} as {c.get('dform')}, spacing {c['spacing']}"
        if out[0]:
            return _GEOM_DETAIL.get('msg') or 'an argument of the caller was modified by the call'
        return None
    if k == 'geom_form':
        if out == 'ok':
            return None
        if isinstance(out, Err):
            # (the documented type of the vector arguments is Sequence[float]; ReferenceToPixelTransformer and
            #  ReferenceToImageTransformer refuse numpy arrays for them with a TypeError, the others accept them)
            if out.kind.startswith('baseline') or (c['mform'] in ('f8', 'f8_F', 'f8_view', 'f8_T') and
                                                   c['vform'] in ('list', 'tuple')):
                return f"{c['entry']}: valid arguments (matrices as {c['mform']}, vectors as {c['vform']}) refused: {out.kind}"
            return None
        return f'unexpected output {out!r}'
    if k == 'seg_plane':
        if isinstance(out, Err):
            return str(out)
        changed, vals = out
        if changed:
            return ('_get_segment_pixel_array wrote into the plane of the pixel array passed by the caller '
                    f"(dtype {c['in_dtype']}, {'stack of segments' if c['nd3'] else 'label map'}, "
                    f"{'FRACTIONAL' if c['frac'] else 'BINARY'}, max_fractional_value {c['mfv']}, layout {c.get('layout')})")
        from fractions import Fraction
        want = []
        for px in c['plane']:
            ch = px[c['seg'] - 1] if c['nd3'] else px[0]
            if c['fl']:
                want.append(round(Fraction(ch * c['mfv'], 4)))
            else:
                bit = ch if (c['nd3'] or c['described'] == [1]) else int(ch == c['seg'])
                want.append(bit * (c['mfv'] if c['frac'] else 1))
        if vals != want:
            return f'plane of segment {c["seg"]} is {vals[:8]}, expected {want[:8]}'
        return None
    return f'unknown kind {k}'


def nontrivial(c, out):
    k = c['kind']
    if k in ('guard', 'valid', 'uid_valid'):
        return bool(out) or len(c['s']) > 1
    if k in ('conv',) + CTOR_KINDS:
        return isinstance(out, dict) and out.get('ran', False)
    if k in ('lut', 'pyr_ids', 'pm_native', 'sop_init', 'seg_measures', 'pr_area', 'pr_voi', 'obj_copy', 'geom',
             'geom_form'):
        return not isinstance(out, Err)
    if k == 'seg_plane':
        return any(v for px in c['plane'] for v in px)
    return True


def shrink(c):
    if 's' in c and len(c['s']) > 0:
        for i in range(len(c['s'])):
            yield dict(c, s=c['s'][:i] + c['s'][i + 1:])
    if 'n' in c and int(c['n']) > 0:
        yield dict(c, n=str(int(c['n']) // 10))
        yield dict(c, n='0')
    if c.get('kind') == 'lut' and len(c['r']) > 1 and c.get('cls') != 'SegmentedPaletteColorLUT' and \
            c.get('via') != 'segments':
        for k in (len(c['r']) - 2, len(c['r']) // 2):
            if k >= 1:
                yield dict(c, **{x: c[x][:k] for x in ('r', 'g', 'b') if x in c})
    if c.get('kind') == 'lut' and c.get('layout', 'C') != 'C':
        yield dict(c, layout='C')
    if c.get('kind') == 'lut' and c.get('holder'):
        yield dict(c, holder=None)
    if c.get('kind') == 'pm_native':
        if len(c['vals']) > 1:
            yield dict(c, vals=c['vals'][:1])
        if c.get('layout', 'C') != 'C':
            yield dict(c, layout='C')
    if c.get('kind') == 'geom':
        if c.get('rot'):
            yield dict(c, rot=None)
        if c.get('sdiv', 4) != 4:
            yield dict(c, sdiv=4)
        for key in ('sform', 'pform'):
            if c.get(key) != 'list':
                yield dict(c, **{key: 'list'})
        if c.get('entry') != 'affine':
            yield dict(c, entry='affine')
        if c.get('center') is not None and c.get('pos') is None:
            yield dict(c, pos=c['center'], center=None)
    if c.get('kind') == 'ctor_num' and c.get('opt', {}).get('numform') != 'float':
        yield dict(c, opt=dict(c['opt'], numform='float'))
    if c.get('kind', '').startswith('ctor_') and c.get('opt'):
        for key in ('layout', 'series', 'uids'):
            if c['opt'].get(key) not in (None, 'C'):
                yield dict(c, opt={k2: v for k2, v in c['opt'].items() if k2 != key} | ({'layout': 'C'} if key == 'layout' else {}))


if __name__ == '__main__':
    sys.exit(common.main(sys.modules[__name__]))
