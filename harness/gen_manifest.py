"""Regenerates MANIFEST.json from the table below (run by hand after adding a check)."""
import json, os
V = os.path.dirname(os.path.dirname(os.path.abspath(__file__)))
props = [json.loads(l) for l in open(os.path.join(V, 'properties.jsonl'))]
# property -> (level text, level note, technique, design_ref)
CLAIMS = {}
for f in sorted(os.listdir(os.path.join(V, 'harness', 'claims'))):
    if f.endswith('.json'):
        CLAIMS[f[:-5]] = json.load(open(os.path.join(V, 'harness', 'claims', f)))
ADOPTED = set(open(os.path.join(V, 'harness', 'adopted.txt')).read().split())
checks, na = [], []
for p in props:
    pid = p['id']
    c = CLAIMS.get(pid)
    if c and pid in ADOPTED and os.path.exists(os.path.join(V, 'harness', pid.lower() + '.py')):
        checks.append({
            'property_id': pid,
            'quick_cmd': f'./check {pid} quick',
            'thorough_cmd': f'./check {pid} thorough',
            'evidence_file': f'/verif/evidence/{pid}.json',
            'replay_cmd_template': f'./check {pid} --replay {{path}}',
            'engine': 'coq+correspondence',
            'level_claimed': {'category': 'proof', 'text': c['text'], 'design_ref': c.get('design_ref', 'DESIGN.md §5-' + pid)},
            'level_note': c['note'],
            'technique': c['technique'],
        })
    else:
        na.append({'property_id': pid, 'reason': (c or {}).get('na_reason', 'check not built yet (work in progress): model, theorems and correspondence harness for this property are still to be written; see DESIGN.md §5-' + pid)})
m = {
    'version': 1,
    'setup_cmd': 'cd /verif && ./check --setup',
    'hooks': {
        'guard': 'HIGHDICOM_VERIF',
        'enable': 'no source hooks: the harness imports /repo/src read-only (PYTHONPATH=/repo/src) and, because src/highdicom/_modules.py is empty in this tree, installs a substitute IOD attribute table into sys.modules (harness/stub_modules.py) before using highdicom',
        'baseline_off_cmd': 'cd /repo && /venv/bin/python -m pytest -ra -q -p no:cacheprovider --timeout=900 --continue-on-collection-errors',
        'source_commits': [],
        'add_only': True,
    },
    'engines': [{'name': 'coq+correspondence', 'path': '/verif/coq', 'serves_properties': [c['property_id'] for c in checks],
                 'kind_free_text': 'Coq 8.16.1 development (hand-written Gallina models + theorems, full .vo build, Print Assumptions parsed on every run) tied to /repo/src by a correspondence run: model evaluated by vm_compute inside coqc on generated cases.v, implementation imported from /repo/src, outputs compared inside Coq; independent property oracle on the implementation for counterexample search'}],
    'checks': checks,
    'not_applicable': na,
    'notes': 'See DESIGN.md. KNOWN_FINDINGS.json lists fixed and open findings. ./check all quick runs every claimed check.',
}
json.dump(m, open(os.path.join(V, 'MANIFEST.json'), 'w'), indent=1)
print(len(checks), 'checks,', len(na), 'not claimed')
