"""C19 - parametric maps and secondary captures store the given pixels.

Implementation driven (real code from $VERIF_REPO/src through the stub table):
  hd.pm.ParametricMap(...)            constructor checks, pixel data attribute, frame order,
                                      per-frame plane position / DimensionIndexValues / RWVM placement
  hd.pm.RealWorldValueMapping(...)    constructor checks
  hd.imread(bytes, lazy or eager)     get_stored_frame(s), get_frame(s) with
                                      apply_real_world_transform, pixel_array, get_volume
  hd.sc.SCImage(...)                  validation table, encoding; pydicom decode after save_as
Model: coq/theories/C19_Model.v; theorems: C19_Props.v.
Pixel elements travel as words (bit pattern as unsigned integer), so floats are compared bit-exactly
(NaN payloads, signalling NaNs, +-inf, -0.0, subnormals, random bit patterns).
"""
import io
import os
import sys
from fractions import Fraction as F

sys.path.insert(0, os.path.dirname(os.path.abspath(__file__)))
import common
from common import Err, catch, zlit, qlit, zl

PROPERTY = 'C19'
PROPS_FILE = 'C19_Props.v'
COQ_IMPORTS = ['C19_Model']
TOL = None
ORACLE_PREMISES = [
    'pydicom file writer/reader keep the bytes of PixelData / FloatPixelData / DoubleFloatPixelData '
    '(only an even-length pad byte may be appended)',
    'pydicom native decoder = little-endian words / LSB-first bit unpacking (modelled, cross-checked every run)',
    'RLE Lossless and JPEG-LS (pyjpegls) codecs: decode (encode frame) = frame (exercised, not proved)',
    'numpy float64 arithmetic slope*x+intercept is exact on the dyadic slopes/intercepts drawn (compared exactly)',
]
MODELLED = ('pm/sop.py ParametricMap.__init__ argument checks, _get_pixel_data_type_and_attr, frame loop '
            '(plane i, mapping j) -> i*M+j, native _encode_frame, per-frame plane position / '
            'DimensionIndexValues (np.unique rank) / RWVM placement; pm/content.py RealWorldValueMapping '
            'checks; image.py _standardize_frame_index, native get_raw_frame slicing, get_stored_frame(s), '
            'get_frame(s) real-world branch of _CombinedPixelTransform, pixels.apply_lut, '
            '_select_real_world_value_map; get_stored_frames (incl. None = all frames, empty request); '
            '_CombinedPixelTransform.__init__ resolution of apply_real_world_transform / '
            'apply_modality_transform / apply_voi_transform (None/True/False) on a parametric map, identity '
            'rescale and LINEAR window branches of __call__ (pixels.apply_voi_window); pm/content.py '
            'RealWorldValueMapping.apply; Image.get_volume of single-channel maps (slice order, unique '
            'positions) and its sub-range arguments (_standardize_slice_indices, '
            '_standardize_row_column_indices, as_indices, crop, multi-channel refusal); sc/sop.py SCImage validation + frame.encode_frame checks, '
            'native and bit-packed encoding; the _pixel_array cache of one image object across a sequence of '
            'accesses (pixel_array, get_stored_frame(s), get_frame(s): cache-aware frame lookup, model `session`)')
STRATA = ['pm_store', 'pm_refuse', 'pm_read', 'pm_read_rw', 'pm_read_flags', 'pm_float_read', 'pm_volume',
          'pm_volume_sub',
          'rwvm_ctor', 'rwvm_apply', 'sc', 'sc_refuse', 'pm_session']
NOT_EXECUTED = ['JPEG 2000 (no openjpeg codec installed): only the size/bit-depth refusals are run',
                'JPEG baseline (lossy) secondary captures: only acceptance/refusal, not pixel equality',
                'workers: ParametricMap / SCImage constructors of this tree have no workers parameter '
                '(cases run in a fork pool of worker processes)',
                'TILED_FULL slide sources with implicit plane positions (positions computed by the library)',
                'palette_color_lut_transformation argument of ParametricMap; TotalPixelMatrix* attributes of '
                'slide maps with explicit positions; get_volume slice/row/column sub-ranges and irregular spacing; '
                'window width 1 (division by zero in apply_voi_window) and SIGMOID / LINEAR_EXACT windows']
RULE = ('every array input in several memory layouts (C, Fortran, transposed views, strided, negative strides, '
        'read-only, big-endian 2-byte integers); every read accessor on a fresh object and after other '
        'accessors (pixel_array cache), eager and lazy; pm_store: arrays 2-D/3-D/4-D of uint8/uint16/float32/float64 words (floats: random bit patterns + '
        'NaN payloads, +-inf, -0.0, max, subnormal), sizes with every residue mod 2 incl. odd byte counts, '
        'sources series / multi-frame (a parametric map) / slide, explicit plane positions with duplicates and '
        'permutations, native + RLE + JPEG-LS; pm_refuse: every constructor guard violated once; '
        'pm_read(_rw): eager and lazy imread, single/batch/all/pixel_array, numbers and indices incl. invalid '
        'ones, linear (int/float range) and LUT mappings shared / per channel, selectors by index (negative, '
        'out of range) and label, values outside the mapped range, empty requests; pm_read_flags: all 27 '
        'combinations of the three tri-state transform flags every run + random ones biased to consistent flags, '
        'dyadic window centre/width; rwvm_apply: RealWorldValueMapping.apply on signed/unsigned integer arrays of '
        'any shape incl. empty, values at and beyond the mapped range, float arrays for LUTs; pm_volume: shuffled '
        'regularly spaced planes, with/without real-world values, duplicate positions; pm_volume_sub: slice / row / '
        'column start / end boundary-biased (None, 0, +-1, +-n, +-(n+1), +-(n+2)) in both numbering conventions, '
        'valid windows in positive / negative / None spelling, up to 5 shuffled planes, multi-channel maps; sc: bool/uint8/uint16/12-bit mono and '
        'RGB/YBR_FULL x transfer syntax; sc_refuse: product of dtype x bits x shape x PI x syntax. '
        'pm_session: maps of 1..18 frames opened eagerly / lazily / in memory (Image.from_dataset with and without '
        'copy), 2..7 accesses on the SAME object with every result observed (pixel_array, get_stored_frame(s), '
        'get_frame(s) with flags), request lists of every shape (ascending / descending runs, permuted runs, '
        'permuted runs starting at the minimum and ending at the maximum, rotations, adjacent swaps, repetitions, '
        'gaps, interleavings, reversed, single, with an invalid number, empty) before and after the whole array '
        'was decoded; every shape x every way of opening warm every run; request shapes also feed pm_read(_rw/_flags); '
        'non-trivial = more than one distinct word (or a refusal); distinct by case hash')
EXHAUSTIVE = {'quick': False, 'thorough': False}

TS = {'Implicit': '1.2.840.10008.1.2', 'Explicit': '1.2.840.10008.1.2.1', 'RLE': '1.2.840.10008.1.2.5',
      'JLS': '1.2.840.10008.1.2.4.80', 'JLSNear': '1.2.840.10008.1.2.4.81',
      'JPEGBase': '1.2.840.10008.1.2.4.50', 'J2K': '1.2.840.10008.1.2.4.91',
      'J2KLossless': '1.2.840.10008.1.2.4.90', 'BigEndian': '1.2.840.10008.1.2.2',
      'Deflated': '1.2.840.10008.1.2.1.99'}
NP = {'bool': 'bool', 'uint8': 'uint8', 'uint16': 'uint16', 'uint32': 'uint32', 'uint64': 'uint64',
      'int8': 'int8', 'int16': 'int16', 'int32': 'int32', 'int64': 'int64',
      'float16': 'float16', 'float32': 'float32', 'float64': 'float64', 'complex64': 'complex64'}
COQ_DT = {'bool': 'DBool', 'uint8': 'DU8', 'uint16': 'DU16', 'uint32': 'DU32', 'uint64': 'DU64',
          'int8': 'DI8', 'int16': 'DI16', 'int32': 'DI32', 'int64': 'DI64',
          'float16': 'DF16', 'float32': 'DF32', 'float64': 'DF64', 'complex64': 'DC64'}
WIDTH = {'bool': 1, 'uint8': 1, 'uint16': 2, 'uint32': 4, 'uint64': 8, 'int8': 1, 'int16': 2, 'int32': 4,
         'int64': 8, 'float16': 2, 'float32': 4, 'float64': 8, 'complex64': 8}
PI = {'MONOCHROME1': 'Mono1', 'MONOCHROME2': 'Mono2', 'RGB': 'RGB', 'YBR_FULL': 'YbrFull',
      'YBR_FULL_422': 'YbrFull422', 'YBR_ICT': 'YbrIct', 'YBR_RCT': 'YbrRct', 'PALETTE COLOR': 'Palette',
      'BOGUS': 'PInvalid'}
F32_SPECIAL = [0x7fc00000, 0x7fc00001, 0x7f800001, 0xffc12345, 0x7f800000, 0xff800000, 0x80000000, 0,
               0x7f7fffff, 0xff7fffff, 0x00800000, 0x00000001, 0x807fffff, 0x3fc00000, 0xc0100000]
F64_SPECIAL = [0x7ff8000000000000, 0x7ff8000000000001, 0x7ff0000000000001, 0xfff8123456789abc,
               0x7ff0000000000000, 0xfff0000000000000, 0x8000000000000000, 0, 0x7fefffffffffffff,
               0xffefffffffffffff, 0x0010000000000000, 0x0000000000000001, 0x800fffffffffffff,
               0x3ff8000000000000, 0xc002000000000000]


# --------------------------------------------------------------------------
# generators
# --------------------------------------------------------------------------
def _shape_size(shape):
    n = 1
    for s in shape:
        n *= s
    return n


def _nest(flat, shape):
    if len(shape) == 1:
        return list(flat[:shape[0]])
    step = _shape_size(shape[1:])
    return [_nest(flat[i * step:(i + 1) * step], shape[1:]) for i in range(shape[0])]


def _flatten(a):
    if a and isinstance(a[0], list):
        return [x for sub in a for x in _flatten(sub)]
    return list(a)


def _words(rng, dtype, n, smooth=False, hi=None):
    if dtype == 'bool':
        return [rng.randint(0, 1) for _ in range(n)]
    if dtype == 'float32':
        return [rng.choice(F32_SPECIAL) if rng.random() < 0.4 else rng.getrandbits(32) for _ in range(n)]
    if dtype == 'float64':
        return [rng.choice(F64_SPECIAL) if rng.random() < 0.4 else rng.getrandbits(64) for _ in range(n)]
    top = (1 << (8 * WIDTH[dtype])) - 1 if hi is None else hi
    if smooth:   # compressible data (pyjpegls needs the output to fit the raw size)
        base = rng.randint(0, top)
        return [min(top, max(0, base + (k % 7) + rng.randint(-2, 2))) for k in range(n)]
    mode = rng.random()
    if mode < 0.1:
        return [rng.choice([0, top]) for _ in range(n)]
    if mode < 0.2:
        return [top - (k % (top + 1)) for k in range(n)]
    return [rng.choice([0, 1, top, top - 1, 255, 256, 128]) & top if rng.random() < 0.2
            else rng.randint(0, top) for _ in range(n)]


def _lin(rng, label, float_range, lo, hi):
    slope = F(rng.choice([1, 2, 3, -1, -5, 1, 7]), rng.choice([1, 1, 2, 4, 8]))
    icpt = F(rng.randint(-40, 40), rng.choice([1, 2, 4]))
    return {'type': 'lin', 'label': label, 'slope': str(slope), 'intercept': str(icpt),
            'first': lo, 'last': hi, 'float_range': bool(float_range)}


def _lut(rng, label, first, n):
    return {'type': 'lut', 'label': label, 'first': first,
            'lut': [str(F(rng.randint(-64, 64), rng.choice([1, 2, 4, 8]))) for _ in range(n)]}


def _positions(rng, n, mode):
    """plane positions in units of 1/8 mm"""
    x, y = rng.randint(-80, 80), rng.randint(-80, 80)
    if mode == 'regular':
        z0, dz = rng.randint(-40, 40), rng.choice([8, 20, 4, -20])
        return [[x, y, z0 + i * dz] for i in range(n)]
    if mode == 'perm':
        zs = rng.sample(range(-60, 60), n)
        return [[x, y, z] for z in zs]
    if mode == 'xy':     # order decided by the first coordinates (lexicographic rows)
        return [[rng.choice([-8, 0, 8]), rng.choice([-8, 0, 8]), rng.choice([-8, 0, 8])] for _ in range(n)]
    ps = [[x, y, z] for z in rng.sample(range(-60, 60), n)]
    if n > 1:             # duplicates
        ps[rng.randrange(n)] = list(ps[rng.randrange(n)])
    return ps


def _pm_case(rng, tier, dtype=None, ts=None, ndim=None, M=None, src_type=None, small=True):
    dtype = dtype or rng.choice(['uint8', 'uint16', 'float32', 'float64'])
    if ts is None:
        ts = rng.choice(['Implicit', 'Explicit'] + (['RLE', 'JLS'] if dtype in ('uint8', 'uint16') else []))
    ndim = ndim or rng.choice([2, 3, 3, 4, 4])
    big = ts == 'JLS'
    if big:
        R, C = rng.randint(10, 12), rng.randint(10, 12)
    else:
        R, C = rng.choice([1, 2, 3, 4, 5]), rng.choice([1, 2, 3, 4, 5])
    N = 1 if ndim == 2 else rng.choice([1, 2, 3] if not big else [1, 2])
    if ndim == 4:
        M = M if M is not None else rng.choice([1, 2, 3] if not big else [1, 2])
    else:
        M = 1
    shape = {2: [R, C], 3: [N, R, C], 4: [N, R, C, M]}[ndim]
    words = _words(rng, dtype, _shape_size(shape), smooth=big)
    src_type = src_type or rng.choice(['series', 'series', 'series', 'multiframe', 'multiframe_file', 'slide'])
    pmode = rng.choice(['regular', 'perm', 'dup', 'xy'])
    if src_type == 'slide' and ndim == 2:
        src_type = 'series'
    if src_type == 'slide':
        # tiled slide image as multi-frame source: one plane per tile, positions come from the source
        gr, gc = rng.choice([(1, 2), (2, 1), (2, 2), (1, 3)] if not big else [(1, 2), (2, 1)])
        N = gr * gc
        shape = {3: [N, R, C], 4: [N, R, C, M]}[ndim]
        words = _words(rng, dtype, _shape_size(shape), smooth=big)
        src = {'type': 'slide', 'n': 1, 'pos': None, 'grid': [gr, gc],
               'origin8': [rng.randint(-80, 80), rng.randint(-80, 80)]}
        pp = None
        if rng.random() < 0.5:
            # explicit slide positions [col, row, x8, y8, z8]; any number of planes
            N = rng.choice([1, 2, 3] if not big else [1, 2])
            shape = {3: [N, R, C], 4: [N, R, C, M]}[ndim]
            words = _words(rng, dtype, _shape_size(shape), smooth=big)
            pp = [[1 + rng.randint(0, 3) * C, 1 + rng.randint(0, 3) * R, rng.randint(-40, 40),
                   rng.randint(-40, 40), rng.choice([0, 0, 8])] for _ in range(N)]
    else:
        src = {'type': src_type, 'n': 1 if src_type.startswith('multiframe') else N,
               'pos': _positions(rng, N, 'regular' if src_type.startswith('multiframe') else pmode)}
        pp = _positions(rng, N, pmode) if rng.random() < 0.35 else None
        if pp is not None and src_type == 'series' and rng.random() < 0.4:
            # explicit positions: the number of planes need not match the number of source images
            k = rng.choice([1, 2, 3, 4])
            src = {'type': 'series', 'n': k, 'pos': _positions(rng, k, 'perm')}
            if k < N and rng.random() < 0.5:
                pp[:k] = [list(p) for p in src['pos']]     # leading planes sit on the source planes
    isint = dtype in ('uint8', 'uint16')
    top = (1 << (8 * WIDTH[dtype])) - 1

    def chan_maps(j):
        out = []
        for t in range(rng.choice([1, 1, 2])):
            label = f'c{j}m{t}'
            if isint and rng.random() < 0.35:
                out.append(_lut(rng, label, 0, top + 1) if dtype == 'uint8' and rng.random() < 0.3
                           else _lin(rng, label, False, 0, top))
            elif isint:
                out.append(_lin(rng, label, rng.random() < 0.3, 0, top))
            else:
                out.append(_lin(rng, label, True, -(2 ** 100), 2 ** 100))
        return out
    if ndim == 4:
        maps = {'shape': 'nested', 'items': [chan_maps(j) for j in range(M)]}
    else:
        maps = {'shape': 'flat', 'items': chan_maps(0)}
    return {'kind': 'pm_store', 'dtype': dtype, 'shape': shape, 'arr': _nest(words, shape), 'ts': ts,
            'ww': rng.choice([1.0, 2.0, 256.0, 0.5]), 'src': src, 'pp': pp, 'maps': maps, 'bad': None,
            'layout': rng.choice(['C', 'C', 'F', 'T', 'Tlast', 'strided', 'neg', 'readonly', 'byteswap'])}


def _pm_refuse_case(rng, tier, bad):
    c = _pm_case(rng, tier, dtype=rng.choice(['uint8', 'uint16', 'float32']), ts='Explicit',
                 src_type='series')
    c['kind'] = 'pm_refuse'
    c['bad'] = bad
    shape = c['shape']
    if bad == 'no_src':
        c['src'] = {'type': 'series', 'n': 0, 'pos': []}
    elif bad == 'mixed_series':
        c = _pm_case(rng, tier, dtype='uint8', ts='Explicit', ndim=3, src_type='series')
        c.update(kind='pm_refuse', bad=bad)
        c['src']['type'] = 'series_mixed'
    elif bad == 'two_multiframe':
        c = _pm_case(rng, tier, dtype='uint8', ts='Explicit', ndim=3,
                     src_type=rng.choice(['multiframe', 'multiframe_file']))
        c.update(kind='pm_refuse', bad=bad)
        c['src']['n'] = 2
    elif bad == 'ts_float':
        c['dtype'] = rng.choice(['float32', 'float64'])
        c['arr'] = _nest(_words(rng, c['dtype'], _shape_size(shape)), shape)
        c['ts'] = rng.choice(['RLE', 'JLS', 'J2KLossless'])
    elif bad == 'ts_unsupported':
        c['ts'] = rng.choice(['JPEGBase', 'BigEndian', 'Deflated', 'JLSNear', 'J2K'])
    elif bad == 'ww':
        c['ww'] = rng.choice([0.0, -1.0, -0.5])
    elif bad in ('ndim1', 'ndim5'):
        shape = [4] if bad == 'ndim1' else [1, 2, 2, 1, 1]
        c['shape'] = shape
        c['arr'] = _nest(_words(rng, c['dtype'], _shape_size(shape)), shape)
        c['src']['n'] = 1
        c['src']['pos'] = c['src']['pos'][:1] or [[0, 0, 0]]
        c['pp'] = None
    elif bad == 'flat_empty':
        c = _pm_case(rng, tier, dtype='uint8', ts='Explicit', ndim=rng.choice([2, 3]), src_type='series')
        c.update(kind='pm_refuse', bad=bad)
        c['maps'] = {'shape': 'flat', 'items': []}
    elif bad == 'nested_for_3d':
        c = _pm_case(rng, tier, dtype='uint16', ts='Explicit', ndim=rng.choice([2, 3]), src_type='series')
        c.update(kind='pm_refuse', bad=bad)
        c['maps'] = {'shape': 'nested', 'items': [c['maps']['items']]}
    elif bad in ('flat_for_4d', 'nested_empty', 'nested_inner_empty', 'M_mismatch'):
        c = _pm_case(rng, tier, dtype='uint8', ts='Explicit', ndim=4, src_type='series')
        c.update(kind='pm_refuse', bad=bad)
        items = c['maps']['items']
        if bad == 'flat_for_4d':
            c['maps'] = {'shape': 'flat', 'items': items[0] if rng.random() < 0.8 else []}
        elif bad == 'nested_empty':
            c['maps'] = {'shape': 'nested', 'items': []}
        elif bad == 'nested_inner_empty':
            c['maps'] = {'shape': 'nested', 'items': [[]] + items[1:]}
        else:
            c['maps'] = {'shape': 'nested',
                         'items': items + [items[0]] if rng.random() < 0.5 or len(items) == 1 else items[:-1]}
    elif bad == 'planes_mismatch':
        c = _pm_case(rng, tier, dtype='uint8', ts='Explicit', ndim=rng.choice([2, 3, 4]),
                     src_type=rng.choice(['series', 'multiframe', 'multiframe_file']))
        c.update(kind='pm_refuse', bad=bad, pp=None)
        n = 1 if len(c['shape']) == 2 else c['shape'][0]      # number of planes (the source count may differ from it)
        k = n + 1 if rng.random() < 0.5 or n == 1 else n - 1
        c['src']['pos'] = _positions(rng, k, 'regular')
        if c['src']['type'] == 'series':
            c['src']['n'] = k
    elif bad == 'pp_mismatch':
        n = 1 if len(c['shape']) == 2 else c['shape'][0]      # number of planes
        c['pp'] = _positions(rng, n + rng.choice([1, 2]) if n == 1 or rng.random() < 0.5 else n - 1, 'perm')
    elif bad == 'dtype':
        c['dtype'] = rng.choice(['int8', 'int16', 'int32', 'int64', 'uint32', 'uint64', 'float16', 'bool',
                                 'complex64'])
        c['arr'] = _nest([rng.randint(0, 1) for _ in range(_shape_size(shape))], shape)
        c['ts'] = rng.choice(['Explicit', 'Implicit', 'RLE'])
    elif bad == 'j2k_small':
        c = _pm_case(rng, tier, dtype=rng.choice(['uint8', 'uint16']), ts='J2KLossless', src_type='series')
        c.update(kind='pm_refuse', bad=bad)
    else:
        raise ValueError(bad)
    return c


PM_BAD = ['no_src', 'mixed_series', 'two_multiframe', 'ts_float', 'ts_unsupported', 'ww', 'ndim1', 'ndim5',
          'flat_empty', 'nested_for_3d', 'flat_for_4d', 'nested_empty', 'nested_inner_empty', 'M_mismatch',
          'planes_mismatch', 'pp_mismatch', 'dtype', 'j2k_small']


HISTORY_OPS = ['pixel_array', 'stored_frame', 'stored_frame_last_idx', 'stored_frames', 'stored_frames_idx',
               'get_frame', 'get_frame_rw', 'get_frames', 'get_frames_rw', 'bad_number']


def _history(rng):
    """accessors called on the same image object before the observed call"""
    r = rng.random()
    if r < 0.3:
        return []
    if r < 0.55:
        return ['pixel_array'] + rng.sample(HISTORY_OPS, rng.randint(0, 2))
    return rng.sample(HISTORY_OPS, rng.randint(1, 3))


def _frame_requests(rng, nf):
    api = rng.choice(['single', 'batch', 'all', 'pixel_array'])
    as_index = rng.random() < 0.4
    if api in ('all', 'pixel_array'):
        return api, as_index, None
    lo = 0 if as_index else 1
    fs = [rng.randint(lo, lo + nf - 1) for _ in range(rng.randint(1, 3))]
    if rng.random() < 0.25:
        fs[rng.randrange(len(fs))] = rng.choice([lo - 1, lo + nf, -1, lo + nf + 3])
    if rng.random() < 0.3:
        fs = [lo, lo + nf - 1]
    if rng.random() < 0.3:
        fs = _request(rng, nf, lo)
    return api, as_index, fs


REQ_SHAPES = ['run_asc', 'run_desc', 'perm_run', 'perm_minmax', 'rot', 'swap', 'dup', 'gap', 'interleave',
              'random', 'single', 'all_rev', 'invalid']


def _request(rng, nf, lo, shape=None):
    """a list of frame numbers (lo = 1) / indices (lo = 0) of a given shape; the order is the point"""
    shape = shape or rng.choice(REQ_SHAPES)
    a = rng.randint(0, max(0, nf - 2))
    b = rng.randint(min(nf - 1, a + 1), nf - 1)
    if rng.random() < 0.4:
        a, b = 0, nf - 1
    run = list(range(a, b + 1))
    idx = list(run)
    if shape == 'run_desc':
        idx = run[::-1]
    elif shape == 'perm_run':
        rng.shuffle(idx)
    elif shape == 'perm_minmax':      # first = minimum, last = maximum, anything but ascending between
        mid = run[1:-1]
        for _ in range(8):
            rng.shuffle(mid)
            if mid != sorted(mid):
                break
        idx = run[:1] + mid + (run[-1:] if len(run) > 1 else [])
    elif shape == 'rot':
        r = rng.randrange(len(run))
        idx = run[r:] + run[:r]
    elif shape == 'swap':
        if len(idx) >= 2:
            i = rng.randrange(len(idx) - 1) if len(idx) < 4 or rng.random() < 0.3 else rng.randint(1, len(idx) - 3)
            idx[i], idx[i + 1] = idx[i + 1], idx[i]
    elif shape == 'dup':
        idx.insert(rng.randint(0, len(idx)), rng.choice(run))
        if rng.random() < 0.3:
            idx = idx[:1] * 2 + idx[1:]
    elif shape == 'gap':
        idx = list(range(a, nf, 2))
        if rng.random() < 0.4:
            idx = idx[::-1]
    elif shape == 'interleave':
        idx = run[::2] + run[1::2]
        if rng.random() < 0.5 and len(run) > 2:      # keep minimum first and maximum last
            idx = run[:1] + run[2:-1:2] + run[1:-1:2] + run[-1:]
    elif shape == 'random':
        idx = [rng.randrange(nf) for _ in range(rng.randint(1, nf + 1))]
    elif shape == 'single':
        idx = [rng.randrange(nf)]
    elif shape == 'all_rev':
        idx = list(range(nf))[::-1]
    elif shape == 'invalid':
        rng.shuffle(idx)
        idx.insert(rng.randint(0, len(idx)), rng.choice([-1, nf, nf + 2, -nf - 1]) )
    return [lo + i for i in idx]


SESSION_FLAGS = [[True, None, False], [None, None, False], [False, None, False], [False, False, False],
                 [False, None, None], [False, True, True], [None, None, None], [True, True, None]]
OPEN_MODES = ['eager', 'lazy', 'mem', 'mem_nocopy']


def _session_op(rng, nf, what=None, shape=None):
    what = what or rng.choice(['pixel_array', 'stored_frame', 'stored_frames', 'stored_frames', 'stored_frames',
                               'frame', 'frames', 'frames'])
    ai = rng.random() < 0.4
    lo = 0 if ai else 1
    if what == 'pixel_array':
        return {'op': what}
    if what in ('stored_frame', 'frame'):
        f = rng.randint(lo, lo + nf - 1) if rng.random() < 0.85 else rng.choice([lo - 1, lo + nf, -1])
        o = {'op': what, 'ai': ai, 'f': f}
    else:
        r = rng.random()
        fs = None if r < 0.12 and shape is None else [] if r < 0.17 and shape is None else _request(rng, nf, lo, shape)
        o = {'op': what, 'ai': ai, 'frames': fs}
    if what in ('frame', 'frames'):
        o['flags'] = list(rng.choice(SESSION_FLAGS[:6] if rng.random() < 0.9 else SESSION_FLAGS))
    return o


def _session_case(rng, tier, shape=None, mode=None, warm=None, min_frames=1):
    """one image object, several accesses in a row, every result observed"""
    c = _read_case(rng, tier, True)
    while c['ts'] == 'JLS':
        c = _read_case(rng, tier, True)
    sh = c['shape']
    N = rng.choice([1, 2, 2, 3, 4, 4, 5, 6])
    M = sh[3] if len(sh) == 4 else 1
    while N * M < min_frames:
        N += 1
    if len(sh) == 2:
        sh = [N] + sh
        c['maps'] = {'shape': 'flat', 'items': c['maps']['items']}
    sh = [N] + sh[1:]
    hi = max(_flatten(c['arr']))
    c['shape'] = sh
    c['arr'] = _nest(_words(rng, c['dtype'], _shape_size(sh), hi=max(hi, 1)), sh)
    c['src'] = {'type': 'series', 'n': N, 'pos': _positions(rng, N, rng.choice(['regular', 'perm']))}
    c['pp'] = None
    for key in ('api', 'as_index', 'frames', 'history', 'lazy'):
        c.pop(key, None)
    nf = N * M
    c['kind'] = 'pm_session'
    c['open'] = mode or rng.choice(OPEN_MODES)
    c['ww'] = rng.choice([2.0, 3.0, 5.0, 1.5, 0.5, 17.0, 9.0])
    c['wc'] = rng.choice([1.0, 0.5, 8.0, 20.25, 3.0])
    warm = rng.random() < 0.7 if warm is None else warm
    ops = [_session_op(rng, nf) for _ in range(rng.randint(0, 2))]
    if warm:
        ops.append({'op': 'pixel_array'})
    if shape is not None:
        # the same request through every batch accessor (and the single-frame ones for its first number)
        o = _session_op(rng, nf, 'stored_frames', shape)
        ops.append(o)
        ops.append(dict(_session_op(rng, nf, 'frames'), ai=o['ai'], frames=list(o['frames'])))
        ops.append({'op': 'stored_frame', 'ai': o['ai'], 'f': o['frames'][len(o['frames']) // 2]})
    ops += [_session_op(rng, nf) for _ in range(rng.randint(1, 3))]
    c['ops'] = ops
    return c


def _read_case(rng, tier, rw):
    dtype = rng.choice(['uint8', 'uint16'])
    ts = rng.choice(['Implicit', 'Explicit', 'Explicit', 'RLE'] + ([] if rw else ['JLS']))
    c = _pm_case(rng, tier, dtype=dtype, ts=ts, src_type='series')
    c['kind'] = 'pm_read_rw' if rw else 'pm_read'
    c['lazy'] = rng.random() < 0.5
    shape = c['shape']
    N, M = (1, 1) if len(shape) == 2 else (shape[0], 1) if len(shape) == 3 else (shape[0], shape[3])
    nf = N * M
    api, as_index, fs = _frame_requests(rng, nf)
    if rw:
        if api in ('all', 'pixel_array'):
            api = 'all'
        # small data range so that LUTs stay short and range violations are frequent
        hi = rng.choice([15, 31, 40])
        words = _words(rng, dtype, _shape_size(shape), hi=hi)
        c['arr'] = _nest(words, shape)
        nmaps = rng.choice([1, 2])

        def one(j, t):
            label = f'c{j}m{t}'
            lo = rng.choice([0, 0, 1, 3])
            up = rng.choice([hi, hi, hi - 2, hi + 5])
            if rng.random() < 0.06:
                up = lo          # one-entry LUT / single mapped value
            if rng.random() < 0.45:
                return _lut(rng, label, lo, up - lo + 1)
            fr = rng.random() < 0.4
            return _lin(rng, label, fr, lo, up)
        nch = M if len(shape) == 4 else 1
        items = [[one(j, t) for t in range(rng.choice([nmaps, nmaps, 1, 2]))] for j in range(nch)]
        if rng.random() < 0.1:      # identity mapping: slope 1 / intercept 0 is skipped, range still checked
            items[0][0] = {'type': 'lin', 'label': 'c0m0', 'slope': '1', 'intercept': '0',
                           'first': rng.choice([0, 2]), 'last': hi, 'float_range': rng.random() < 0.5}
        c['maps'] = {'shape': 'nested', 'items': items} if len(shape) == 4 else {'shape': 'flat', 'items': items[0]}
        c['sel'] = rng.choice([0, 0, 0, 1, -1, -2, nmaps, f'c{rng.randrange(nch)}m{rng.randrange(nmaps)}',
                               'nope'])
    if not rw and api == 'batch' and rng.random() < 0.1:
        fs = []          # nothing requested
    c.update(api=api, as_index=as_index, frames=fs)
    c['history'] = _history(rng)
    return c


TRI = [None, True, False]


def _flags_case(rng, tier, flags=None):
    """get_frame(s) with the three tri-state transform flags (real world / modality / VOI)"""
    c = _read_case(rng, tier, True)
    while c['api'] == 'pixel_array':
        c = _read_case(rng, tier, True)
    c['kind'] = 'pm_read_flags'
    if flags is None:
        flags = [rng.choice(TRI), rng.choice(TRI), rng.choice(TRI)]
        while _flags_expect(*flags) == 'error' and rng.random() < 0.75:      # mostly consistent flags
            flags = [rng.choice(TRI), rng.choice(TRI), rng.choice(TRI)]
    c['flags'] = list(flags)
    # LINEAR window with 1/(width-1) and width/2 dyadic (exact in float64); width 1 divides by zero
    c['ww'] = rng.choice([2.0, 3.0, 5.0, 1.5, 0.5, 17.0, 9.0])
    c['wc'] = rng.choice([1.0, 0.5, 8.0, 20.25, 3.0])
    if c['api'] == 'batch' and rng.random() < 0.12:
        c['frames'] = []
    return c


APPLY_DT = ['uint8', 'uint16', 'int8', 'int16', 'int32', 'int64']


def _apply_case(rng):
    """RealWorldValueMapping.apply(array) called directly"""
    dt = rng.choice(APPLY_DT)
    signed = dt.startswith('int')
    lo = rng.choice([0, 0, 1, 3, -4] if signed else [0, 0, 1, 3])
    n = rng.choice([1, 2, 5, 12, 12])
    if rng.random() < 0.5:
        m = _lut(rng, 'l', lo, n)
    else:
        m = _lin(rng, 'l', rng.random() < 0.4, lo, lo + n - 1)
    shape = rng.choice([[0], [1], [3], [2, 3], [4, 1], [2, 0], [2, 2, 2], [5], [3, 2], [1, 1], [7], [2, 3]])
    vals = [rng.randint(lo, lo + n - 1) for _ in range(_shape_size(shape))]
    if vals and rng.random() < 0.25:
        vals[rng.randrange(len(vals))] = rng.choice([lo - 1, lo + n, lo + n + 7] + ([-9] if signed else []))
    vals = [v if signed else max(0, v) for v in vals]
    c = {'kind': 'rwvm_apply', 'dtype': dt, 'shape': shape, 'vals': vals, 'map': m}
    if m['type'] == 'lut' and rng.random() < 0.15:
        c['dtype'] = rng.choice(['float32', 'float64'])      # a LUT needs integers
    return c


def _float_read_case(rng, tier):
    c = _pm_case(rng, tier, dtype=rng.choice(['float32', 'float64']), src_type='series')
    c['kind'] = 'pm_float_read'
    c['lazy'] = rng.random() < 0.5
    c['api'] = rng.choice(['single', 'batch', 'all', 'get_frame'])
    return c


def _volume_case(rng, tier):
    c = _pm_case(rng, tier, dtype=rng.choice(['uint8', 'uint16']), ndim=rng.choice([3, 4]), M=1,
                 ts=rng.choice(['Explicit', 'Implicit', 'RLE']), src_type='series')
    c['kind'] = 'pm_volume'
    n = c['shape'][0]
    x, y, z0 = rng.randint(-80, 80), rng.randint(-80, 80), rng.randint(-40, 40)
    dz = rng.choice([20, -20])
    order = list(range(n))
    if rng.random() < 0.5:
        rng.shuffle(order)
    c['src']['pos'] = [[x, y, z0 + k * dz] for k in order]
    c['src']['n'] = n
    c['pp'] = None
    c['lazy'] = rng.random() < 0.5
    c['rw'] = rng.random() < 0.3
    c['dz8'] = abs(dz)
    c['history'] = _history(rng) if rng.random() < 0.6 else []
    if n > 1 and rng.random() < 0.15:
        # two planes at the same position: frames are not identified by their positions
        a, b = rng.sample(range(n), 2)
        c['src']['pos'][a] = list(c['src']['pos'][b])
        c['dup'] = True
    if c['rw']:
        top = (1 << (8 * WIDTH[c['dtype']])) - 1
        m = _lin(rng, 'c0m0', False, 0, top)
        c['maps'] = {'shape': 'nested', 'items': [[m]]} if len(c['shape']) == 4 else {'shape': 'flat', 'items': [m]}
    return c


def _axis_args(rng, n, valid):
    """(start, end, as_indices-independent raw values) for one axis of n positions: boundary-biased"""
    if valid:
        a = rng.randint(0, n - 1)
        b = rng.randint(a + 1, n)
        return a, b          # python indices; converted by the caller
    pool = [None, None, 0, 1, -1, n, n + 1, n + 2, -n, -n - 1, -n - 2, n - 1, 2, -2]
    return rng.choice(pool), rng.choice(pool)


def _conv(rng, v, n, ai, is_end):
    """python index v (0 <= v <= n) written as an argument in the convention chosen"""
    if rng.random() < 0.25 and ((v == 0 and not is_end) or (v == n and is_end)):
        return None
    if rng.random() < 0.3 and v - n < 0:
        return v - n                       # negative form (same in both conventions)
    return v if ai else v + 1


def _volume_sub_case(rng, tier, multi=False, mode=None):
    N = rng.choice([1, 2, 3, 4, 5])
    R, C = rng.choice([1, 2, 3, 4, 5]), rng.choice([1, 2, 3, 4])
    M = rng.choice([2, 3]) if multi else 1
    c = _pm_case(rng, tier, dtype=rng.choice(['uint8', 'uint16']), ndim=4 if multi else rng.choice([3, 4]), M=M,
                 ts=rng.choice(['Explicit', 'Implicit', 'RLE']), src_type='series')
    shape = [N, R, C, M] if len(c['shape']) == 4 else [N, R, C]
    c['shape'] = shape
    c['arr'] = _nest(_words(rng, c['dtype'], _shape_size(shape)), shape)
    c['kind'] = 'pm_volume_sub'
    x, y, z0 = rng.randint(-80, 80), rng.randint(-80, 80), rng.randint(-40, 40)
    dz = rng.choice([20, -20, 8])
    order = list(range(N))
    if rng.random() < 0.6:
        rng.shuffle(order)
    c['src'] = {'type': 'series', 'n': N, 'pos': [[x, y, z0 + k * dz] for k in order]}
    c['pp'] = None
    c['dz8'] = abs(dz)
    c['lazy'] = rng.random() < 0.5
    c['rw'] = (not multi) and rng.random() < 0.3
    c['history'] = _history(rng) if rng.random() < 0.3 else []
    if N > 1 and not multi and rng.random() < 0.06:
        a, b = rng.sample(range(N), 2)
        c['src']['pos'][a] = list(c['src']['pos'][b])
        c['dup'] = True
    top = (1 << (8 * WIDTH[c['dtype']])) - 1
    if len(shape) == 4:
        c['maps'] = {'shape': 'nested', 'items': [[_lin(rng, f'c{j}m0', False, 0, top)] for j in range(M)]}
    else:
        c['maps'] = {'shape': 'flat', 'items': [_lin(rng, 'c0m0', False, 0, top)]}
    ai = rng.random() < 0.5
    mode = mode or rng.choice(['valid', 'valid', 'valid', 'free', 'slices', 'rows', 'cols'])
    args = {'ai': ai}
    for key, n, ax in (('s', N, 'slices'), ('r', R, 'rows'), ('c', C, 'cols')):
        if mode == 'valid' or (mode != 'free' and mode != ax):
            a, b = _axis_args(rng, n, True)
            if mode != 'valid' and rng.random() < 0.5:
                a, b = 0, n
            args[key + 's'], args[key + 'e'] = _conv(rng, a, n, ai, False), _conv(rng, b, n, ai, True)
        else:
            args[key + 's'], args[key + 'e'] = _axis_args(rng, n, False)
    c['args'] = args
    return c


def _rwvm_case(rng):
    first = rng.choice([0, 0, 1, 5])
    last = first + rng.randint(0, 6)
    n_ok = last - first + 1
    return {'kind': 'rwvm_ctor', 'has_lut': rng.random() < 0.6, 'has_slope': rng.random() < 0.5,
            'has_intercept': rng.random() < 0.5, 'float_range': rng.random() < 0.3,
            'n_lut': rng.choice([n_ok, n_ok, n_ok, n_ok + 1, max(0, n_ok - 1), 0]), 'first': first, 'last': last}


def _sc_good(rng, tier):
    var = rng.choice(['bool', 'u8', 'u16', 'u12', 'rgb', 'ybr'])
    ts = rng.choice(['Implicit', 'Explicit', 'RLE', 'JLS', 'JLSNear'])
    big = ts in ('JLS', 'JLSNear')
    R, C = (rng.randint(10, 12), rng.randint(10, 12)) if big else (rng.randint(1, 6), rng.randint(1, 6))
    if var == 'bool':
        ts = rng.choice(['Implicit', 'Explicit'])
        R, C = rng.choice([(2, 4), (4, 4), (1, 8), (8, 3), (4, 6), (16, 1)])
        dtype, ba, shape, pi = 'bool', 1, [R, C], rng.choice(['MONOCHROME1', 'MONOCHROME2'])
        words = _words(rng, 'bool', R * C)
    elif var == 'u8':
        dtype, ba, shape, pi = 'uint8', 8, [R, C], rng.choice(['MONOCHROME1', 'MONOCHROME2'])
        words = _words(rng, 'uint8', R * C, smooth=big)
    elif var == 'u16':
        dtype, ba, shape, pi = 'uint16', 16, [R, C], rng.choice(['MONOCHROME1', 'MONOCHROME2'])
        words = _words(rng, 'uint16', R * C, smooth=big)
    elif var == 'u12':
        if ts == 'RLE':
            ts = 'Explicit'
        dtype, ba, shape, pi = 'uint16', 12, [R, C], rng.choice(['MONOCHROME1', 'MONOCHROME2'])
        words = _words(rng, 'uint16', R * C, smooth=big, hi=4095)
    else:
        if var == 'ybr' and big:
            ts = 'RLE'
        dtype, ba, shape = 'uint8', 8, [R, C, 3]
        pi = 'RGB' if var == 'rgb' else 'YBR_FULL'
        words = _words(rng, 'uint8', R * C * 3, smooth=big)
    return {'kind': 'sc', 'dtype': dtype, 'ba': ba, 'shape': shape, 'arr': _nest(words, shape), 'pi': pi,
            'ts': ts, 'via': rng.choice(['ctor', 'from_ref']),
            'layout': rng.choice(['C', 'C', 'F', 'T', 'Tlast', 'strided', 'neg', 'readonly', 'byteswap'])}


def _sc_bad(rng, tier):
    dtype = rng.choice(['bool', 'uint8', 'uint16', 'uint16', 'int16', 'float32', 'uint32', 'int8'])
    ba = rng.choice([1, 8, 12, 16, 16, 8, 32, 0, 24])
    if rng.random() < 0.5:      # mostly-valid: start from the matching depth
        ba = {'bool': 1, 'uint8': 8, 'uint16': rng.choice([12, 16])}.get(dtype, ba)
    shape = rng.choice([[4, 6], [5, 5], [3, 3], [2, 4], [4, 6, 3], [2, 2, 3], [4, 6, 4], [2, 4, 1], [6],
                        [2, 4, 6, 3], [33, 32], [32, 33, 3]])
    pi = rng.choice(['MONOCHROME1', 'MONOCHROME2', 'RGB', 'YBR_FULL', 'YBR_FULL_422', 'YBR_ICT', 'YBR_RCT',
                     'PALETTE COLOR', 'BOGUS'])
    if rng.random() < 0.5:
        pi = rng.choice(['MONOCHROME2', 'MONOCHROME1']) if len(shape) == 2 else rng.choice(['RGB', 'YBR_FULL'])
    ts = rng.choice(list(TS))
    if ts in ('J2K', 'J2KLossless') and min(shape[:2] + [99] if len(shape) > 1 else [0]) >= 32:
        ts = 'Explicit'       # would reach the (missing) openjpeg codec
    n = _shape_size(shape)
    if dtype == 'bool':
        words = _words(rng, 'bool', n)
    else:
        hi = rng.choice([4095, 4096, 65535, 255]) if dtype == 'uint16' else 100
        words = [rng.randint(0, hi) for _ in range(n)]
        if dtype == 'uint16' and rng.random() < 0.5:
            words[rng.randrange(n)] = hi
    c = {'kind': 'sc_refuse', 'dtype': dtype, 'ba': ba, 'shape': shape, 'arr': _nest(words, shape),
         'pi': pi, 'ts': ts, 'via': 'ctor'}
    if ts in ('JLS', 'JLSNear') and _sc_supported(c):
        c['ts'] = 'RLE'      # tiny random frames: pyjpegls refuses (output larger than the raw frame)
    return c


def gen_cases(rng, tier):
    k = {'quick': 1, 'thorough': 14, 'search': 6}[tier]
    cases = []
    for _ in range(110 * k):
        cases.append(_pm_case(rng, tier))
    # every (dtype, ndim) x syntax at least once
    for dt in ('uint8', 'uint16', 'float32', 'float64'):
        for nd in (2, 3, 4):
            cases.append(_pm_case(rng, tier, dtype=dt, ndim=nd))
    for st in ('series', 'multiframe', 'multiframe_file', 'slide'):
        for ts in ('Implicit', 'RLE', 'JLS'):
            cases.append(_pm_case(rng, tier, dtype=rng.choice(['uint8', 'uint16']), ts=ts, src_type=st))
    for rep in range(3 * k):
        # explicit plane positions with a multi-frame source read from a file / a slide source, and
        # with more planes than source images whose leading planes sit on the source planes
        c = _pm_case(rng, tier, dtype=rng.choice(['uint8', 'float32']), ndim=rng.choice([3, 4]),
                     ts='Explicit', src_type=rng.choice(['multiframe_file', 'slide']))
        if c['pp'] is None and c['src']['type'] == 'multiframe_file':
            c['pp'] = _positions(rng, c['shape'][0], 'perm')
        cases.append(c)
        c = _pm_case(rng, tier, dtype=rng.choice(['uint16', 'float64']), ndim=3, ts='Implicit',
                     src_type='series')
        n = c['shape'][0]
        srcpos = _positions(rng, rng.randint(1, n), 'perm')
        c['src'] = {'type': 'series', 'n': len(srcpos), 'pos': srcpos}
        c['pp'] = [list(p) for p in srcpos] + _positions(rng, n - len(srcpos), 'perm')
        cases.append(c)
    for rep in range(2 * k):
        for bad in PM_BAD:
            cases.append(_pm_refuse_case(rng, tier, bad))
    for dt in ('int8', 'int16', 'int32', 'int64', 'uint32', 'uint64', 'float16', 'bool', 'complex64'):
        c = _pm_refuse_case(rng, tier, 'dtype')      # every unsupported element type, every run
        c['dtype'] = dt
        cases.append(c)
    for _ in range(60 * k):
        cases.append(_read_case(rng, tier, False))
    for _ in range(60 * k):
        cases.append(_read_case(rng, tier, True))
    for rwf in TRI:          # every combination of the three flags, every run
        for mdf in TRI:
            for voif in TRI:
                cases.append(_flags_case(rng, tier, (rwf, mdf, voif)))
    for _ in range(25 * k):
        cases.append(_flags_case(rng, tier))
    for _ in range(40 * k):
        cases.append(_apply_case(rng))
    for op in HISTORY_OPS:
        for lazy in (False, True):
            for rw in (False, True):
                c = _read_case(rng, tier, rw)
                while _dims(c)[0] * _dims(c)[3] < 2 or c['api'] == 'pixel_array':
                    c = _read_case(rng, tier, rw)
                c['lazy'] = lazy
                c['history'] = [op] if rng.random() < 0.6 else [op, 'pixel_array']
                cases.append(c)
    for api in ('single', 'batch', 'all'):
        for ai in (False, True):
            for lazy in (False, True):
                for rw in (False, True):
                    c = _read_case(rng, tier, rw)
                    while _dims(c)[0] * _dims(c)[3] < 2:
                        c = _read_case(rng, tier, rw)
                    nf = _dims(c)[0] * _dims(c)[3]
                    lo = 0 if ai else 1
                    c.update(api=api, as_index=ai, lazy=lazy, history=['pixel_array'],
                             frames=None if api == 'all' else [lo + nf - 1, lo])
                    cases.append(c)
    for rep in range(6 * k):
        # per-channel LUT mappings that differ between channels, read as a batch across channels
        c = _read_case(rng, tier, True)
        while len(c['shape']) != 4 or c['shape'][3] < 2:
            c = _read_case(rng, tier, True)
        hi = max(_flatten(c['arr']))
        c['maps'] = {'shape': 'nested',
                     'items': [[_lut(rng, f'c{j}m0', 0, hi + 1)] for j in range(c['shape'][3])]}
        nf = c['shape'][0] * c['shape'][3]
        c.update(sel=0, api=rng.choice(['all', 'batch']), as_index=False,
                 frames=None, history=[] if rep % 2 else ['pixel_array'])
        if c['api'] == 'batch':
            c['frames'] = [nf, 1, 2]
        if rep % 3 == 0:
            c['kind'] = 'pm_read_flags'
            c.update(flags=[None, None, False], ww=2.0, wc=1.0)
        cases.append(c)
        # frames with an odd number of bytes stored back to back, read without the pixel array cache
        c = _read_case(rng, tier, rep % 2 == 1)
        while _dims(c)[0] * _dims(c)[3] < 3 or (_dims(c)[1] * _dims(c)[2]) % 2 == 0 or c['dtype'] != 'uint8':
            c = _read_case(rng, tier, rep % 2 == 1)
        nf = _dims(c)[0] * _dims(c)[3]
        c.update(ts=rng.choice(['Explicit', 'Implicit']), lazy=False, history=[],
                 api=rng.choice(['single', 'batch']), as_index=False, frames=[nf, 2, nf - 1])
        cases.append(c)
    for _ in range(6 * k):
        cases.append(_float_read_case(rng, tier))
    for _ in range(15 * k):
        cases.append(_volume_case(rng, tier))
    # sub-ranges of the volume (slices / rows / columns, both numbering conventions) and multi-channel maps
    for mode, cnt in (('valid', 24), ('free', 8), ('slices', 12), ('rows', 9), ('cols', 9)):
        for _ in range(cnt * k):
            cases.append(_volume_sub_case(rng, tier, mode=mode))
    for _ in range(6 * k):
        cases.append(_volume_sub_case(rng, tier, multi=True))
    # one object, many accesses: every request shape x every way of opening, array cached; cold and free ones
    for shape in REQ_SHAPES:
        for mode in OPEN_MODES:
            cases.append(_session_case(rng, tier, shape=shape, mode=mode, warm=True, min_frames=4))
        cases.append(_session_case(rng, tier, shape=shape, warm=False, min_frames=4))
    for _ in range(45 * k):
        cases.append(_session_case(rng, tier, shape=rng.choice([None] + REQ_SHAPES)))
    for _ in range(30 * k):
        cases.append(_rwvm_case(rng))
    for _ in range(70 * k):
        cases.append(_sc_good(rng, tier))
    for _ in range(120 * k):
        cases.append(_sc_bad(rng, tier))
    # memory layouts: every layout for every kind of array input, every run
    for lay in LAYOUTS:
        for dt, nd in (('float32', 3), ('float64', 4), ('uint16', 4), ('uint8', 3), ('uint16', 2)):
            c = _pm_case(rng, tier, dtype=dt, ndim=nd, ts=rng.choice(['Implicit', 'Explicit']),
                         src_type='series')
            while min(_rows_cols(c)) < 2:
                c = _pm_case(rng, tier, dtype=dt, ndim=nd, ts='Explicit', src_type='series')
            c['layout'] = lay
            cases.append(c)
        for dt in ('uint8', 'uint16'):
            c = _pm_case(rng, tier, dtype=dt, ndim=rng.choice([3, 4]), ts=rng.choice(['RLE', 'JLS']),
                         src_type='series')
            c['layout'] = lay
            cases.append(c)
        for _ in range(5):
            c = _sc_good(rng, tier)
            c['layout'] = lay
            cases.append(c)
        for c in (_read_case(rng, tier, False), _read_case(rng, tier, True)):
            c['layout'] = lay
            cases.append(c)
    # boundaries: every residue of rows*cols mod 8 for bit-packed frames; 12-bit maximum 4095 / 4096
    for n in range(1, 18):
        shape = [1, n] if rng.random() < 0.5 else [n, 1]
        if n % 4 == 0 and rng.random() < 0.5:
            shape = [2, n // 2]
        c = {'kind': 'sc', 'dtype': 'bool', 'ba': 1, 'shape': shape, 'arr': _nest(_words(rng, 'bool', n), shape),
             'pi': rng.choice(['MONOCHROME1', 'MONOCHROME2']), 'ts': rng.choice(['Implicit', 'Explicit']),
             'via': 'ctor'}
        c['kind'] = 'sc' if _sc_supported(c) else 'sc_refuse'
        cases.append(c)
    for top in (4094, 4095, 4096, 4097, 65535) * k:
        R, C = rng.randint(1, 5), rng.randint(1, 5)
        words = [rng.randint(0, min(top, 4095)) for _ in range(R * C)]
        words[rng.randrange(R * C)] = top
        c = {'kind': 'sc', 'dtype': 'uint16', 'ba': 12, 'shape': [R, C], 'arr': _nest(words, [R, C]),
             'pi': 'MONOCHROME2', 'ts': rng.choice(['Implicit', 'Explicit']), 'via': 'ctor'}
        c['kind'] = 'sc' if _sc_supported(c) else 'sc_refuse'
        cases.append(c)
    for c in cases:
        # big-endian 2-byte integers are refused by the constructor: nothing to read back
        if (c['kind'] in ('pm_read', 'pm_read_rw', 'pm_read_flags', 'pm_volume', 'pm_volume_sub', 'pm_session')
                and c.get('layout') == 'byteswap'
                and c['dtype'] == 'uint16'):
            c['layout'] = 'neg'
    return cases


# --------------------------------------------------------------------------
# implementation side
# --------------------------------------------------------------------------
def _np_array(dtype, arr, shape):
    import numpy as np
    flat = _flatten(arr) if shape else arr
    if dtype == 'bool':
        return np.array(flat, dtype=np.uint8).astype(bool).reshape(shape)
    if dtype in ('float32', 'float64'):
        u = np.array(flat, dtype='<u%d' % WIDTH[dtype]).reshape(shape)
        return u.view(NP[dtype])
    if dtype in ('float16', 'complex64'):
        return np.array(flat, dtype=np.float64).astype(NP[dtype]).reshape(shape)
    return np.array(flat, dtype=NP[dtype]).reshape(shape)


LAYOUTS = ['C', 'F', 'T', 'Tlast', 'strided', 'neg', 'readonly', 'byteswap']


def _relayout(a, layout):
    """Same shape, dtype and element values as `a` (bit-wise) in another memory layout:
    Fortran order, transposed views, strided and negative-stride views, read-only,
    non-native byte order."""
    import numpy as np
    if layout in (None, 'C') or a.ndim == 0:
        return a
    if layout == 'F':
        b = np.asfortranarray(a)
    elif layout in ('T', 'Tlast'):
        perm = list(range(a.ndim))[::-1] if layout == 'T' else list(range(a.ndim))
        if layout == 'Tlast' and a.ndim >= 2:
            # swap the two plane axes (rows/columns): e.g. vol.transpose(0, 2, 1) as input
            r = a.ndim - 2 if a.ndim in (2, 3) else 1
            perm[r], perm[r + 1] = perm[r + 1], perm[r]
        inv = [perm.index(i) for i in range(a.ndim)]
        b = np.ascontiguousarray(a.transpose(perm)).transpose(inv)
    elif layout == 'strided':
        big = np.zeros(tuple(2 * n + 1 for n in a.shape), dtype=a.dtype)
        sl = tuple(slice(1, 2 * n + 1, 2) for n in a.shape)
        big[sl] = a
        b = big[sl]
    elif layout == 'neg':
        rev = tuple(slice(None, None, -1) for _ in a.shape)
        b = np.ascontiguousarray(a[rev])[rev]
    elif layout == 'readonly':
        b = a.copy()
        b.setflags(write=False)
    elif layout == 'byteswap':
        if a.dtype.itemsize == 1:
            b = np.asfortranarray(a)
        else:
            b = a.astype(a.dtype.newbyteorder('>'))
    else:
        raise ValueError(layout)
    assert b.shape == a.shape
    na = b.astype(b.dtype.newbyteorder('=')) if layout == 'byteswap' else b
    assert _to_words(na) == _to_words(a), layout
    return b


def _to_words(a):
    """numpy array -> flat list of words (bit patterns)"""
    import numpy as np
    a = np.ascontiguousarray(a)
    if a.dtype == np.bool_:
        return a.astype(np.uint8).reshape(-1).tolist()
    if a.dtype.kind == 'f':
        return a.view('<u%d' % a.dtype.itemsize).reshape(-1).tolist()
    return a.reshape(-1).tolist()


def _mk_mapping(m):
    import highdicom as hd
    from pydicom.sr.codedict import codes
    if m['type'] == 'lut':
        n = len(m['lut'])
        return hd.pm.RealWorldValueMapping(
            lut_label=m['label'], lut_explanation='e', unit=codes.UCUM.NoUnits,
            value_range=(m['first'], m['first'] + n - 1), lut_data=[float(F(v)) for v in m['lut']])
    vr = (float(m['first']), float(m['last'])) if m['float_range'] else (int(m['first']), int(m['last']))
    return hd.pm.RealWorldValueMapping(
        lut_label=m['label'], lut_explanation='e', unit=codes.UCUM.NoUnits, value_range=vr,
        slope=float(F(m['slope'])), intercept=float(F(m['intercept'])))


def _mk_maps(spec):
    if spec['shape'] == 'flat':
        return [_mk_mapping(m) for m in spec['items']]
    return [[_mk_mapping(m) for m in ch] for ch in spec['items']]


def _rows_cols(c):
    sh = c['shape']
    if len(sh) == 2:
        return sh[0], sh[1]
    if len(sh) >= 3:
        return sh[1], sh[2]
    return 2, 2


def _series(pos8, rows, cols, mixed=False):
    import synth
    s, st, f = synth.uid(), synth.uid(), synth.uid()
    out = []
    for i, p in enumerate(pos8):
        out.append(synth.ct_frame([v / 8.0 for v in p], rows, cols,
                                  series_uid=synth.uid() if (mixed and i == len(pos8) - 1) else s,
                                  study_uid=st, for_uid=f, instance_number=i + 1))
    return out


def _simple_pm(src, arr, maps, **kw):
    import highdicom as hd
    return hd.pm.ParametricMap(src, arr, hd.UID(), 1, hd.UID(), 1, 'm', 'mm', '1', 'sn',
                               contains_recognizable_visual_features=False,
                               real_world_value_mappings=maps, **kw)


def _sources(c):
    import numpy as np
    import synth
    s = c['src']
    rows, cols = _rows_cols(c)
    if s['type'] in ('series', 'series_mixed'):
        pos = s['pos'][:s['n']]
        if s['type'] == 'series_mixed' and len(pos) < 2:
            pos = pos + [[0, 0, 999]]
        return _series(pos, rows, cols, mixed=s['type'] == 'series_mixed')
    if s['type'] in ('multiframe', 'multiframe_file'):
        ser = _series(s['pos'], rows, cols)
        m = _mk_mapping({'type': 'lin', 'label': 'src', 'slope': '1', 'intercept': '0', 'first': 0,
                         'last': 255, 'float_range': False})
        pm0 = _simple_pm(ser, np.zeros((len(ser), rows, cols), np.uint8), [m],
                         window_center=1.0, window_width=2.0)
        if s['type'] == 'multiframe_file':      # as a user gets it: a plain dataset read from a file
            import pydicom
            buf = io.BytesIO()
            pm0.save_as(buf)
            pm0 = pydicom.dcmread(io.BytesIO(buf.getvalue()))
        return [pm0] * s['n']
    if s['type'] == 'slide':
        return [_slide_source(c)]
    raise ValueError(s['type'])


def _slide_source(c):
    import synth
    rows, cols = _rows_cols(c)
    gr, gc = c['src']['grid']
    ox, oy = c['src']['origin8']
    return synth.sm_tiled(gr * rows, gc * cols, rows, cols, tiled_full=False, samples=1,
                          origin=(ox / 8.0, oy / 8.0))


def _slide_positions(c):
    """[col, row, x8, y8, z8] of every tile of the synthetic slide source (harness input data)"""
    out = []
    for f in _slide_source(c).PerFrameFunctionalGroupsSequence:
        p = f.PlanePositionSlideSequence[0]
        out.append([int(p.ColumnPositionInTotalImagePixelMatrix), int(p.RowPositionInTotalImagePixelMatrix),
                    _i8(p.XOffsetInSlideCoordinateSystem), _i8(p.YOffsetInSlideCoordinateSystem),
                    _i8(p.ZOffsetInSlideCoordinateSystem)])
    return out


def _plane_positions(c):
    import highdicom as hd
    if c['pp'] is None:
        return None
    if c['src']['type'] == 'slide':
        return [hd.PlanePositionSequence('SLIDE', image_position=(p[2] / 8.0, p[3] / 8.0, p[4] / 8.0),
                                         pixel_matrix_position=(p[0], p[1])) for p in c['pp']]
    return [hd.PlanePositionSequence('PATIENT', [v / 8.0 for v in p]) for p in c['pp']]


def _pm_ctor(c):
    arr = _relayout(_np_array(c['dtype'], c['arr'], c['shape']), c.get('layout'))
    kw = {}
    pp = _plane_positions(c)
    if pp is not None:
        kw['plane_positions'] = pp
    if c.get('dz8'):
        import highdicom as hd
        kw['pixel_measures'] = hd.PixelMeasuresSequence(
            pixel_spacing=(1.0, 1.0), slice_thickness=1.0, spacing_between_slices=c['dz8'] / 8.0)
    return _simple_pm(_sources(c), arr, _mk_maps(c['maps']), window_center=c.get('wc', 1.0), window_width=c['ww'],
                      transfer_syntax_uid=TS[c['ts']], **kw)


def _i8(v):
    x = float(v) * 8
    assert x == int(x), v
    return int(x)


def _observe_pm(pm):
    import numpy as np
    import pydicom
    attrs = [k for k in ('PixelData', 'FloatPixelData', 'DoubleFloatPixelData') if k in pm]
    attr = attrs[0] if len(attrs) == 1 else 'attributes:' + ','.join(attrs)
    ba, nf, R, C = int(pm.BitsAllocated), int(pm.NumberOfFrames), int(pm.Rows), int(pm.Columns)
    native = not pm.file_meta.TransferSyntaxUID.is_encapsulated
    mem = bytes(getattr(pm, attrs[0]))
    buf = io.BytesIO()
    pm.save_as(buf)
    d = pydicom.dcmread(io.BytesIO(buf.getvalue()))
    fileb = bytes(d[attrs[0]].value)
    same = fileb[:len(mem)] == mem and len(fileb) - len(mem) in (0, 1) and not any(fileb[len(mem):])
    try:
        pa = np.asarray(d.pixel_array)
        frames = [_to_words(f) for f in pa.reshape(nf, R, C)]
    except Exception as e:       # reported by the oracle as a property failure, not a harness error
        frames = 'pydicom cannot decode the stored pixel data: ' + type(e).__name__
    meta = []
    shared = 'RealWorldValueMappingSequence' in pm.SharedFunctionalGroupsSequence[0]
    for f in pm.PerFrameFunctionalGroupsSequence:
        if 'PlanePositionSlideSequence' in f:
            p = f.PlanePositionSlideSequence[0]
            keys = [[int(p.ColumnPositionInTotalImagePixelMatrix)], [int(p.RowPositionInTotalImagePixelMatrix)],
                    [_i8(p.XOffsetInSlideCoordinateSystem)], [_i8(p.YOffsetInSlideCoordinateSystem)],
                    [_i8(p.ZOffsetInSlideCoordinateSystem)]]
        else:
            keys = [[_i8(v) for v in f.PlanePositionSequence[0].ImagePositionPatient]]
        div = f.FrameContentSequence[0].DimensionIndexValues
        div = [int(v) for v in div] if hasattr(div, '__iter__') else [int(div)]
        own = 'RealWorldValueMappingSequence' in f
        if own and not shared:
            seq = f.RealWorldValueMappingSequence
            lab = str(seq[0].LUTLabel) if len(seq) else 'c?'
            place = int(lab[1:lab.index('m')]) if lab.startswith('c') and 'm' in lab else 'unlabelled'
        else:
            place = 'shared' if shared and not own else 'both' if shared else 'none'
        meta.append([keys, div, place])
    return [attr, ba, nf, R, C, list(mem) if native else None, bool(same), frames, meta]


def _image(pm, lazy):
    import highdicom as hd
    buf = io.BytesIO()
    pm.save_as(buf)
    return hd.imread(buf.getvalue(), lazy_frame_retrieval=lazy)


def _replay_history(im, nf, ops):
    """earlier accesses on the same object; their results (and errors) are irrelevant here"""
    for op in ops:
        try:
            if op == 'pixel_array':
                im.pixel_array
            elif op == 'stored_frame':
                im.get_stored_frame(1)
            elif op == 'stored_frame_last_idx':
                im.get_stored_frame(nf - 1, as_index=True)
            elif op == 'stored_frames':
                im.get_stored_frames()
            elif op == 'stored_frames_idx':
                im.get_stored_frames([nf - 1, 0], as_indices=True)
            elif op == 'get_frame':
                im.get_frame(nf, apply_real_world_transform=False)
            elif op == 'get_frame_rw':
                im.get_frame(1, apply_real_world_transform=True)
            elif op == 'get_frames':
                im.get_frames(apply_real_world_transform=False)
            elif op == 'get_frames_rw':
                im.get_frames([nf], apply_real_world_transform=True)
            elif op == 'bad_number':
                im.get_stored_frame(nf + 1)
            else:
                raise AssertionError(op)
        except AssertionError:
            raise
        except Exception:
            pass


def _fr(x):
    return [F(float(v)) for v in x.reshape(-1).tolist()]


def _py_index(v, ai):
    """Python index meant by a start/end argument (one-based numbers unless ai; negatives as in Python)"""
    if v is None:
        return None
    return v if (ai or v <= 0) else v - 1


def _py_first(st, en, n, ai):
    """first index selected on an axis of n, by Python's own slicing"""
    sel = range(n)[slice(_py_index(st, ai), _py_index(en, ai))]
    return sel[0] if len(sel) else 0


def _sel(c):
    return c['sel']


def _sc_ctor(c):
    import highdicom as hd
    import synth
    arr = _relayout(_np_array(c['dtype'], c['arr'], c['shape']), c.get('layout'))
    pi = 'NOT_A_PI' if c['pi'] == 'BOGUS' else c['pi']
    if c.get('via') == 'from_ref':
        return hd.sc.SCImage.from_ref_dataset(
            synth.base('ct_image.dcm'), arr, pi, c['ba'], 'PATIENT', hd.UID(), 1, hd.UID(), 1, 'm',
            patient_orientation=('L', 'P'), transfer_syntax_uid=TS[c['ts']])
    return hd.sc.SCImage(arr, pi, c['ba'], 'PATIENT', hd.UID(), hd.UID(), 1, hd.UID(), 1, 'm',
                         patient_id='p', patient_name='a^b', patient_birth_date='19700101',
                         patient_sex='O', accession_number='1', study_id='1', study_date='20200101',
                         study_time='101010', referring_physician_name='x^y',
                         patient_orientation=('L', 'P'), transfer_syntax_uid=TS[c['ts']])


def run_impl(c):
    import contextlib
    with contextlib.redirect_stderr(io.StringIO()):   # the lazy file reader prints tracebacks to stderr
        return _run_impl(c)


def _run_impl(c):
    import logging
    import warnings
    import numpy as np
    import pydicom
    import highdicom as hd  # noqa
    warnings.filterwarnings('ignore')
    logging.disable(logging.CRITICAL)
    k = c['kind']
    if k in ('pm_store', 'pm_refuse'):
        pm = catch(_pm_ctor, c)
        if isinstance(pm, Err):
            return pm
        return _observe_pm(pm)
    if k == 'rwvm_apply':
        def ap():
            arr = np.array(c['vals'], dtype=NP[c['dtype']]).reshape(c['shape'])
            return _fr(_mk_mapping(c['map']).apply(arr))
        return catch(ap)
    if k in ('pm_read', 'pm_read_rw', 'pm_read_flags', 'pm_float_read', 'pm_volume', 'pm_volume_sub'):
        pm = _pm_ctor(c)
        im = _image(pm, c['lazy'])
        nf = int(pm.NumberOfFrames)
        _replay_history(im, nf, c.get('history') or [])
        if k == 'pm_volume':
            def vol():
                kw = (dict(apply_real_world_transform=True) if c['rw'] else
                      dict(apply_real_world_transform=False, dtype=NP[c['dtype']]))
                v = im.get_volume(**kw)
                aff = np.asarray(v.affine)
                out = []
                for s in range(v.array.shape[0]):
                    p = aff @ np.array([s, 0, 0, 1.0])
                    out.append([[_i8(x) for x in p[:3]],
                                _fr(v.array[s]) if c['rw'] else _to_words(v.array[s])])
                return out
            return catch(vol)
        if k == 'pm_volume_sub':
            def volsub():
                a = c['args']
                kw = (dict(apply_real_world_transform=True) if c['rw'] else
                      dict(apply_real_world_transform=False, dtype=NP[c['dtype']]))
                v = im.get_volume(slice_start=a['ss'], slice_end=a['se'], row_start=a['rs'], row_end=a['re'],
                                  column_start=a['cs'], column_end=a['ce'], as_indices=a['ai'], **kw)
                arr = np.asarray(v.array)
                aff = np.asarray(v.affine)
                r0 = _py_first(a['rs'], a['re'], int(pm.Rows), a['ai'])
                c0 = _py_first(a['cs'], a['ce'], int(pm.Columns), a['ai'])
                out = []
                for s_ in range(arr.shape[0]):
                    # position of pixel (0, 0) of the UNCROPPED slice according to the returned affine
                    p = aff @ np.array([s_, -r0, -c0, 1.0])
                    out.append([[_i8(x) for x in p[:3]], _fr(arr[s_]) if c['rw'] else _to_words(arr[s_])])
                return [[int(arr.shape[1]), int(arr.shape[2])], out]
            return catch(volsub)
        if k == 'pm_float_read':
            def rd():
                if c['api'] == 'single':
                    return [_to_words(im.get_stored_frame(f)) for f in range(1, nf + 1)]
                if c['api'] == 'batch':
                    return [_to_words(x) for x in im.get_stored_frames(list(range(1, nf + 1)))]
                if c['api'] == 'all':
                    return [_to_words(x) for x in im.get_stored_frames()]
                return [_to_words(im.get_frame(f, apply_real_world_transform=False, dtype=NP[c['dtype']]))
                        for f in range(1, nf + 1)]
            return catch(rd)
        api, ai, fs = c['api'], c['as_index'], c['frames']
        if k == 'pm_read':
            def rd():
                if api == 'single':
                    return [_to_words(im.get_stored_frame(f, as_index=ai)) for f in fs]
                if api == 'batch':
                    return [_to_words(x) for x in im.get_stored_frames(list(fs), as_indices=ai)]
                if api == 'all':
                    return [_to_words(x) for x in im.get_stored_frames(as_indices=ai)]
                pa = im.pixel_array
                return [_to_words(x) for x in np.asarray(pa).reshape(nf, int(pm.Rows), int(pm.Columns))]
            return catch(rd)

        def rdw():
            kw = dict(apply_real_world_transform=True, real_world_value_map_selector=_sel(c))
            if k == 'pm_read_flags':
                rwf, mdf, voif = c['flags']
                kw = dict(apply_real_world_transform=rwf, apply_modality_transform=mdf,
                          apply_voi_transform=voif, real_world_value_map_selector=_sel(c))
                if api == 'batch':
                    return [_fr(x) for x in im.get_frames(list(fs), as_indices=ai, **kw)]
            if api == 'single':
                return [_fr(im.get_frame(f, as_index=ai, **kw)) for f in fs]
            if api == 'batch':
                return [_fr(x) for x in im.get_frames(list(fs), as_indices=ai, **kw)]
            return [_fr(x) for x in im.get_frames(as_indices=ai, **kw)]
        return catch(rdw)
    if k == 'pm_session':
        pm = _pm_ctor(c)
        nf, R, C = int(pm.NumberOfFrames), int(pm.Rows), int(pm.Columns)
        if c['open'] == 'mem':
            im = hd.Image.from_dataset(pm)
        elif c['open'] == 'mem_nocopy':
            im = hd.Image.from_dataset(pm, copy=False)
        else:
            im = _image(pm, c['open'] == 'lazy')

        def one(o):
            what = o['op']
            if what == 'pixel_array':
                return [_to_words(x) for x in np.asarray(im.pixel_array).reshape(nf, R, C)]
            if what == 'stored_frame':
                return _to_words(im.get_stored_frame(o['f'], as_index=o['ai']))
            if what == 'stored_frames':
                fs = None if o['frames'] is None else list(o['frames'])
                return [_to_words(x) for x in im.get_stored_frames(fs, as_indices=o['ai'])]
            rwf, mdf, voif = o['flags']
            kw = dict(apply_real_world_transform=rwf, apply_modality_transform=mdf,
                      apply_voi_transform=voif, real_world_value_map_selector=_sel(c))
            if what == 'frame':
                return _fr(im.get_frame(o['f'], as_index=o['ai'], **kw))
            fs = None if o['frames'] is None else list(o['frames'])
            return [_fr(x) for x in im.get_frames(fs, as_indices=o['ai'], **kw)]
        return [catch(one, o) for o in c['ops']]
    if k == 'rwvm_ctor':
        from pydicom.sr.codedict import codes

        def mk():
            vr = (float(c['first']), float(c['last'])) if c['float_range'] else (c['first'], c['last'])
            m = hd.pm.RealWorldValueMapping(
                lut_label='l', lut_explanation='e', unit=codes.UCUM.NoUnits, value_range=vr,
                slope=2.0 if c['has_slope'] else None, intercept=1.0 if c['has_intercept'] else None,
                lut_data=[float(i) for i in range(c['n_lut'])] if c['has_lut'] else None)
            return bool(m.has_lut())
        return catch(mk)
    if k in ('sc', 'sc_refuse'):
        sc = catch(_sc_ctor, c)
        if isinstance(sc, Err):
            return sc
        native = not sc.file_meta.TransferSyntaxUID.is_encapsulated
        buf = io.BytesIO()
        sc.save_as(buf)
        d = pydicom.dcmread(io.BytesIO(buf.getvalue()))
        lossy = sc.file_meta.TransferSyntaxUID == TS['JPEGBase']
        from pydicom.pixels import pixel_array
        dec = _to_words(pixel_array(d, raw=True))
        if lossy:
            dec = _flatten(c['arr'])      # lossy: pixel equality is out of scope, acceptance only
        mem = bytes(sc.PixelData)
        return [int(sc.BitsAllocated), int(sc.BitsStored), int(sc.SamplesPerPixel),
                list(mem) if native else None, dec]
    raise ValueError(k)


# --------------------------------------------------------------------------
# model terms
# --------------------------------------------------------------------------
def _b(x):
    return 'true' if x else 'false'


def _zl4(c):
    """array as list (list (list (list Z))) indexed [i][r][c][j]"""
    sh, a = c['shape'], c['arr']
    if len(sh) == 2:
        a4 = [[[[v] for v in row] for row in a]]
    elif len(sh) == 3:
        a4 = [[[[v] for v in row] for row in pl] for pl in a]
    elif len(sh) == 4:
        a4 = a
    else:
        return '[]'
    return '[' + '; '.join('[' + '; '.join('[' + '; '.join(zl(px) for px in row) + ']' for row in pl) + ']'
                           for pl in a4) + ']'


def _dims(c):
    sh = c['shape']
    if len(sh) == 2:
        return 1, sh[0], sh[1], 1
    if len(sh) == 3:
        return sh[0], sh[1], sh[2], 1
    return tuple(sh)


def _mapshape(spec):
    if spec['shape'] == 'flat':
        return f"(MFlat {len(spec['items'])})"
    return '(MNested ' + zl([len(ch) for ch in spec['items']]) + ')'


def _eff_positions(c):
    """position keys per dimension column of the planes the map is built with"""
    if c['src']['type'] == 'slide':
        pp = c['pp'] if c['pp'] is not None else _slide_positions(c)
        return [[[p[d]] for p in pp] for d in range(5)]
    pos = c['pp'] if c['pp'] is not None else c['src']['pos']
    return [[list(p) for p in pos]]


def _cols_term(c):
    return '[' + '; '.join('[' + '; '.join(zl(k) for k in col) + ']' for col in _eff_positions(c)) + ']'


def _pmcfg(c):
    s = c['src']
    nsrc = s['n'] if s['type'] != 'series_mixed' else max(2, s['n'])
    multiframe = s['type'] in ('multiframe', 'multiframe_file', 'slide')
    srcplanes = s['grid'][0] * s['grid'][1] if s['type'] == 'slide' else len(s['pos'])
    uniform = s['type'] != 'series_mixed'
    pp = 'None' if c['pp'] is None else f"(Some {len(c['pp'])})"
    return (f"{{| c_nsrc := {nsrc}; c_uniform := {_b(uniform)}; c_multiframe := {_b(multiframe)}; "
            f"c_srcplanes := {srcplanes}; c_dtype := {COQ_DT[c['dtype']]}; c_ts := {c['ts']}; "
            f"c_wwpos := {_b(c['ww'] > 0)}; c_shape := {zl(c['shape'])}; c_maps := {_mapshape(c['maps'])}; "
            f"c_pp := {pp} |}}")


def _mapping_term(m):
    if m['type'] == 'lut':
        return f"(MLut {zlit(m['first'])} [" + '; '.join(qlit(F(v)) for v in m['lut']) + '])'
    return (f"(MLin {qlit(F(m['slope']))} {qlit(F(m['intercept']))} {qlit(F(m['first']))} "
            f"{qlit(F(m['last']))})")


def _maps_term(spec):
    chans = [spec['items']] if spec['shape'] == 'flat' else spec['items']
    return '[' + '; '.join('[' + '; '.join(f'("{m["label"]}"%string, {_mapping_term(m)})' for m in ch) + ']'
                           for ch in chans) + ']'


def _sel_term(s):
    return f'(SLabel "{s}"%string)' if isinstance(s, str) else f'(SIdx {zlit(s)})'


def _byteswapped_int(c):
    return c.get('layout') == 'byteswap' and c.get('dtype') == 'uint16'


def coq_term(c):
    k = c['kind']
    if _byteswapped_int(c):
        return None      # the library may refuse a non-native byte order; oracle-only
    if k in ('pm_store', 'pm_refuse'):
        arr = _zl4(c)
        return f'(run_pm_store {_pmcfg(c)} {arr} {_cols_term(c)})'
    if k in ('pm_read', 'pm_read_rw'):
        N, R, C, M = _dims(c)
        nf = N * M
        ai = c['as_index']
        fs = c['frames'] if c['frames'] is not None else (list(range(nf)) if ai else list(range(1, nf + 1)))
        if c['api'] == 'pixel_array':
            fs, ai = list(range(1, nf + 1)), False
        w = WIDTH[c['dtype']]
        if k == 'pm_read' and c['api'] in ('batch', 'all'):
            opt = 'None' if c['frames'] is None else f'(Some {zl(c["frames"])})'
            return f'(run_pm_read_batch {w}%nat {_zl4(c)} {N} {R} {C} {M} {opt} {_b(ai)})'
        if k == 'pm_read':
            return f'(run_pm_read_stored {w}%nat {_zl4(c)} {N} {R} {C} {M} {zl(fs)} {_b(ai)})'
        batch = c['api'] in ('batch', 'all')
        return (f'(run_pm_read_rw {_b(batch)} {w}%nat {_zl4(c)} {N} {R} {C} {M} {_maps_term(c["maps"])} '
                f'{_sel_term(c["sel"])} {zl(fs)} {_b(ai)})')
    if k == 'pm_read_flags':
        N, R, C, M = _dims(c)
        w = WIDTH[c['dtype']]
        batch = c['api'] in ('batch', 'all')
        opt = 'None' if c['frames'] is None else f'(Some {zl(c["frames"])})'
        fl = ' '.join('None' if f is None else f'(Some {_b(f)})' for f in c['flags'])
        return (f'(run_pm_read_flags {_b(batch)} {w}%nat {_zl4(c)} {N} {R} {C} {M} {_maps_term(c["maps"])} '
                f'{_sel_term(c["sel"])} {fl} {qlit(F(c["wc"]))} {qlit(F(c["ww"]))} {opt} {_b(c["as_index"])})')
    if k == 'pm_session':
        N, R, C, M = _dims(c)
        w = WIDTH[c['dtype']]

        def opt(fs):
            return 'None' if fs is None else f'(Some {zl(fs)})'

        def fl(o):
            return ' '.join('None' if f is None else f'(Some {_b(f)})' for f in o['flags'])

        def op(o):
            what = o['op']
            if what == 'pixel_array':
                return 'OPixelArray'
            if what == 'stored_frame':
                return f"(OStoredFrame {zlit(o['f'])} {_b(o['ai'])})"
            if what == 'stored_frames':
                return f"(OStoredFrames {opt(o['frames'])} {_b(o['ai'])})"
            if what == 'frame':
                return f"(OFrame {fl(o)} {zlit(o['f'])} {_b(o['ai'])})"
            return f"(OFrames {fl(o)} {opt(o['frames'])} {_b(o['ai'])})"
        return (f'(run_pm_session {w}%nat {_zl4(c)} {N} {R} {C} {M} {_maps_term(c["maps"])} '
                f'{_sel_term(c["sel"])} {qlit(F(c["wc"]))} {qlit(F(c["ww"]))} [' +
                '; '.join(op(o) for o in c['ops']) + '])')
    if k == 'pm_volume':
        N, R, C, M = _dims(c)
        if M != 1:
            return None
        w = WIDTH[c['dtype']]
        pos = '[' + '; '.join(zl(p) for p in c['src']['pos']) + ']'
        if c['rw']:
            m = c['maps']['items'][0][0] if c['maps']['shape'] == 'nested' else c['maps']['items'][0]
            rw = f'(Some {_mapping_term(m)})'
        else:
            rw = 'None'
        return f'(run_pm_volume {w}%nat {_zl4(c)} {N} {R} {C} {pos} {rw})'
    if k == 'pm_volume_sub':
        N, R, C, M = _dims(c)
        w = WIDTH[c['dtype']]
        pos = '[' + '; '.join(zl(p) for p in c['src']['pos']) + ']'
        if c['rw']:
            m = c['maps']['items'][0][0] if c['maps']['shape'] == 'nested' else c['maps']['items'][0]
            rw = f'(Some {_mapping_term(m)})'
        else:
            rw = 'None'
        a = c['args']

        def oz(v):
            return 'None' if v is None else f'(Some {zlit(v)})'
        args = (f"{{| v_ss := {oz(a['ss'])}; v_se := {oz(a['se'])}; v_rs := {oz(a['rs'])}; v_re := {oz(a['re'])}; "
                f"v_cs := {oz(a['cs'])}; v_ce := {oz(a['ce'])}; v_ai := {_b(a['ai'])} |}}")
        return f'(run_pm_volume_sub {w}%nat {_zl4(c)} {N} {R} {C} {M} {pos} {rw} {args})'
    if k == 'rwvm_apply':
        isint = c['dtype'] not in ('float32', 'float64')
        return f"(run_rwvm_apply {_b(isint)} {_mapping_term(c['map'])} {zl(c['vals'])})"
    if k == 'rwvm_ctor':
        return (f"(run_rwvm {_b(c['has_lut'])} {_b(c['has_slope'])} {_b(c['has_intercept'])} "
                f"{_b(c['float_range'])} {c['n_lut']} {c['first']} {c['last']})")
    if k in ('sc', 'sc_refuse'):
        flat = _flatten(c['arr'])
        ok_words = c['dtype'] in ('bool', 'uint8', 'uint16')
        mx = max(flat) < 4096 if flat else True
        cfg = (f"{{| s_dtype := {COQ_DT[c['dtype']]}; s_ba := {zlit(c['ba'])}; s_shape := {zl(c['shape'])}; "
               f"s_pi := {PI[c['pi']]}; s_ts := {c['ts']}; s_max12 := {_b(mx)} |}}")
        return f"(run_sc {cfg} {zl(flat if ok_words else [])})"
    return None


# --------------------------------------------------------------------------
# independent oracle (numpy / pydicom reference; never the model)
# --------------------------------------------------------------------------
def _expected_frames(c):
    """frames in the order (plane i, mapping j) as lists of words, by numpy indexing"""
    import numpy as np
    a = _np_array(c['dtype'], c['arr'], c['shape'])
    if a.ndim == 2:
        a = a[None, :, :, None]
    elif a.ndim == 3:
        a = a[..., None]
    return [a[i, :, :, j] for i in range(a.shape[0]) for j in range(a.shape[3])], a.shape[3]


def _sign(x):
    return (x > 0) - (x < 0)


def _pm_valid(c):
    """should the constructor accept?  (declarative restatement of the documented contract)"""
    if c['bad'] is None:
        return True
    return False


def _ref_mapping(m, frame):
    """real world values of an integer frame, exact rationals; 'range' if outside the mapped range"""
    vals = [int(v) for v in frame.reshape(-1)]
    if m['type'] == 'lut':
        lut = [F(v) for v in m['lut']]
        if min(vals) < m['first'] or max(vals) > m['first'] + len(lut) - 1:
            return 'range'
        return [lut[v - m['first']] for v in vals]
    if min(vals) < m['first'] or max(vals) > m['last']:
        return 'range'
    return [v * F(m['slope']) + F(m['intercept']) for v in vals]


def oracle(c, out):
    import numpy as np
    k = c['kind']
    if _byteswapped_int(c) and isinstance(out, Err) and out.kind in ('ValueError', 'TypeError'):
        return None      # refusing a non-native byte order is fine; storing it wrongly is not
    if k == 'pm_refuse':
        return None if isinstance(out, Err) else f'invalid input accepted ({c["bad"]})'
    if k == 'pm_store':
        if isinstance(out, Err):
            return f'valid parametric map refused: {out}'
        attr, ba, nf, R, C, mem, same, frames, meta = out
        exp, M = _expected_frames(c)
        want_attr = {'uint8': 'PixelData', 'uint16': 'PixelData', 'float32': 'FloatPixelData',
                     'float64': 'DoubleFloatPixelData'}[c['dtype']]
        if attr != want_attr:
            return f'pixel data stored in {attr}, expected {want_attr}'
        if ba != 8 * WIDTH[c['dtype']]:
            return f'BitsAllocated {ba}'
        if nf != len(exp) or (R, C) != exp[0].shape:
            return f'{nf} frames of {R}x{C}, expected {len(exp)} of {exp[0].shape}'
        if mem is not None:
            ref = b''.join(np.ascontiguousarray(f).tobytes() for f in exp)
            if bytes(mem) != ref:
                return 'in-memory pixel data bytes differ from tobytes() of the planes'
        if not same:
            return 'file round trip changed the pixel data bytes'
        if isinstance(frames, str):
            return frames
        for i, (f, e) in enumerate(zip(frames, exp)):
            if f != _to_words(e):
                return f'frame {i + 1} read back by pydicom differs bit-wise from plane {i // M} mapping {i % M}'
        cols = _eff_positions(c)
        for i, (keys, div, place) in enumerate(meta):
            pl = i // M
            if keys != [col[pl] for col in cols]:
                return f'frame {i + 1} carries position {keys}, plane {pl} is at {[col[pl] for col in cols]}'
            want_place = (i % M) if M > 1 else 'shared'
            if place != want_place:
                return f'frame {i + 1}: real world value mapping placement {place}, expected {want_place}'
            if len(div) != len(cols):
                return f'frame {i + 1}: {len(div)} dimension index values for {len(cols)} dimensions'
        for d, col in enumerate(cols):
            uniq = sorted(set(tuple(x) for x in col))
            for i, (_, div, _) in enumerate(meta):
                if div[d] != uniq.index(tuple(col[i // M])) + 1:
                    return (f'frame {i + 1}: dimension index {div[d]} in dimension {d}, position '
                            f'{col[i // M]} is number {uniq.index(tuple(col[i // M])) + 1} of {len(uniq)}')
        return None
    if k == 'pm_read':
        exp, M = _expected_frames(c)
        nf = len(exp)
        ai = c['as_index']
        fs = c['frames'] if c['frames'] is not None else (list(range(nf)) if ai else list(range(1, nf + 1)))
        if c['api'] == 'pixel_array':
            fs, ai = list(range(1, nf + 1)), False
        return _oracle_stored(exp, M, fs, ai, out)
    if k == 'pm_read_rw':
        exp, M = _expected_frames(c)
        nf = len(exp)
        ai = c['as_index']
        fs = c['frames'] if c['frames'] is not None else (list(range(nf)) if ai else list(range(1, nf + 1)))
        idx = [f if ai else f - 1 for f in fs]
        chans = [c['maps']['items']] if c['maps']['shape'] == 'flat' else c['maps']['items']
        want = []
        for i in idx:
            if i < 0 or i >= nf:
                want.append('index')
                break
            ms = chans[i % M] if M > 1 else chans[0]
            s = c['sel']
            if isinstance(s, str):
                hit = [m for m in ms if m['label'] == s]
                m = hit[0] if hit else None
            else:
                m = ms[s] if -len(ms) <= s < len(ms) else None
            if m is None:
                want.append('selector')
                break
            r = _ref_mapping(m, exp[i])
            want.append(r)
            if r == 'range':
                break
        last = want[-1]
        if last in ('index', 'selector'):
            return None if out == Err('IndexError') else f'expected IndexError ({last}), got {str(out)[:80]}'
        if last == 'range':
            return None if out == Err('ValueError') else f'value outside mapped range gave {str(out)[:80]}'
        if isinstance(out, Err):
            return f'real world values of frames {fs} not returned: {out}'
        if out != want:
            return f'real world values differ for frames {fs}'
        return None
    if k == 'pm_read_flags':
        exp, M = _expected_frames(c)
        nf = len(exp)
        ai = c['as_index']
        fs = c['frames'] if c['frames'] is not None else (list(range(nf)) if ai else list(range(1, nf + 1)))
        return _oracle_flags(c, exp, M, c['flags'], fs, ai, out)
    if k == 'pm_session':
        exp, M = _expected_frames(c)
        nf = len(exp)
        if isinstance(out, Err) or len(out) != len(c['ops']):
            return f'session did not run: {str(out)[:80]}'
        for t, (o, r) in enumerate(zip(c['ops'], out)):
            what = o['op']
            ai = o.get('ai', False)
            if what == 'pixel_array':
                msg = _oracle_stored(exp, M, list(range(1, nf + 1)), False, r)
            elif what == 'stored_frame':
                msg = _oracle_stored(exp, M, [o['f']], ai, r if isinstance(r, Err) else [r])
            elif what == 'frame':
                msg = _oracle_flags(c, exp, M, o['flags'], [o['f']], ai, r if isinstance(r, Err) else [r])
            else:
                fs = o['frames'] if o['frames'] is not None else (list(range(nf)) if ai else list(range(1, nf + 1)))
                msg = (_oracle_stored(exp, M, fs, ai, r) if what == 'stored_frames'
                       else _oracle_flags(c, exp, M, o['flags'], fs, ai, r))
            if msg is not None:
                before = [p['op'] for p in c['ops'][:t]]
                return (f'access {t + 1} ({what}, frames {o.get("frames", o.get("f"))}, as_index {ai}) on the '
                        f'image object (opened: {c["open"]}) after {before}: {msg}')
        return None
    if k == 'rwvm_apply':
        m, vals = c['map'], c['vals']
        if m['type'] == 'lut' and c['dtype'] in ('float32', 'float64'):
            return None if isinstance(out, Err) else 'LUT applied to a floating point array'
        if not vals:
            return None if isinstance(out, Err) else 'empty array accepted'
        n = len(m['lut']) if m['type'] == 'lut' else None
        last = m['first'] + n - 1 if n is not None else m['last']
        if min(vals) < m['first'] or max(vals) > last:
            return None if out == Err('ValueError') else f'value outside the mapped range gave {str(out)[:80]}'
        if m['type'] == 'lut':
            want = [F(m['lut'][v - m['first']]) for v in vals]
        else:
            want = [v * F(m['slope']) + F(m['intercept']) for v in vals]
        return None if out == want else f'mapping applied wrongly: {str(out)[:80]}'
    if k == 'pm_float_read':
        exp, M = _expected_frames(c)
        if isinstance(out, Err):
            return f'float parametric map cannot be read through the image interface ({c["api"]}): {out}'
        if out != [_to_words(e) for e in exp]:
            return 'float frames read through the image interface differ bit-wise'
        return None
    if k == 'pm_volume':
        if c.get('dup'):
            return None if isinstance(out, Err) else 'volume built although two planes share a position'
        if isinstance(out, Err):
            return f'volume of a regularly spaced map not returned: {out}'
        exp, M = _expected_frames(c)
        pos = c['src']['pos']
        if len(out) != len(pos):
            return f'{len(out)} slices for {len(pos)} planes'
        for p, vals in out:
            if p not in pos:
                return f'volume slice at {p} is not an input plane'
            e = exp[pos.index(p)]
            if c['rw']:
                m = c['maps']['items'][0][0] if c['maps']['shape'] == 'nested' else c['maps']['items'][0]
                if vals != _ref_mapping(m, e):
                    return f'volume slice at {p}: real world values differ'
            elif vals != _to_words(e):
                return f'volume slice at {p} differs from the input plane there'
        return None
    if k == 'pm_volume_sub':
        return _oracle_volume_sub(c, out)
    if k == 'rwvm_ctor':
        lut, sl, ic = c['has_lut'], c['has_slope'], c['has_intercept']
        if lut:
            good = not sl and not ic and not c['float_range'] and c['n_lut'] == c['last'] - c['first'] + 1
        else:
            good = sl and ic
        if good:
            return None if out == lut else f'mapping kind {out}'
        return None if isinstance(out, Err) else 'inconsistent mapping arguments accepted'
    if k in ('sc', 'sc_refuse'):
        good = _sc_supported(c)
        if not good:
            return None if isinstance(out, Err) else 'unsupported secondary capture input accepted'
        if isinstance(out, Err):
            return f'supported secondary capture refused: {out}'
        ba, bs, spp, mem, dec = out
        a = _np_array(c['dtype'], c['arr'], c['shape'])
        if dec != _to_words(a):
            return 'pydicom decodes a different array'
        if spp != (3 if a.ndim == 3 else 1) or bs != c['ba'] or ba != (16 if c['ba'] == 12 else c['ba']):
            return f'BitsAllocated/BitsStored/SamplesPerPixel = {ba}/{bs}/{spp}'
        if mem is not None:
            ref = np.packbits(a.reshape(-1), bitorder='little').tobytes() if c['dtype'] == 'bool' else a.tobytes()
            if len(ref) % 2:
                ref += b'\0'          # OB/OW values have even length: trailing null byte (pack_bits pads; D96 for 8-bit)
            if bytes(mem) != ref:
                return 'stored PixelData differs from the array bytes'
        return None
    return f'unknown kind {k}'


def _axis_valid(st, en, n, ai, start_bound):
    """documented contract of a start/end pair on an axis of n positions: one-based numbers are never 0,
    every index designates a position of the axis (end: one beyond), the selection is not empty"""
    for v in (st, en):
        if v == 0 and not ai:
            return False
    a, b = _py_index(st, ai), _py_index(en, ai)
    if a is not None and not (-n <= a <= (n - 1 if start_bound else max(n - 1, a))):
        return False
    if b is not None and not (-n <= b <= n):
        return False
    return len(range(n)[slice(a, b)]) > 0


def _oracle_volume_sub(c, out):
    import numpy as np
    N, R, C, M = _dims(c)
    a = c['args']
    ok = (_axis_valid(a['ss'], a['se'], N, a['ai'], False) and _axis_valid(a['rs'], a['re'], R, a['ai'], True)
          and _axis_valid(a['cs'], a['ce'], C, a['ai'], True))
    if c.get('dup') or M > 1:
        return None if isinstance(out, Err) else 'volume built although several frames share a position'
    if not ok:
        return None if isinstance(out, Err) else f'invalid sub-range {a} accepted: {str(out)[:80]}'
    if isinstance(out, Err):
        return f'valid sub-range {a} of a regularly spaced map refused: {out}'
    exp, _ = _expected_frames(c)
    pos = c['src']['pos']
    order = sorted(range(N), key=lambda i: -pos[i][2])          # slices by descending z
    stack = np.stack([exp[i] for i in order])
    sub = stack[slice(_py_index(a['ss'], a['ai']), _py_index(a['se'], a['ai'])),
                slice(_py_index(a['rs'], a['ai']), _py_index(a['re'], a['ai'])),
                slice(_py_index(a['cs'], a['ai']), _py_index(a['ce'], a['ai']))]
    wantpos = [pos[i] for i in order][slice(_py_index(a['ss'], a['ai']), _py_index(a['se'], a['ai']))]
    (nr, nc), sl = out
    if [nr, nc] != list(sub.shape[1:]) or len(sl) != sub.shape[0]:
        return f'sub-volume of shape {[len(sl), nr, nc]} for {list(sub.shape)}'
    m = None
    if c['rw']:
        m = c['maps']['items'][0][0] if c['maps']['shape'] == 'nested' else c['maps']['items'][0]
    for t, (p, vals) in enumerate(sl):
        if p != wantpos[t]:
            return f'slice {t} of the sub-volume sits at {p}, the requested slice at {wantpos[t]}'
        want = _ref_mapping(m, sub[t]) if m is not None else _to_words(sub[t])
        if vals != want:
            return f'slice {t} of the sub-volume differs from the input plane region'
    return None


def _oracle_stored(exp, M, fs, ai, out):
    """stored frames requested as fs (in that order): position p of the answer is frame fs[p]"""
    nf = len(exp)
    idx = [f if ai else f - 1 for f in fs]
    if any(i < 0 or i >= nf for i in idx):
        return None if out == Err('IndexError') else f'invalid frame number gave {str(out)[:80]}'
    if not fs:
        return None if isinstance(out, Err) else 'an empty request returned frames'
    if isinstance(out, Err):
        return f'reading stored frames {fs} failed: {out}'
    for p, (f, i) in enumerate(zip(out, idx)):
        if f != _to_words(exp[i]):
            return (f'position {p} of the answer (requested frame index {i}) differs from plane {i // M} '
                    f'mapping {i % M}')
    return None if len(out) == len(idx) else 'wrong number of frames'


def _oracle_flags(c, exp, M, flags, fs, ai, out):
    """get_frame(s) with the three transform flags on the frames fs (in that order)"""
    nf = len(exp)
    idx = [f if ai else f - 1 for f in fs]
    mode = _flags_expect(*flags)
    if idx and not 0 <= idx[0] < nf:
        return None if out == Err('IndexError') else f'invalid frame number gave {str(out)[:80]}'
    if mode == 'error':
        return None if isinstance(out, Err) else f'contradictory transform flags {flags} accepted'
    chans = [c['maps']['items']] if c['maps']['shape'] == 'flat' else c['maps']['items']
    want = []
    for i in (idx if idx else [0]):
        if i < 0 or i >= nf:
            want.append('index')
            break
        if mode == 'rw':
            ms = chans[i % M] if M > 1 else chans[0]
            s = c['sel']
            if isinstance(s, str):
                hit = [m for m in ms if m['label'] == s]
                m = hit[0] if hit else None
            else:
                m = ms[s] if -len(ms) <= s < len(ms) else None
            if m is None:
                want.append('selector')
                break
            r = _ref_mapping(m, exp[i])
        elif mode == 'stored':
            r = [F(int(v)) for v in exp[i].reshape(-1)]
        else:
            wc, ww = F(c['wc']), F(c['ww'])
            r = [min(F(1), max(F(0), (int(v) - (wc - ww / 2)) / (ww - 1))) for v in exp[i].reshape(-1)]
        want.append(r)
        if r == 'range':
            break
    last = want[-1]
    if last in ('index', 'selector'):
        return None if out == Err('IndexError') else f'expected IndexError ({last}), got {str(out)[:80]}'
    if last == 'range':
        return None if out == Err('ValueError') else f'value outside mapped range gave {str(out)[:80]}'
    if not idx:
        return None if isinstance(out, Err) else 'an empty request returned frames'
    if isinstance(out, Err):
        return f'frames {fs} with flags {flags} ({mode}) not returned: {out}'
    if out != want:
        bad = [p for p, (a, b) in enumerate(zip(out, want)) if a != b]
        return f'values differ for frames {fs} with flags {flags} ({mode}) at positions {bad or "(length)"}'
    return None


def _flags_expect(rw, md, voi):
    """documented meaning of apply_real_world_transform / apply_modality_transform / apply_voi_transform
    (True = required, False = off, None = if available) on an image that has real world value mappings,
    an identity rescale and a window; the real world mapping takes precedence over modality + VOI"""
    if rw is True:
        if md is True or voi is True:        # VOI needs the modality transform, which the mapping replaces
            return 'error'
        return 'rw'
    if rw is None and md is not True:
        if md is False:
            return 'rw' if voi is False else 'error'       # VOI depends on the modality transform
        return 'error' if voi is True else 'rw'            # required VOI is superseded by the mapping
    # real world mapping off (or modality transform demanded)
    if md is False:
        return 'stored' if voi is False else 'error'
    return 'stored' if voi is False else 'window'


def _sc_supported(c):
    """documented contract of SCImage, as a table (independent of the model)"""
    sh, dt, ba, pi, ts = c['shape'], c['dtype'], c['ba'], c['pi'], c['ts']
    if ts not in ('Implicit', 'Explicit', 'RLE', 'JLS', 'JLSNear', 'JPEGBase', 'J2K', 'J2KLossless'):
        return False
    if (dt, ba) not in (('bool', 1), ('uint8', 8), ('uint16', 16), ('uint16', 12)):
        return False
    flat = _flatten(c['arr'])
    if ba == 12 and max(flat) >= 4096:
        return False
    if ts in ('J2K', 'J2KLossless') and (sh[0] < 32 or len(sh) < 2 or sh[1] < 32):
        return False
    if len(sh) == 2:
        if pi not in ('MONOCHROME1', 'MONOCHROME2'):
            return False
        if ba == 1:
            return ts in ('Implicit', 'Explicit') and (sh[0] * sh[1]) % 8 == 0
        if ba == 12:
            return ts != 'RLE' and ts != 'JPEGBase'
        if ts == 'JPEGBase':
            return ba == 8
        return True
    if len(sh) == 3:
        if sh[2] != 3 or dt != 'uint8':
            return False
        want = {'JPEGBase': ['YBR_FULL_422'], 'J2K': ['YBR_ICT'], 'J2KLossless': ['YBR_RCT'],
                'JLS': ['RGB'], 'JLSNear': ['RGB']}.get(ts, ['RGB', 'YBR_FULL'])
        return pi in want
    return False


def nontrivial(c, out):
    if isinstance(out, Err):
        return True
    if 'arr' in c:
        return len(set(_flatten(c['arr']))) > 1
    return True


def shrink(c):
    if 'arr' not in c or c['kind'] in ('sc', 'sc_refuse'):
        return
    if c['kind'] == 'pm_session':
        for t in range(len(c['ops'])):
            if len(c['ops']) > 1:
                yield dict(c, ops=c['ops'][:t] + c['ops'][t + 1:])
        for t, o in enumerate(c['ops']):
            fs = o.get('frames')
            if fs and len(fs) > 4 and len(set(fs)) == len(fs):
                # keep the order pattern of a few of the requests, on consecutive numbers
                import itertools
                for size in (2, 3, 4):
                    for pos in itertools.islice(itertools.combinations(range(len(fs)), size), 60):
                        sub = [fs[q] for q in pos]
                        pat = [min(fs) + sorted(sub).index(v) for v in sub]
                        yield dict(c, ops=c['ops'][:t] + [dict(o, frames=pat)] + c['ops'][t + 1:])
            if fs and len(fs) > 1:
                for d in range(len(fs)):
                    yield dict(c, ops=c['ops'][:t] + [dict(o, frames=fs[:d] + fs[d + 1:])] + c['ops'][t + 1:])
        return
    sh = c['shape']
    if len(sh) >= 3 and sh[0] > 1 and c['src']['type'] in ('series',) and c.get('frames') is None:
        d = dict(c, shape=[sh[0] - 1] + sh[1:], arr=c['arr'][:-1])
        d['src'] = dict(c['src'], n=c['src']['n'] - 1, pos=c['src']['pos'][:-1])
        if c['pp'] is not None:
            d['pp'] = c['pp'][:-1]
        yield d
    if c['ts'] not in ('JLS',):
        ri = 0 if len(sh) == 2 else 1
        if len(sh) >= 2 and sh[ri] > 1:
            if len(sh) == 2:
                yield dict(c, shape=[sh[0] - 1, sh[1]], arr=c['arr'][:-1])
            else:
                yield dict(c, shape=[sh[0], sh[1] - 1] + sh[2:], arr=[p[:-1] for p in c['arr']])


def _finding_open(fid):
    return any(f.get('id') == fid and f.get('status') == 'open' for f in common.load_findings(PROPERTY))


FINDINGS = {
    # float32/float64 parametric maps cannot be read through the image interface
    'D35': lambda c: c.get('kind') == 'pm_float_read',
}


def extra_obligations(work):
    # T-int: the part of the model that is re-translated from the current source
    import translate_int
    return translate_int.obligations(work, translate_int.FOR['C19'])


if __name__ == '__main__':
    sys.exit(common.main(sys.modules[__name__]))
