"""C07 - lossless frame encoding round-trips and rejects what it cannot encode.

Implementation functions driven (real code from $VERIF_REPO/src):
  highdicom.frame.encode_frame, highdicom.frame.decode_frame
plus pydicom (dcmwrite/dcmread/pixel_array) as the independent one-frame reader.
Model: coq/theories/C07_Model.v; theorems: C07_Props.v; translator of the
literal validation tables of frame.py: harness/translate_c07.py (hook
`extra_obligations`).
"""
import io
import itertools
import json
import os
import random
import sys

sys.path.insert(0, os.path.dirname(os.path.abspath(__file__)))
import common
from common import Err, catch, zlit, zl

PROPERTY = 'C07'
PROPS_FILE = 'C07_Props.v'
COQ_IMPORTS = ['C07_Model']
TOL = None
ORACLE_PREMISES = [
    'JPEG-LS codec (pyjpegls, NEAR=0): decode(encode(x)) = x whenever encode does not raise',
    'JPEG 2000 lossless codec (not installed here): decode(encode(x)) = x',
    'pydicom YBR_FULL->RGB conversion applied by Dataset.pixel_array is not modelled (open finding D51)',
    'pydicom EncodeRunner.validate is re-modelled (check_pydicom/check_profile) and cross-checked, not proved about pydicom',
    'pydicom RLE Lossless encoder/decoder are re-modelled (rle_encode_frame/rle_decode_frame; round trip PROVED on the model) '
    'and compared byte for byte with the real codec on every run',
]
MODELLED = ('frame.encode_frame: whole validation cascade (tables regenerated from source by translate_c07.py), '
            'native encoders (pack_bits, little-endian words); frame.decode_frame: bit-packed path with frame '
            'offset, pydicom native path (option/length validation, words, unused-bit correction); '
            'pydicom EncodeRunner.validate for the encapsulated syntaxes; pydicom RLE Lossless encoder and decoder '
            '(bytes and decoded array model-compared); decode_frame as the whole entry point with arbitrary parameters '
            '(decode_frame_entry: frame index on every path, several native frames with planar configuration 0 / 1, '
            'another transfer syntax, encapsulate refusing an empty and padding an odd value). '
            'JPEG-LS / JPEG 2000 codecs are premises.')
STRATA = ['matrix_native', 'matrix_encaps', 'rt_native', 'rt_bits', 'rt_rle', 'rt_jls', 'nofit',
          'decode_malformed', 'rle_malformed', 'decode_params', 'decode_entry', 'bit_index', 'ybr_full']
NOT_EXECUTED = ['JPEG 2000 / JPEG 2000 Lossless encoding (pylibjpeg-openjpeg not installed): only the '
                'validation cascade in front of the codec is exercised']
RULE = ('matrix_*: cells of the parameter matrix (syntax x array shape x bits allocated x bits stored x '
        'photometric interpretation x pixel representation x planar configuration x dtype) with tiny frames, '
        'a covering core plus random one-to-three-parameters-wrong cells (thorough: every syntax x shape x '
        'bits allocated x PI x pixel representation x planar configuration cell); rt_*: valid combinations with random content '
        'incl. extremes of the stored range, all sizes 1..6 x 1..9 (1-bit: every size with rows*cols % 8 == 0); '
        'nofit: content outside the Bits Stored range; decode_malformed: truncated/extended byte strings; '
        'bit_index: multi-frame bit-packed streams, every residue of frame size mod 8, 1 or 3 samples; '
        'rt_rle also draws run-structured content (runs of 1..258 around the 128 limit, rows of 127..300 pixels); '
        'rle_malformed: truncated / extended RLE streams, header or body byte replaced; decode_params: decode_frame '
        'with one parameter different from the encoding call; decode_entry: encode, damage (cut / extend / empty), '
        'decode with one or two parameters different (rows, columns, samples, bits allocated / stored, pixel '
        'representation, planar configuration, photometric interpretation, transfer syntax, frame index) - '
        'oracle: same parameters at any index / the other native syntax must return the original. '
        'non-trivial = accepted frame with more than one distinct value, or a refusal; distinct by case hash')
EXHAUSTIVE = {'quick': False, 'thorough': False}

TS = {
    'impl': ('1.2.840.10008.1.2', 'TImplicit'),
    'expl': ('1.2.840.10008.1.2.1', 'TExplicit'),
    'rle': ('1.2.840.10008.1.2.5', 'TRLE'),
    'jls': ('1.2.840.10008.1.2.4.80', 'TJLS'),
    'jlsn': ('1.2.840.10008.1.2.4.81', 'TJLSNear'),
    'j2kl': ('1.2.840.10008.1.2.4.90', 'TJ2KL'),
    'j2k': ('1.2.840.10008.1.2.4.91', 'TJ2K'),
    'jpeg': ('1.2.840.10008.1.2.4.50', 'TJPEG'),
    'bigend': ('1.2.840.10008.1.2.2', 'TOther'),
    'jpegll': ('1.2.840.10008.1.2.4.70', 'TOther'),
    'deflate': ('1.2.840.10008.1.2.1.99', 'TOther'),
}
NATIVE = ('impl', 'expl')
PIS = {'MONOCHROME1': 'MONO1', 'MONOCHROME2': 'MONO2', 'PALETTE COLOR': 'PALETTE', 'RGB': 'RGB',
       'YBR_FULL': 'YBR_FULL', 'YBR_FULL_422': 'YBR_FULL_422', 'YBR_PARTIAL_420': 'YBR_PARTIAL_420',
       'YBR_ICT': 'YBR_ICT', 'YBR_RCT': 'YBR_RCT'}
MONO = ('MONOCHROME1', 'MONOCHROME2', 'PALETTE COLOR')
DT = {'bool': ('KBool', 1), 'uint8': ('KUInt', 1), 'uint16': ('KUInt', 2), 'int16': ('KInt', 2),
      'int8': ('KInt', 1), 'uint32': ('KUInt', 4), 'int32': ('KInt', 4)}


# --------------------------------------------------------------------------
# generators
# --------------------------------------------------------------------------
def _dt_range(dt):
    if dt == 'bool':
        return 0, 1
    kind, size = DT[dt]
    return (0, 2 ** (8 * size) - 1) if kind == 'KUInt' else (-2 ** (8 * size - 1), 2 ** (8 * size - 1) - 1)


def _stored_range(bs, pr):
    if bs < 1:
        return 0, 0
    return (-2 ** (bs - 1), 2 ** (bs - 1) - 1) if pr == 1 else (0, 2 ** bs - 1)


def _content(rng, n, lo, hi, mode=None):
    mode = mode or rng.choice(['random', 'random', 'extremes', 'lo', 'hi', 'smooth', 'edge'])
    if lo > hi:
        lo, hi = hi, lo
    if mode == 'random':
        return [rng.randint(lo, hi) for _ in range(n)]
    if mode == 'extremes':
        return [rng.choice([lo, hi]) for _ in range(n)]
    if mode == 'lo':
        return [lo] * n
    if mode == 'hi':
        return [hi] * n
    if mode == 'edge':
        pool = [v for v in (lo, lo + 1, -1, 0, 1, 127, 128, 255, 256, hi - 1, hi) if lo <= v <= hi]
        return [rng.choice(pool) for _ in range(n)]
    base = rng.randint(lo, hi)      # smooth
    out = []
    for _ in range(n):
        base = min(hi, max(lo, base + rng.randint(-2, 2)))
        out.append(base)
    return out


def _case(kind, ts, rows, cols, ndim3, shape2, ba, bs, pi, pr, pl, dt, data, **kw):
    c = dict(kind=kind, ts=ts, rows=rows, cols=cols, ndim3=ndim3, shape2=shape2, ba=ba, bs=bs,
             pi=pi, pr=pr, pl=pl, dtype=dt, data=data, **kw)
    if kind.startswith('rt_') and (len(data) + rows + bs) % 3 == 0:
        c['enum'] = True        # call with Enum members (valid values only occur in rt_* strata)
    return c


def _fit_data(rng, n, dt, bs, pr, mode=None):
    a, b = _dt_range(dt)
    c, d = _stored_range(bs, pr if pr in (0, 1) else 0)
    lo, hi = max(a, c), min(b, d)
    if lo > hi:
        lo, hi = max(a, 0), min(b, 1)
    return _content(rng, n, lo, hi, mode)


def _natural_dtype(ba, pr):
    if ba == 1:
        return 'bool'
    if ba == 8:
        return 'int8' if pr == 1 else 'uint8'
    if ba == 16:
        return 'int16' if pr == 1 else 'uint16'
    if ba == 32:
        return 'int32' if pr == 1 else 'uint32'
    return 'uint8'


def _matrix_cell(rng, ts, shape, ba, bs, pi, pr, pl, dt=None, size=None):
    ndim3, shape2 = shape
    s = shape2 if ndim3 else 1
    if size is None:
        if ts in ('j2k', 'j2kl') and rng.random() < 0.5:
            size = (32, 32)
        elif ts in ('jls', 'jlsn') and rng.random() < 0.5:
            size = (16, 16)
        else:
            size = rng.choice([(4, 4), (2, 4), (3, 5), (1, 8), (1, 1), (4, 6)])
    rows, cols = size
    if dt is None:
        dt = _natural_dtype(ba, pr) if rng.random() < 0.7 else rng.choice(list(DT))
    if ts == 'jpeg':
        dt = 'uint8'        # Pillow's own dtype errors are outside the property (lossy syntax)
    n = rows * cols * s
    mode = 'smooth' if ts in ('jls', 'jlsn') else None
    data = _fit_data(rng, n, dt, bs, pr, mode)
    kind = 'matrix_native' if ts in NATIVE else 'matrix_encaps'
    if pi == 'YBR_FULL' and ts in NATIVE + ('rle',) and ndim3 and shape2 == 3 and ba == 8 and pl == 0 \
            and pr == 0 and bs == 8 and dt == 'uint8':
        kind = 'ybr_full'
    return _case(kind, ts, rows, cols, ndim3, shape2, ba, bs, pi, pr, pl, dt, data)


SHAPES = [(False, 0), (True, 1), (True, 2), (True, 3), (True, 4)]
ALLOCS = [1, 8, 12, 16, 32]
PI_ALL = list(PIS) + ['BOGUS']


def _stored_choices(ba):
    return sorted({0, 1, 2, max(1, ba - 4), ba - 1, ba, ba + 1, 8, 9, 12, 16, 17} - {-1})


def gen_cases(rng, tier):
    cases = []
    nmat = {'quick': 1100, 'thorough': 20000, 'search': 12000}[tier]
    nrt = {'quick': 120, 'thorough': 3000, 'search': 1500}[tier]
    # ---- fixed core: every syntax x shape x alloc x PI (thorough: x pixel representation x planar
    #      configuration, i.e. the whole accept/reject matrix; bits stored, dtype and frame size sampled)
    for ts in TS:
        for shape in SHAPES:
            for ba in ALLOCS:
                for pi in PI_ALL:
                    if tier == 'thorough':
                        for pr in (0, 1, 2):
                            for pl in (None, 0, 1, 2):
                                bs = ba if rng.random() < 0.6 else rng.choice(_stored_choices(ba))
                                cases.append(_matrix_cell(rng, ts, shape, ba, bs, pi, pr, pl))
                        continue
                    if tier == 'quick' and rng.random() < 0.8:
                        continue
                    pr = rng.choice([0, 0, 1])
                    pl = rng.choice([None, 0, 0, 1]) if shape[0] else rng.choice([None, None, 0])
                    bs = ba if rng.random() < 0.6 else rng.choice(_stored_choices(ba))
                    cases.append(_matrix_cell(rng, ts, shape, ba, bs, pi, pr, pl))
    # ---- random cells, biased towards "one parameter wrong"
    tss = list(TS)
    for _ in range(nmat):
        ts = rng.choice(tss[:2] * 6 + tss[:8] * 2 + tss)
        colour = rng.random() < 0.45
        shape = (True, 3) if colour else (False, 0)
        ba = rng.choice([8, 8, 16, 16, 1])
        pr = 0
        pl = 0 if colour else None
        pi = (rng.choice(['RGB', 'RGB', 'YBR_FULL', 'YBR_RCT', 'YBR_ICT', 'YBR_FULL_422']) if colour
              else rng.choice(MONO))
        bs = ba
        dt = None
        for _k in range(rng.choice([0, 1, 1, 2, 3])):
            w = rng.randrange(8)
            if w == 0:
                shape = rng.choice(SHAPES)
            elif w == 1:
                ba = rng.choice(ALLOCS)
                bs = ba
            elif w == 2:
                bs = rng.choice(_stored_choices(ba))
            elif w == 3:
                pi = rng.choice(PI_ALL)
            elif w == 4:
                pr = rng.choice([0, 1, 1, 2])
            elif w == 5:
                pl = rng.choice([None, 0, 1, 2])
            elif w == 6:
                dt = rng.choice(list(DT))
            else:
                ts = rng.choice(tss)
        cases.append(_matrix_cell(rng, ts, shape, ba, bs, pi, pr, pl, dt))
    # ---- the open finding D51 is drawn in every run
    for ts in ('expl', 'impl', 'rle'):
        cases.append(_matrix_cell(rng, ts, (True, 3), 8, 8, 'YBR_FULL', 0, 0, 'uint8', (2, 4)))
    # ---- valid native word frames: all sizes, all dtypes
    sizes = [(r, c) for r in range(1, 7) for c in range(1, 10)]
    for i in range(nrt):
        rows, cols = sizes[i % len(sizes)] if i < 2 * len(sizes) else (rng.randint(1, 12), rng.randint(1, 12))
        dt = rng.choice(['uint8', 'uint16', 'int16', 'int8', 'uint32', 'int32', 'bool'])
        ba = 8 * DT[dt][1]
        pr = 1 if DT[dt][0] == 'KInt' else 0
        if rng.random() < 0.15:
            pr = 1 - pr               # unsigned array, signed representation (values still fit)
        bs = ba if rng.random() < 0.5 else rng.randint(1, ba)
        colour = rng.random() < 0.35
        s = 3 if colour else 1
        pi = 'RGB' if colour else rng.choice(MONO)
        data = _fit_data(rng, rows * cols * s, dt, bs, pr)
        cases.append(_case('rt_native', rng.choice(NATIVE), rows, cols, colour, 3 if colour else 0, ba, bs,
                           pi, pr, 0 if colour else rng.choice([None, None, 0, 1]), dt, data))
    # ---- valid bit-packed frames: every size with rows*cols % 8 == 0
    bsizes = [(r, c) for r in range(1, 13) for c in range(1, 17) if (r * c) % 8 == 0]
    for i in range(max(40, nrt // 2)):
        rows, cols = bsizes[i % len(bsizes)]
        dt = rng.choice(['bool', 'bool', 'uint8', 'uint16', 'int16'])
        data = _content(rng, rows * cols, 0, 1, rng.choice(['random', 'random', 'lo', 'hi', 'extremes']))
        if i % 4 == 3:      # bit-packed colour frame (D52): 3 samples, interleaved
            data = _content(rng, rows * cols * 3, 0, 1, rng.choice(['random', 'random', 'extremes']))
            cases.append(_case('rt_bits', rng.choice(NATIVE), rows, cols, True, 3, 1, 1, 'RGB', 0, 0, dt, data))
            continue
        cases.append(_case('rt_bits', rng.choice(NATIVE), rows, cols, False, 0, 1, 1, rng.choice(MONO), 0,
                           None, dt, data))
    # ---- valid RLE / JPEG-LS frames
    for i in range(nrt):
        ts = 'rle' if i % 2 == 0 else rng.choice(['jls', 'jls', 'jlsn'])
        ba = rng.choice([8, 16])
        colour = rng.random() < 0.4
        s = 3 if colour else 1
        pr = 1 if (not colour and ts == 'rle' and rng.random() < 0.4) else 0
        if ts == 'rle':
            rows, cols = (rng.randint(1, 9), rng.randint(1, 9)) if i >= 2 * len(sizes) else sizes[(i // 2) % len(sizes)]
            bs = ba if rng.random() < 0.5 else rng.randint(max(1, ba - 7), ba)   # 16 allocated: > 8 stored (D70)
        else:
            rows, cols = rng.choice([(16, 16), (16, 17), (20, 13), (12, 24)])
            bs = ba if rng.random() < 0.5 else rng.randint(max(2, ba - 7), ba)
        wide = rng.random() < 0.15
        dt = {(8, 0): 'uint8', (16, 0): 'uint16', (8, 1): 'int8', (16, 1): 'int16'}[(ba, pr)]
        if wide and pr == 0 and ba == 8:
            dt = 'uint16'
        pi = 'RGB' if colour else rng.choice(MONO if pr == 0 else MONO[:2])
        if ts == 'jlsn' and pi == 'PALETTE COLOR':
            pi = 'MONOCHROME2'
        mode = rng.choice(['smooth', 'smooth', 'lo', 'hi', 'extremes', 'edge']) if ts != 'rle' else None
        data = _fit_data(rng, rows * cols * s, dt, bs, pr, mode)
        pl = (rng.choice([0, 1]) if ts == 'rle' else 0) if colour else None
        cases.append(_case('rt_rle' if ts == 'rle' else 'rt_jls', ts, rows, cols, colour, 3 if colour else 0,
                           ba, bs, pi, pr, pl, dt, data))
    # ---- content outside the stored range
    for _ in range(max(30, nrt // 3)):
        ts = rng.choice(['expl', 'impl', 'rle', 'jls', 'expl'])
        dt = rng.choice(['uint8', 'uint16', 'int16'])
        ba = 8 * DT[dt][1]
        pr = 1 if dt == 'int16' and ts in NATIVE + ('rle',) else 0
        if dt == 'int16' and pr == 0:
            dt = 'uint16'
        if ts in NATIVE and rng.random() < 0.3:
            pr = 1 - pr
        bs = rng.randint(2, ba - 1)
        rows, cols = (16, 16) if ts == 'jls' else (rng.randint(1, 5), rng.randint(1, 5))
        a, b = _dt_range(dt)
        data = _content(rng, rows * cols, a, b, rng.choice(['random', 'extremes', 'edge']))
        if ts in NATIVE and rng.random() < 0.25:      # 1-bit frame with a 2 in it
            ba, bs, rows, cols = 1, 1, 2, 4
            data = [rng.choice([0, 1]) for _ in range(8)]
            data[rng.randrange(8)] = rng.choice([2, 255, -1] if dt == 'int16' else [2, 255])
        cases.append(_case('nofit', ts, rows, cols, False, 0, ba, bs, 'MONOCHROME2', pr, None, dt, data))
    # 1-bit JPEG 2000 frames given as integers: only 0/1 content passes the cascade
    for top in (1, 2, 2, 3, 255):
        data = [rng.choice([0, 1]) for _ in range(32 * 32)]
        data[rng.randrange(len(data))] = top
        cases.append(_case('nofit', 'j2kl', 32, 32, False, 0, 1, 1, 'MONOCHROME2', 0, None,
                           rng.choice(['uint8', 'uint16']), data))
    # ---- decode_frame on damaged byte strings (native)
    for _ in range(max(40, nrt // 3)):
        dt = rng.choice(['uint8', 'uint16', 'int16', 'bool'])
        ba = 1 if dt == 'bool' else 8 * DT[dt][1]
        rows, cols = (rng.choice([(1, 8), (2, 4), (4, 4), (3, 8)]) if ba == 1
                      else (rng.randint(1, 4), rng.randint(1, 4)))
        colour = ba != 1 and rng.random() < 0.3
        s = 3 if colour else 1
        pr = 1 if dt == 'int16' else 0
        bs = ba if rng.random() < 0.6 else rng.randint(1, ba)
        data = _fit_data(rng, rows * cols * s, dt, bs, pr)
        c = _case('decode_malformed', rng.choice(NATIVE), rows, cols, colour, 3 if colour else 0, ba, bs,
                  'RGB' if colour else 'MONOCHROME2', pr, 0 if colour else None, dt, data)
        c['cut'] = rng.choice([-1, -1, -2, -3, 1, 2, 0, -rng.randint(1, 6)])
        c['index'] = 0 if ba != 1 else rng.choice([0, 0, 1, 2])
        cases.append(c)
    # ---- frame i of a bit-packed multi-frame stream, every residue mod 8
    for i in range(max(48, nrt // 2)):
        rows, cols = rng.randint(1, 6), rng.randint(1, 7)
        if i < 24:
            rows, cols = [(1, 1), (1, 2), (1, 3), (2, 2), (1, 5), (2, 3), (1, 7), (2, 4), (3, 3), (2, 5),
                          (1, 11), (3, 4), (1, 13), (2, 7), (3, 5), (4, 4), (1, 17), (3, 6), (1, 19), (4, 5),
                          (3, 7), (2, 11), (1, 23), (4, 6)][i]
        nf = rng.randint(1, 9)
        smp = 3 if i % 3 == 2 else 1        # three samples per pixel: frame size rows*cols*3 bits
        frames = [_content(rng, rows * cols * smp, 0, 1, rng.choice(['random', 'random', 'lo', 'hi']))
                  for _ in range(nf)]
        cases.append({'kind': 'bit_index', 'rows': rows, 'cols': cols, 'frames': frames, 'samples': smp,
                      'index': rng.choice([0, nf - 1, rng.randrange(nf)]), 'ts': rng.choice(NATIVE)})
    # ---- RLE Lossless with run-structured content: replicate / literal runs around the 128-byte limit,
    #      rows wider than 128 pixels (every row is coded separately), two-byte samples, three planes
    runlens = [1, 1, 2, 3, 5, 126, 127, 128, 129, 130, 255, 256, 257, 258]
    widths = [1, 2, 127, 128, 129, 130, 200, 255, 256, 257, 258, 300]
    for i in range({'quick': 30, 'thorough': 120, 'search': 60}[tier]):      # (the model decoder is quadratic)
        colour = i % 5 == 4
        s = 3 if colour else 1
        ba = 16 if i % 3 == 2 else 8
        pr = 1 if (not colour and i % 4 == 1) else 0
        bs = ba if rng.random() < 0.6 else rng.randint(max(1, ba - 7), ba)
        dt = {(8, 0): 'uint8', (16, 0): 'uint16', (8, 1): 'int8', (16, 1): 'int16'}[(ba, pr)]
        cols = widths[i % len(widths)] if not colour else rng.choice([3, 64, 129, 130])
        rows = rng.choice([1, 2, 3]) if cols * s * (ba // 8) < 300 else 1
        lo, hi = _stored_range(bs, pr)
        pool = [lo, hi, 0, min(hi, 1), min(hi, 255), rng.randint(lo, hi), rng.randint(lo, hi)]
        if ba == 16 and rng.random() < 0.5:      # equal low bytes, differing high bytes (and vice versa)
            pool = [v for v in (0, 256, 512, 513, 1, 257) if lo <= v <= hi] or pool
        px = []
        while len(px) < rows * cols:
            px += [[rng.choice(pool) for _ in range(s)]] * rng.choice(runlens)
        data = [v for q in px[:rows * cols] for v in q]
        cases.append(_case('rt_rle', 'rle', rows, cols, colour, 3 if colour else 0, ba, bs,
                           'RGB' if colour else rng.choice(MONO if pr == 0 else MONO[:2]), pr,
                           rng.choice([0, 1]) if colour else None, dt, data))
    # ---- decode_frame on damaged RLE streams (truncated, extended, header or body byte replaced)
    for i in range({'quick': 40, 'thorough': 600, 'search': 300}[tier]):
        colour = rng.random() < 0.3
        s = 3 if colour else 1
        ba = rng.choice([8, 16])
        pr = 0 if colour else rng.choice([0, 0, 1])
        dt = {(8, 0): 'uint8', (16, 0): 'uint16', (8, 1): 'int8', (16, 1): 'int16'}[(ba, pr)]
        rows, cols = rng.randint(1, 4), rng.randint(1, 8)
        lo, hi = _stored_range(ba, pr)
        data = [rng.choice([lo, hi, 0, 1, rng.randint(lo, hi)]) for _ in range(rows * cols * s)]
        c = _case('rle_malformed', 'rle', rows, cols, colour, 3 if colour else 0, ba, ba,
                  'RGB' if colour else 'MONOCHROME2', pr, 0 if colour else None, dt, data)
        mode = rng.choice(['cut', 'cut', 'ext', 'hdr', 'body', 'body'])
        c['cut'], c['pos'], c['val'] = 0, -1, 0
        if mode == 'cut':
            c['cut'] = -rng.choice([1, 1, 2, 3, 4, 5, rng.randint(1, 80)])
        elif mode == 'ext':
            c['cut'] = rng.randint(1, 5)
        elif mode == 'hdr':
            c['pos'], c['val'] = rng.choice([0, 0, 4, 8, 1, 5]), rng.choice([0, 1, 2, 3, 6, 16, 64, 66, 200])
        else:
            c['pos'], c['val'] = rng.randint(64, 400), rng.choice([0, 1, 2, 126, 127, 128, 129, 130, 254, 255])
        cases.append(c)
    # ---- decode_frame with ONE parameter different from the encoding parameters (entry-point validation:
    #      enum conversions, planar configuration, Bits Stored, frame size; sign / unused-bit re-interpretation)
    perts = ['pixrep2', 'pi', 'plNone', 'pl2', 'pl1', 'bs0', 'bs+', 'bs-', 'rows+', 'rows-', 'pr1']
    for i in range({'quick': 66, 'thorough': 900, 'search': 400}[tier]):
        ts = ['expl', 'impl', 'rle'][i % 3]
        pert = perts[(i // 3) % len(perts)]
        colour = rng.random() < 0.45
        s = 3 if colour else 1
        ba = rng.choice([8, 16] if ts == 'rle' else [1, 8, 16])
        dt = {1: 'uint8', 8: 'uint8', 16: 'uint16'}[ba]
        rows, cols = rng.choice([(2, 4), (1, 8), (3, 8), (2, 8)])
        if pert == 'rows-' and (rows == 1 or (colour and ba != 1 and ts != 'rle')):
            pert = 'rows+'
        data = [rng.choice([0, 2 ** ba - 1, rng.randint(0, 2 ** ba - 1)]) for _ in range(rows * cols * s)]
        c = _case('decode_params', ts, rows, cols, colour, 3 if colour else 0, ba, ba,
                  'RGB' if colour else 'MONOCHROME2', 0, 0 if colour else None, dt, data)
        q = {'rows': rows, 'bs': ba, 'pi': c['pi'], 'pr': 0, 'pl': c['pl']}
        if pert == 'pixrep2':
            q['pr'] = 2
        elif pert == 'pi':
            q['pi'] = 'BOGUS'
        elif pert == 'plNone':
            q['pl'] = None
        elif pert == 'pl2':
            q['pl'] = 2
        elif pert == 'pl1':
            q['pl'] = 1
        elif pert == 'bs0':
            q['bs'] = 0
        elif pert == 'bs+':
            q['bs'] = ba + 1
        elif pert == 'bs-':
            q['bs'] = max(1, ba - rng.randint(1, 7))
        elif pert == 'rows+':
            q['rows'] = rows + 1
        elif pert == 'rows-':
            q['rows'] = rows - 1
        elif pert == 'pr1':
            q['pr'] = 1
        c['q'] = q
        cases.append(c)
    # ---- decode_frame as the WHOLE entry point: encode with p, damage the bytes, decode with q (one or two
    #      parameters different, the transfer syntax and the frame index included): several native colour frames
    #      with planar configuration 0 / 1, index on every path, odd / empty encapsulated values
    eperts = ['same', 'index', 'rows-', 'rows-pl1', 'pl1', 'ts', 'tsx', 'cut', 'empty', 'spp', 'ba', 'bs-', 'pr1',
              'plNone', 'pixrep2', 'pi', 'cols', 'ext']
    for i in range({'quick': 90, 'thorough': 1200, 'search': 500}[tier]):
        ts = ['expl', 'rle', 'impl'][i % 3]
        pert = eperts[(i // 3) % len(eperts)]
        colour = rng.random() < 0.5 or pert in ('rows-pl1', 'pl1', 'plNone')
        s = 3 if colour else 1
        ba = rng.choice([8, 16] if ts == 'rle' else [1, 8, 16, 32])
        if pert in ('rows-pl1', 'pl1', 'ba', 'bs-', 'pr1') and ba == 1:
            ba = 8
        dt = {1: rng.choice(['uint8', 'bool']), 8: 'uint8', 16: 'uint16', 32: 'uint32'}[ba]
        rows, cols = rng.choice([(2, 4), (1, 8), (3, 8), (2, 8), (4, 2), (6, 4)])
        pr = 0
        bs = ba if (ba == 1 or rng.random() < 0.6) else rng.randint(max(1, ba - 7), ba)
        data = _fit_data(rng, rows * cols * s, dt, bs, pr)
        c = _case('decode_entry', ts, rows, cols, colour, 3 if colour else 0, ba, bs,
                  'RGB' if colour else rng.choice(MONO), pr, (rng.choice([0, 1]) if ts == 'rle' else 0) if colour
                  else None, dt, data)
        q, cut, index = {}, 0, 0
        for pp in [pert] + ([rng.choice(eperts)] if rng.random() < 0.25 else []):
            if pp == 'index':
                index = rng.choice([1, 2, 3, 5, 7, 11])
            elif pp == 'rows-':
                divs = [r for r in range(1, rows) if rows % r == 0 or rng.random() < 0.3]
                q['rows'] = rng.choice(divs) if divs else rows + 1
            elif pp == 'rows-pl1':
                divs = [r for r in range(1, rows) if rows % r == 0]
                q['rows'] = rng.choice(divs) if divs else rows
                q['pl'] = 1
            elif pp == 'pl1':
                q['pl'] = 1 if c['pl'] != 1 else 0
            elif pp == 'ts':
                q['ts'] = {'expl': 'impl', 'impl': 'expl', 'rle': 'rle'}[ts]
            elif pp == 'tsx':
                q['ts'] = {'expl': 'rle', 'impl': 'rle', 'rle': rng.choice(NATIVE)}[ts]
            elif pp == 'cut':
                cut = -rng.choice([1, 1, 2, 3, 5, rng.randint(1, 70)])
            elif pp == 'empty':
                cut = -100000
            elif pp == 'ext':
                cut = rng.choice([1, 2, 3, min(255, rows * cols * s * max(1, ba // 8))])   # damage appends bytes 1..cut
            elif pp == 'spp' and colour:
                q['ndim3'], q['shape2'], q['pi'], q['pl'] = False, 0, 'MONOCHROME2', None
            elif pp == 'ba' and ba in (8, 16):
                q['ba'] = 24 - ba
                q['bs'] = min(bs, q['ba'])
            elif pp == 'bs-':
                q['bs'] = max(1, bs - rng.randint(1, 7))
            elif pp == 'pr1':
                q['pr'] = 1
            elif pp == 'plNone':
                q['pl'] = None
            elif pp == 'pixrep2':
                q['pr'] = 2
            elif pp == 'pi':
                q['pi'] = 'BOGUS'
            elif pp == 'cols':
                q['cols'] = rng.choice([cols + 1, max(1, cols // 2)])
        c['q'], c['cut'], c['index'] = q, cut, index
        cases.append(c)
    # ---- the same values in another memory layout (the array VALUE is what must round-trip), and a
    #      preceding encode/decode of the same format with the other pixel representation (history)
    rng2 = random.Random(rng.random())
    for c in cases:
        if c['kind'].startswith('rt_'):
            if rng2.random() < 0.4:
                c['layout'] = rng2.choice(['F', 'T', 'strided', 'neg', 'be'])
            if rng2.random() < 0.3 and c['ba'] != 1:
                c['warm'] = True
    return cases


# --------------------------------------------------------------------------
# implementation side
# --------------------------------------------------------------------------
def _array(c):
    import numpy as np
    shape = (c['rows'], c['cols'], c['shape2']) if c['ndim3'] else (c['rows'], c['cols'])
    a = np.array(c['data'], dtype=np.int64).astype(c['dtype']).reshape(shape)
    lay = c.get('layout')
    if lay == 'F':
        a = np.asfortranarray(a)
    elif lay == 'T':
        ax = (1, 0, 2) if a.ndim == 3 else (1, 0)
        a = np.ascontiguousarray(a.transpose(ax)).transpose(ax)
    elif lay == 'strided':
        big = np.zeros((2 * shape[0], 3 * shape[1]) + shape[2:], dtype=a.dtype)
        big[::2, ::3] = a
        a = big[::2, ::3]
    elif lay == 'neg':
        a = np.ascontiguousarray(a[::-1, ::-1])[::-1, ::-1]
    elif lay == 'be':
        a = a.astype(a.dtype.newbyteorder('>'))
    return a


def _dec_val(fn):
    r = catch(fn)
    if isinstance(r, Err):
        return r
    return [list(r.shape), [int(x) for x in r.reshape(-1).tolist()]]


def _codec_refusal(e):
    """RuntimeError / ModuleNotFoundError raised by the codec layer AFTER all validation passed."""
    s = str(e)
    return (isinstance(e, ModuleNotFoundError) or
            (isinstance(e, RuntimeError) and ('raised by all available plugins' in s
                                              or 'missing dependencies' in s)))


def _pydicom_one_frame(c, value):
    """Independent reader: write a one-frame file with pydicom, read it back, pixel_array."""
    import pydicom
    from pydicom.dataset import Dataset, FileMetaDataset
    from pydicom.encaps import encapsulate
    from pydicom.uid import UID
    uid = UID(TS[c['ts']][0])
    ds = Dataset()
    ds.file_meta = FileMetaDataset()
    ds.file_meta.TransferSyntaxUID = uid
    ds.file_meta.MediaStorageSOPClassUID = UID('1.2.840.10008.5.1.4.1.1.7')
    ds.file_meta.MediaStorageSOPInstanceUID = UID('1.2.3.4')
    ds.SOPClassUID = ds.file_meta.MediaStorageSOPClassUID
    ds.SOPInstanceUID = ds.file_meta.MediaStorageSOPInstanceUID
    s = c['shape2'] if c['ndim3'] else 1
    ds.Rows, ds.Columns, ds.SamplesPerPixel = c['rows'], c['cols'], s
    ds.BitsAllocated, ds.BitsStored, ds.HighBit = c['ba'], c['bs'], c['bs'] - 1
    ds.PixelRepresentation = c['pr']
    ds.PhotometricInterpretation = c['pi']
    if s > 1:
        ds.PlanarConfiguration = c['pl']
    if uid.is_encapsulated:
        ds.PixelData = encapsulate([value])
        ds['PixelData'].VR = 'OB'
    else:
        ds.PixelData = value + (b'\x00' if len(value) % 2 else b'')
        ds['PixelData'].VR = 'OB' if c['ba'] <= 8 else 'OW'
    buf = io.BytesIO()
    pydicom.dcmwrite(buf, ds, implicit_vr=(c['ts'] == 'impl'), little_endian=True, enforce_file_format=True)
    buf.seek(0)
    return pydicom.dcmread(buf).pixel_array


_LAST = {}


def _observe(c):
    """Run the real API on one case; returns dict(enc=..., dec=..., pyd=..., out=model-compared value)."""
    import warnings
    import logging
    logging.disable(logging.CRITICAL)
    warnings.simplefilter('ignore')
    from highdicom import frame as hf
    k = c['kind']
    if k == 'bit_index':
        import numpy as np
        from pydicom.pixels.utils import pack_bits
        smp = c.get('samples', 1)
        n = c['rows'] * c['cols'] * smp
        flat = np.array([b for f in c['frames'] for b in f], dtype=np.uint8)
        stream = pack_bits(flat, pad=False)
        i = c['index']
        a, b = (i * n) // 8, ((i + 1) * n + 7) // 8
        dec = _dec_val(lambda: hf.decode_frame(stream[a:b], TS[c['ts']][0], c['rows'], c['cols'], smp, 1, 1,
                                               'MONOCHROME2' if smp == 1 else 'RGB', 0,
                                               None if smp == 1 else 0, index=i))
        return {'out': dec, 'dec': dec}
    arr = _array(c)
    uid = TS[c['ts']][0]
    s = c['shape2'] if c['ndim3'] else 1
    codec_refused = [False]
    if c.get('warm'):
        # history: the same image format was just encoded and decoded with the OTHER pixel representation
        import numpy as np
        try:
            other = np.dtype(('u' if c['pr'] else 'i') + str(max(1, c['ba'] // 8)))
            a2 = np.zeros(arr.shape, dtype=other)
            a2.reshape(-1)[::2] = 1
            v2 = hf.encode_frame(a2, uid, c['ba'], c['bs'], c['pi'], 1 - c['pr'], c['pl'])
            hf.decode_frame(v2, uid, c['rows'], c['cols'], s, c['ba'], c['bs'], c['pi'], 1 - c['pr'], c['pl'])
        except Exception:      # noqa  (the warm-up itself is not under test)
            pass

    pi_a, pr_a, pl_a = c['pi'], c['pr'], c['pl']
    if c.get('enum'):
        # the same call with Enum members instead of plain values
        from highdicom.enum import (PhotometricInterpretationValues, PixelRepresentationValues,
                                    PlanarConfigurationValues)
        pi_a = PhotometricInterpretationValues(pi_a)
        pr_a = PixelRepresentationValues(pr_a)
        pl_a = None if pl_a is None else PlanarConfigurationValues(pl_a)

    def enc():
        try:
            return hf.encode_frame(arr, uid, c['ba'], c['bs'], pi_a, pr_a, pl_a)
        except (RuntimeError, ModuleNotFoundError) as e:
            if _codec_refusal(e):
                codec_refused[0] = True
                return None
            raise
    try:
        value = catch(enc)
    except ModuleNotFoundError:
        value = Err('ModuleNotFoundError')
    obs = {'enc': value, 'codec_refused': codec_refused[0], 'dec': None, 'pyd': None}
    if isinstance(value, Err):
        obs['out'] = value
        return obs
    if codec_refused[0]:
        obs['out'] = 'validated'
        return obs

    def dec(v, index=0):
        return _dec_val(lambda: hf.decode_frame(v, uid, c['rows'], c['cols'], s, c['ba'], c['bs'], pi_a,
                                                pr_a, pl_a, index=index))
    if k == 'decode_malformed':
        cut = c['cut']
        v = value[:cut] if cut < 0 else value + bytes(range(1, cut + 1))
        obs['dec'] = dec(v, c.get('index', 0))
        obs['out'] = obs['dec']
        return obs
    if k == 'decode_params':
        q = c['q']
        obs['dec'] = _dec_val(lambda: hf.decode_frame(value, uid, q['rows'], c['cols'], s, c['ba'], q['bs'], q['pi'],
                                                      q['pr'], q['pl']))
        obs['out'] = obs['dec']
        return obs
    if k == 'decode_entry':
        q = dict(c, **c['q'])
        cut = c['cut']
        v = value[:cut] if cut < 0 else value + bytes(range(1, cut + 1))
        qs = q['shape2'] if q['ndim3'] else 1
        obs['dec'] = _dec_val(lambda: hf.decode_frame(v, TS[q['ts']][0], q['rows'], q['cols'], qs, q['ba'], q['bs'],
                                                      q['pi'], q['pr'], q['pl'], index=c['index']))
        d = obs['dec']
        if (not isinstance(d, Err)) and q['pi'] == 'YBR_FULL' and qs == 3 and q['ba'] != 1:
            d = 'YBR_FULL->RGB'
        obs['out'] = d
        return obs
    if k == 'rle_malformed':
        cut = c['cut']
        v = value[:cut] if cut < 0 else value + bytes(range(1, cut + 1))
        if c['pos'] >= 0 and len(v) > 0:
            i = c['pos'] % len(v)
            v = v[:i] + bytes([c['val']]) + v[i + 1:]
        obs['dec'] = dec(v)
        obs['out'] = obs['dec']
        return obs
    obs['dec'] = dec(value)
    try:
        obs['pyd'] = _dec_val(lambda: _pydicom_one_frame(c, value))
    except Exception as e:      # noqa  (anything the reader raises is "not decodable")
        obs['pyd'] = Err(type(e).__name__)
    if c['ts'] in NATIVE + ('rle',):
        # native and RLE Lossless: the produced bytes and decode_frame's result are model-compared
        d = obs['dec']
        if (not isinstance(d, Err)) and c['pi'] == 'YBR_FULL' and s == 3 and c['ba'] != 1:
            d = 'YBR_FULL->RGB'
        obs['out'] = [list(value), d]
    else:
        obs['out'] = 'validated'
    return obs


def run_impl(c):
    obs = _observe(c)
    _LAST['key'] = common.case_key(c)
    _LAST['obs'] = obs
    return obs['out']


# --------------------------------------------------------------------------
# model side
# --------------------------------------------------------------------------
def _params(c):
    pi = f"(Some {PIS[c['pi']]})" if c['pi'] in PIS else 'None'
    pl = 'None' if c['pl'] is None else f"(Some {zlit(c['pl'])})"
    dk, ds = DT[c['dtype']]
    return (f"(mkP {TS[c['ts']][1]} {c['rows']} {c['cols']} {'true' if c['ndim3'] else 'false'} "
            f"{c['shape2']} {zlit(c['ba'])} {zlit(c['bs'])} {pi} {zlit(c['pr'])} {pl} {dk} {ds})")


def _wrapped(c):
    """The values the array really holds (int64 -> dtype cast wraps)."""
    return [int(x) for x in _array(c).reshape(-1).tolist()]


def coq_term(c):
    k = c['kind']
    if k == 'bit_index':
        fr = '[' + '; '.join(zl(f) for f in c['frames']) + ']'
        if c.get('samples', 1) != 1:
            return f"(run_bit_index_s {c['rows']} {c['cols']} {c['samples']} {c['index']} {fr})"
        return f"(run_bit_index {c['rows']} {c['cols']} {c['index']} {fr})"
    vals = _wrapped(c)
    if k == 'decode_malformed':
        # the byte string is produced by the model's own encoder and damaged in the same way
        return f"(run_decode_damaged {_params(c)} {c.get('index', 0)} {zlit(c['cut'])} {zl(vals)})"
    if k == 'decode_params':
        q = dict(c, rows=c['q']['rows'], bs=c['q']['bs'], pi=c['q']['pi'], pr=c['q']['pr'], pl=c['q']['pl'])
        return f"(run_decode_params {_params(c)} {_params(q)} {zl(vals)})"
    if k == 'decode_entry':
        q = dict(c, **c['q'])
        return f"(run_decode_entry {_params(c)} {_params(q)} {zlit(c['index'])} {zlit(c['cut'])} {zl(vals)})"
    if k == 'rle_malformed':
        return f"(run_rle_damaged {_params(c)} {zlit(c['cut'])} {zlit(c['pos'])} {zlit(c['val'])} {zl(vals)})"
    if c['ts'] in NATIVE:
        return f"(run_native {_params(c)} {zl(vals)})"
    if c['ts'] == 'rle':
        return f"(run_rle {_params(c)} {zl(vals)})"
    fn = 'run_cascade' if c['ts'] in ('j2k', 'j2kl') else 'run_validate'
    return f"({fn} {_params(c)} {zlit(min(vals))} {zlit(max(vals))})"


# --------------------------------------------------------------------------
# independent oracle
# --------------------------------------------------------------------------
def _values_fit(c, vals):
    if c['pr'] not in (0, 1) or c['bs'] < 1:
        return False
    lo, hi = _stored_range(c['bs'], c['pr'])
    return all(lo <= v <= hi for v in vals)


def _representable(c):
    """What the chosen syntax (and this encoder: monochrome or interleaved RGB input) can represent;
    PS3.5 section 8 / PS3.3 C.7.6.3, written independently of the code and of the Coq model."""
    s = c['shape2'] if c['ndim3'] else 1
    ts, ba, bs, pi, pr, pl = c['ts'], c['ba'], c['bs'], c['pi'], c['pr'], c['pl']
    if pr not in (0, 1) or not 1 <= bs <= ba or c['rows'] < 1 or c['cols'] < 1:
        return False
    mono = (not c['ndim3'] or ts in NATIVE) and s == 1 and pi in MONO and (pi != 'PALETTE COLOR' or pr == 0
                                                                         or ts in NATIVE)

    def colour(allowed):
        return c['ndim3'] and s == 3 and pi in allowed and pr == 0 and pl in (0, 1)
    if ts in NATIVE:
        if ba == 1:
            return ((c['rows'] * c['cols'] * s) % 8 == 0
                    and ((s == 1 and pi in MONO) or (c['ndim3'] and s == 3 and pi == 'RGB' and pl == 0)))
        return (ba in (8, 16, 32, 64) and DT[c['dtype']][1] * 8 == ba
                and (mono or (c['ndim3'] and s == 3 and pi == 'RGB' and pl == 0)))
    if ts == 'rle':
        return ba in (8, 16) and bs <= 16 and (mono or colour(['RGB']))
    if ts in ('jls', 'jlsn'):
        return ba in (8, 16) and 2 <= bs <= 16 and (mono or colour(['RGB']))
    if ts == 'j2kl':
        return bs <= 38 and ((mono and ba in (1, 8, 16, 24, 32, 40))
                             or (colour(['RGB', 'YBR_RCT']) and ba in (8, 16, 24, 32, 40)))
    if ts == 'j2k':
        return bs <= 38 and ((mono or colour(['RGB', 'YBR_ICT'])) and ba in (8, 16, 24, 32, 40))
    if ts == 'jpeg':
        return ba == 8 and bs == 8 and pr == 0 and (mono or colour(['RGB', 'YBR_FULL_422']))
    return False


def _must_accept(c):
    """Combinations every lossless encoder here has to take (rt_* strata are built from them)."""
    return c['kind'] in ('rt_native', 'rt_bits', 'rt_rle', 'rt_jls')


def oracle(c, out):
    if _LAST.get('key') == common.case_key(c):
        obs = _LAST['obs']
    else:
        obs = _observe(c)
    k = c['kind']
    if k == 'bit_index':
        want = [[c['rows'], c['cols']] + ([c['samples']] if c.get('samples', 1) > 1 else []),
                c['frames'][c['index']]]
        return None if obs['dec'] == want else f"frame {c['index']} decoded as {obs['dec']}, stored {want}"
    vals = _wrapped(c)
    s = c['shape2'] if c['ndim3'] else 1
    want_shape = [c['rows'], c['cols']] + ([s] if s > 1 else [])
    if k == 'decode_entry':
        # same parameters (only the frame index / the other native syntax differ), undamaged bytes: the original
        # pixels must come back; anything else is outside the round-trip clause (model comparison only)
        q = c['q']
        if c['cut'] == 0 and not isinstance(obs['enc'], Err) and _values_fit(c, vals) \
                and all(kk == 'ts' and q[kk] in NATIVE and c['ts'] in NATIVE for kk in q):
            if obs['dec'] != [want_shape, vals]:
                return (f"decode_frame(index={c['index']}, ts={q.get('ts', c['ts'])}) of an accepted frame gives "
                        f"{str(obs['dec'])[:160]} (original {str([want_shape, vals])[:120]})")
        elif c['cut'] == 0 and not isinstance(obs['enc'], Err) and c['ba'] != 1 and q \
                and all(kk in ('bs', 'pr') for kk in q) and q.get('pr', 0) in (0, 1) \
                and 1 <= q.get('bs', c['bs']) <= c['ba']:
            # only Bits Stored / pixel representation of the call differ: every stored word is re-interpreted
            # (PS3.5 8.1.1: bits above Bits Stored are ignored, two's complement when signed)
            qb, qp = q.get('bs', c['bs']), q.get('pr', c['pr'])
            ref = []
            for v in vals:
                m = (v % (1 << c['ba'])) % (1 << qb)
                ref.append(m - (1 << qb) if qp == 1 and m >= (1 << (qb - 1)) else m)
            if obs['dec'] != [want_shape, ref]:
                return (f"decode_frame with bits_stored={qb}, pixel_representation={qp} gives {str(obs['dec'])[:160]}, "
                        f"the stored words read that way are {str([want_shape, ref])[:160]}")
        return None
    if k == 'decode_params':
        return None     # decoding with other parameters is outside the round-trip clause: model comparison only
    if k == 'rle_malformed':
        return None     # no independent judgement on a damaged compressed stream: model comparison only
    if k == 'decode_malformed':
        d = obs['dec']
        if isinstance(obs['enc'], Err) or isinstance(d, Err):
            return None
        # a damaged string may only decode to the original pixels (trailing bytes ignored, or - pydicom's
        # allow_excess_frames - returned as further frames after the original), never to other pixels
        if c['cut'] >= 0 or c['ba'] == 1:
            if c['ba'] == 1 and (c['cut'] < 0 or c.get('index', 0) != 0):
                return None     # reading at another bit offset is legitimate
            if d == [want_shape, vals] or (d[0][1:] == want_shape and d[1][:len(vals)] == vals):
                return None
            return f'extended byte string decoded to other pixels: {d}'
        return f'truncated byte string (cut {c["cut"]}) was decoded: {d}'
    enc = obs['enc']
    if isinstance(enc, Err):
        if _must_accept(c):
            return f'valid combination refused with {enc}'
        return None
    if obs['codec_refused']:
        # the codec itself declined (pyjpegls on small/incompressible frames, JPEG 2000 not installed)
        if k == 'rt_rle':
            return 'RLE codec refused a valid frame'
        return None
    if c['ts'] == 'jpeg' or c['ts'] == 'j2k':
        return None                 # lossy syntaxes are outside the property
    want = [want_shape, vals]
    if _values_fit(c, vals):        # precondition of the round-trip clause
        if obs['dec'] != want:
            d = obs['dec']
            return ('encode_frame accepted, decode_frame with the same parameters gives '
                    + (repr(d) if isinstance(d, Err) else f'different pixels/shape {str(d)[:160]}')
                    + f' (original {str(want)[:120]})')
        if obs['pyd'] != want:
            d = obs['pyd']
            return ('encode_frame accepted, pydicom reading the one-frame file gives '
                    + (repr(d) if isinstance(d, Err) else f'different pixels/shape {str(d)[:160]}'))
    if not _representable(c):
        return ('encode_frame produced bytes for a parameter combination the syntax cannot represent '
                f"(ts={c['ts']}, shape3={c['shape2'] if c['ndim3'] else None}, alloc={c['ba']}, stored={c['bs']}, "
                f"pi={c['pi']}, pixrep={c['pr']}, planar={c['pl']}, dtype={c['dtype']})")
    return None


def nontrivial(c, out):
    if c['kind'] == 'bit_index':
        return len(c['frames']) > 1
    if isinstance(out, Err):
        return True
    return len(set(c['data'])) > 1


def shrink(c):
    if c['kind'] == 'bit_index':
        if len(c['frames']) > 1:
            for i in range(len(c['frames'])):
                if i != c['index']:
                    fr = c['frames'][:i] + c['frames'][i + 1:]
                    yield dict(c, frames=fr, index=c['index'] - (1 if i < c['index'] else 0))
        return
    s = c['shape2'] if c['ndim3'] else 1
    for rows, cols in ((1, c['cols']), (c['rows'], 1), (c['rows'] - 1, c['cols']), (c['rows'], c['cols'] - 1),
                       (c['rows'] // 2, c['cols']), (c['rows'], c['cols'] // 2)):
        if 1 <= rows and 1 <= cols and (rows, cols) != (c['rows'], c['cols']):
            yield dict(c, rows=rows, cols=cols, data=c['data'][:rows * cols * s])
    if any(c['data']):
        yield dict(c, data=[0] * len(c['data']))
        for i, v in enumerate(c['data']):
            if v:
                yield dict(c, data=c['data'][:i] + [0] + c['data'][i + 1:])
                break


def _accepted_native_or_rle(c):
    return c.get('ts') in NATIVE + ('rle',)


FINDINGS = {
    # YBR_FULL frames: stored unchanged, decoded through pydicom's YBR->RGB conversion
    'D51': lambda c: (c.get('pi') == 'YBR_FULL' and _accepted_native_or_rle(c) and c.get('ndim3')
                      and c.get('shape2') == 3),
}


def extra_obligations(work):
    import translate_c07
    return translate_c07.obligations(work)


if __name__ == '__main__':
    sys.exit(common.main(sys.modules[__name__]))
