"""C17 - coded concepts behave as values under equality, hashing and I/O.

Implementation driven (real code from $VERIF_REPO/src and the installed pydicom):
  highdicom.sr.coding.CodedConcept  __init__, value / scheme_designator / meaning /
      scheme_version, __eq__, __ne__, __hash__, from_dataset(copy), from_code
  pydicom.sr.coding.Code            __eq__, __ne__, __hash__ (SRT -> SCT aliases)
  set / dict membership, pydicom dcmwrite / dcmread of a code sequence item
  histories: API calls, user edits (meaning, code value / form, scheme, version), deepcopy / pickle (also into another
      interpreter with its own hash salt), hash / set / dict uses before and after the edits
Model: coq/theories/C17_Model.v; theorems: C17_Props.v.
"""
import io
import itertools
import os
import sys
import warnings

sys.path.insert(0, os.path.dirname(os.path.abspath(__file__)))
import common
from common import Err, catch, zlit, coq_string

PROPERTY = 'C17'
PROPS_FILE = 'C17_Props.v'
COQ_IMPORTS = ['C17_Model']
TOL = None
ORACLE_PREMISES = [
    'srt: the SRT->SCT table of pydicom (pydicom.sr._snomed_dict.mapping["SRT"]) is an arbitrary partial '
    'function string -> string (theorems hold for every table; the run passes its restriction to the values of the case)',
    'H: Python str hash is a function of the string (theorems hold for every H); the run compares hash '
    'equality with equality of the hashed strings, i.e. assumes no collision among the <= 200 keys of a run',
    'pydicom Dataset attribute assignment / getattr / hasattr / deepcopy return the str that was stored (no backslash in '
    'the alphabet); dcmwrite+dcmread return every attribute without its trailing blanks (modelled: rstrip; NUL padding and '
    'backslash = multi-value are not modelled); per VR: SH / LO / UC values come back without trailing blanks and NULs, UR without '
    'trailing Python white space (store_file_vr; control characters travel as printable stand-ins ~ ^ | ` between harness and model)',
    'copy.copy / Dataset.copy() of a dataset = new object whose element dict IS the dict of the source (shared store, shared nested '
    'item), class copied; pydicom Dataset iteration yields its data elements (from_code(plain Dataset))',
    'hash(obj) is observed as the candidate string (all scheme+value combinations of the case) whose Python hash equals it: no '
    'collision among these strings; copy.deepcopy / pickle round trip of an object = fresh object of the same class with the same '
    'elements (nested item copied too) and nothing else; a pickle of the whole population into another interpreter preserves '
    'identities and sharing (identity on the model heap); a plain pydicom Dataset is unhashable',
]
MODELLED = ('sr/coding.py CodedConcept.__init__ (attribute selection, meaning guard), value / meaning / '
            'scheme_designator / scheme_version, __eq__ (code branch and the fall-through to Dataset.__eq__ for plain '
            'datasets and non-code values, with Python\'s reflected-operand protocol), __ne__, __hash__, from_dataset '
            '(type check, exactly-one check, required attributes, copy vs alias incl. class change of the original and the '
            'depth of the copy for one nested sequence item), from_code; pydicom Code.__eq__/__ne__/__hash__ incl. SRT->SCT '
            'normalisation; set/dict with several keys as hash-then-identity-then-eq lookup (first key kept, last value '
            'wins); histories of API calls and user writes over a heap of datasets, incl. user edits of the code value / its '
            'attribute (form), scheme designator and version, deepcopy / pickle copies, and hash / set / dict uses of an object '
            'BEFORE such edits (hash = function of the current record; a pickle of the whole population into another '
            'interpreter = identity on the heap, the receiving interpreter has another string hash H); '
            'from_code of ANY argument (concept, Code, plain Dataset with any subset of elements, None / int, str / tuple / list of '
            'strings: arity of __init__ and the first data element landing in `value`); nested sequence items addressed directly '
            '(converted in place / copied / edited / hashed / compared; == of two datasets compares the nested items by Python list '
            'equality: identity, then ==, item of the right operand of pydicom _dict_equal on the left); the larger machine: '
            'attribute deletions (malformed concepts used inside a history) and shallow copies copy.copy / Dataset.copy() (new '
            'identity and class flag on the SAME element store: writes and deletions through either object seen through both, '
            'nested item shared); the file round trip per VR (SH / LO / UC lose trailing blanks and NULs, UR loses trailing Python '
            'white space but keeps NUL)')
NOT_EXECUTED = ['sets of several malformed concepts (CPython probing order would be observable; single-key sets are driven)',
                'attribute deletions through a store that a NESTED item lives on (== of two parents whose items are malformed '
                'concepts raises or answers False depending on the insertion order of pydicom\'s element dict: not modelled)',
                'nesting deeper than one sequence item; pickling a population that contains shallow copies into another '
                'interpreter; non-ASCII characters and backslash (multi-value) in a file round trip']
STRATA = ['pair', 'pair_broken', 'triple', 'triple_row', 'store', 'store_file', 'from_ds', 'from_ds_bad', 'from_code',
          'eq_any', 'set', 'set_broken', 'history', 'history_edit', 'history_xproc', 'from_code_any', 'history_item',
          'history_ext', 'store_file_vr']
RULE = ('alphabet 3 schemes (SRT, SCT, DCM) x 6 values (SRT alias source, its SCT image, 16 chars, 17 chars, URN, URL) '
        'x 2 meanings x 2 versions x 2 representations = 144 codes; highdicom objects are produced by a random route '
        '(__init__, from_code, from_dataset with the value in each of the 3 attributes, file round trip). '
        'pair: quick = all 144 diagonal + 3000 sampled ordered pairs (+ extras: concatenation-colliding keys, second alias), '
        'thorough = all 20736 ordered pairs; triple: 1500 sampled triples biased to related codes (thorough: every triple of the '
        'meaning-collapsed 72-code alphabet whose first two codes are reference-equal, random routes); triple_row: one case = '
        'a pair (a, b) against all 72 third codes: quick 40 rows, thorough all 72 x 72 rows = all 373248 triples of the '
        'meaning-collapsed alphabet; '
        'store: values of length 0..70 around 16/17 in plain, urn-prefixed and ://-containing form, meanings of length '
        '0,1,63,64,65,100; from_ds: all 8 subsets of the code-value attributes x meaning/scheme/version present or not x copy x '
        'class of the original, plus non-dataset arguments; pair_broken: concepts with value/meaning/scheme deleted afterwards; '
        'eq_any: a code (any route) against None/str/int/tuple and against a plain pydicom Dataset with the same elements or one '
        'of value/scheme/meaning/version changed, both operand orders, == and !=; set: 1-6 keys drawn with 65% bias to codes '
        'related to an earlier key (reference-equal incl. alias, other meaning, other version) + 1-3 separately built probes: '
        'identities kept by set(), membership of every key and probe, identities of the dict keys, d.get(); set_broken: a concept '
        'with a deleted attribute as only key; history: 2-10 operations among CodedConcept(..), plain Dataset (any subset of '
        'code-value attributes, optional nested item), from_dataset(copy/alias/non-dataset), from_code(Code/concept), writes to '
        'CodeMeaning of an object or of its nested item, == of two objects: results of every call, all objects at the end, '
        'which object owns which nested item, hash(obj) of every object at the end (as the candidate string scheme+value with '
        'that hash). '
        'history_edit: 3-14 operations of the same machine plus: obj.<code-value attribute> = v (same or another form; the other '
        'code-value attributes deleted), obj.CodingSchemeDesignator = s, CodingSchemeVersion set / deleted, deepcopy(obj) / '
        'pickle round trip, hash(obj) (+ is it the hash of Code(obj.value, obj.scheme_designator)), and a lookup op: {a} and '
        '{a: 1} probed with b, with Code(b), {Code(a)} probed with b and a, Code(a) in {a}; 45% of the creations are followed at '
        'once by a hash / lookup of the new object so that hashed-then-copied-then-edited objects are frequent. '
        'history_xproc: such a history whose first k operations run in ANOTHER interpreter (own PYTHONHASHSEED); the whole '
        'population is pickled over, the remaining operations and all final observations run in the checking process. '
        'from_code_any: plain datasets with every subset of the six elements +- a nested sequence (quick: the 2..5-element ones '
        'and half of the rest), None, int, str / tuple / list of 0..6 strings (meanings of 64 / 65 characters). '
        'history_item (90 per quick run): the history_edit machine where every address may be a nested item (45% of the '
        'from_dataset calls take an item; items carry a scheme so that they can become concepts) and from_code is given plain '
        'datasets. history_ext (100): the same plus del of the code-value attributes / CodeMeaning / CodingSchemeDesignator (70% '
        'followed at once by hash / lookup / == / from_dataset of the malformed object or of one on its store) and copy.copy / '
        'Dataset.copy(). store_file_vr: 13 bodies x 6 (thorough 14) tails of blank / NUL / TAB / LF / CR in value, scheme, meaning, '
        'version, both transfer syntaxes. '
        'non-trivial = reference-equal pair of distinct specs / non-default attribute / accepted dataset; distinct by case hash')
EXHAUSTIVE = {'quick': False, 'thorough': True}

SCHEMES = ['SRT', 'SCT', 'DCM']
VALUES = ['T-04000', '76752008', 'ABCDEFGHIJKLMNOP', 'ABCDEFGHIJKLMNOPQ', 'urn:oid:1.2.840.1', 'http://x.org/c#1']
MEANINGS = ['Breast', 'Other meaning']
VERSIONS = [None, '2020']
REPS = ['HD', 'PD']
# reference alias table of the oracle (DICOM PS3.16 Annex O retired SRT codes), independent of pydicom's dict
REF_ALIAS = {'T-04000': '76752008', 'T-B7000': '111002'}
HD_ROUTES = ['init', 'init', 'init', 'from_code', 'ds:CodeValue', 'ds:LongCodeValue', 'ds:URNCodeValue', 'file']
ATTRS = ['CodeValue', 'LongCodeValue', 'URNCodeValue']


def _spec(s, v, m, ver, rep, rng=None, route=None):
    if route is None:
        route = 'code' if rep == 'PD' else (rng.choice(HD_ROUTES) if rng else 'init')
    return {'v': v, 's': s, 'm': m, 'ver': ver, 'route': route}


def alphabet(rng=None, meanings=MEANINGS):
    return [_spec(s, v, m, ver, rep, rng) for s in SCHEMES for v in VALUES for m in meanings
            for ver in VERSIONS for rep in REPS]


def ref_key(sp):
    """reference normal form of the oracle: (scheme, value, version) after retired-scheme aliasing"""
    if sp['s'] == 'SRT' and sp['v'] in REF_ALIAS:
        return ('SCT', REF_ALIAS[sp['v']], sp['ver'])
    return (sp['s'], sp['v'], sp['ver'])


def _reroute(sp, rng):
    return dict(sp, route='code' if sp['route'] == 'code' else rng.choice(HD_ROUTES))


STORE_VALUES = (
    ['', 'a', 'abcdefgh', 'A' * 15, 'B' * 16, 'C' * 17, 'D' * 18, 'E' * 40, 'F' * 70, '12345.6', 'T-D0050',
     'urn', 'urn:a', 'urn:oid:1.2.3.4', 'urn:oid:1.2.3.45', 'urn:oid:1.2.3.456', 'urn:oid:1.2.840.10008.5.1.4.1.1.88.11',
     'urnx', 'xurn:a', 'URN:OID:1', 'Urn:a',
     '://', 'a://b', 'http://a.b/c', 'https://a.b/cd', 'https://a.b/cde', 'https://a.b/cdef', 'ftp://host.example.org/path/to/code',
     'a:/b', 'a:b//c', 'x' * 14 + ':/', 'x' * 13 + '://', 'x' * 14 + '://', 'x' * 30 + '://y'])
STORE_MEANINGS = ['', 'm', 'M' * 63, 'N' * 64, 'O' * 65, 'P' * 100, 'Breast']


def gen_cases(rng, tier):
    cases = []
    full = alphabet()
    n = len(full)
    # ---- pairs ------------------------------------------------------------------
    if tier == 'quick':
        pairs = [(i, i) for i in range(n)] + [(rng.randrange(n), rng.randrange(n)) for _ in range(1500)]
        # bias: second half of the sample is drawn inside a reference class (so equal pairs are frequent)
        by_key = {}
        for i, sp in enumerate(full):
            by_key.setdefault(ref_key(sp), []).append(i)
        for _ in range(1500):
            i = rng.randrange(n)
            pairs.append((i, rng.choice(by_key[ref_key(full[i])])))
    else:
        pairs = list(itertools.product(range(n), repeat=2))
    for i, j in pairs:
        cases.append({'kind': 'pair', 'a': _reroute(full[i], rng), 'b': _reroute(full[j], rng)})
    extras = [
        (_spec('SC', 'T1', 'x', None, 'HD'), _spec('SCT', '1', 'x', None, 'PD')),       # same hashed string
        (_spec('SC', 'T1', 'x', None, 'PD'), _spec('SCT', '1', 'x', None, 'HD')),
        (_spec('SR', 'T-04000', 'x', None, 'HD'), _spec('SRT', '-04000', 'x', None, 'HD')),
        (_spec('SRT', 'T-B7000', 'Thyroid', None, 'HD'), _spec('SCT', '111002', 'thyroid', None, 'PD')),
        (_spec('SRT', 'T-B7000', 'Thyroid', '1', 'PD'), _spec('SCT', '111002', 'thyroid', '1', 'HD')),
        (_spec('SRT', 'T-B7000', 'Thyroid', '1', 'PD'), _spec('SCT', '111002', 'thyroid', None, 'HD')),
        (_spec('SRT', 'T-B7000', 'a', None, 'HD'), _spec('SRT', 'T-04000', 'a', None, 'HD')),
        (_spec('DCM', 'T-04000', 'a', None, 'HD'), _spec('SCT', '76752008', 'a', None, 'HD')),  # alias only for SRT
        (_spec('SRT', 'T-04000', 'a', '', 'HD'), _spec('SRT', 'T-04000', 'a', None, 'PD')),     # '' is not None
        (_spec('srt', 'T-04000', 'a', None, 'HD'), _spec('SCT', '76752008', 'a', None, 'PD')),
        (_spec('DCM', '', 'a', None, 'HD'), _spec('DCM', '', 'b', None, 'PD')),
    ]
    for a, b in extras:
        for ra in (['code'] if a['route'] == 'code' else ['init', 'from_code', 'ds:LongCodeValue', 'file']):
            cases.append({'kind': 'pair', 'a': dict(a, route=ra), 'b': b})
            cases.append({'kind': 'pair', 'a': b, 'b': dict(a, route=ra)})
    # ---- malformed concepts (attributes deleted after construction) ------------------
    nb = 250 if tier == 'quick' else 2500
    for _ in range(nb):
        a = _reroute(rng.choice(full), rng)
        b = _reroute(rng.choice(full), rng)
        if rng.random() < 0.6:
            b = dict(a, route=b['route'], m=b['m'])
        which = rng.choice(['a', 'b', 'ab'])
        if 'a' in which and a['route'] != 'code':
            a = dict(a, broken=rng.randrange(3))
        if 'b' in which and b['route'] != 'code':
            b = dict(b, broken=rng.randrange(3))
        if 'broken' not in a and 'broken' not in b:
            a = dict(a, route='init', broken=rng.randrange(3))
        cases.append({'kind': 'pair_broken', 'a': a, 'b': b})
    # ---- triples ---------------------------------------------------------------------
    coll = alphabet(meanings=['Breast'])
    by_key = {}
    for i, sp in enumerate(coll):
        by_key.setdefault(ref_key(sp), []).append(i)
    triples = []
    if tier == 'quick':
        for _ in range(1500):
            i = rng.randrange(len(coll))
            j = rng.choice(by_key[ref_key(coll[i])]) if rng.random() < 0.8 else rng.randrange(len(coll))
            k = rng.choice(by_key[ref_key(coll[j])]) if rng.random() < 0.7 else rng.randrange(len(coll))
            triples.append((i, j, k))
    else:
        for i in range(len(coll)):
            for j in by_key[ref_key(coll[i])]:
                for k in range(len(coll)):
                    triples.append((i, j, k))
    for i, j, k in triples:
        m = rng.choice(MEANINGS)
        cases.append({'kind': 'triple', 'a': _reroute(coll[i], rng), 'b': dict(_reroute(coll[j], rng), m=m),
                      'c': _reroute(coll[k], rng)})
    # ---- all third codes for a pair (a, b): thorough = every ordered pair of the collapsed alphabet,
    #      i.e. all 72^3 triples; quick = a sample of rows
    rows = list(itertools.product(range(len(coll)), repeat=2))
    if tier == 'quick':
        rows = [(i, rng.choice(by_key[ref_key(coll[i])])) for i in rng.sample(range(len(coll)), 30)] + rng.sample(rows, 10)
    for i, j in rows:
        cases.append({'kind': 'triple_row', 'a': _reroute(coll[i], rng), 'b': dict(_reroute(coll[j], rng), m=rng.choice(MEANINGS))})
    # ---- store / load ------------------------------------------------------------------
    for v in STORE_VALUES:
        for ver in (None, '1.0'):
            cases.append({'kind': 'store', 'v': v, 's': rng.choice(SCHEMES + ['99LOCAL']), 'm': rng.choice(MEANINGS), 'ver': ver})
    for m in STORE_MEANINGS:
        for v in ('abc', 'urn:x', 'G' * 20):
            cases.append({'kind': 'store', 'v': v, 's': 'DCM', 'm': m, 'ver': rng.choice([None, '', '2.1'])})
    for _ in range(150 if tier == 'quick' else 3000):
        ln = rng.choice([0, 1, 2, 7, 12, 13, 14, 15, 16, 17, 18, 19, 31, 64, 65])
        form = rng.choice(['plain', 'plain', 'urn', 'url', 'url_end', 'URN'])
        body = ''.join(rng.choice('abcXYZ019.-') for _ in range(ln))
        if form == 'urn':
            v = ('urn:' + body)[:max(ln, 3)]
        elif form == 'URN':
            v = ('URN:' + body)[:max(ln, 4)]
        elif form == 'url':
            v = ('h://' + body)[:max(ln, 4)]
        elif form == 'url_end':
            v = (body + '://')[-max(ln, 3):]
        else:
            v = body
        cases.append({'kind': 'store', 'v': v, 's': rng.choice(SCHEMES), 'm': rng.choice(STORE_MEANINGS),
                      'ver': rng.choice([None, '', '2020'])})
    for c in [c for c in cases if c['kind'] == 'store']:
        if len(c['m']) <= 64 and rng.random() < (0.5 if tier == 'quick' else 0.3):
            cases.append(dict(c, kind='store_file', ts=rng.choice(['implicit', 'explicit'])))
    # DICOM padding: trailing blanks of any attribute do not survive a file (leading / inner blanks do)
    for v in ('abc ', 'abc  ', 'abcd ', ' ', '  ', ' abc', 'a b', 'B' * 15 + ' ', 'B' * 16 + ' ', 'C' * 17 + '  ', 'urn:a ',
              'urn:ab  ', 'http://a b ', 'T-04000 '):
        cases.append({'kind': 'store_file', 'v': v, 's': rng.choice(['DCM', 'DCM ', ' D ', 'SRT']), 'm': rng.choice(['m', 'm  ', '  ', ' m']),
                      'ver': rng.choice([None, '', ' ', '1 ', ' 1']), 'ts': rng.choice(['implicit', 'explicit'])})
    # ---- from_dataset -------------------------------------------------------------------
    vals = {'CodeValue': 'abc', 'LongCodeValue': 'L' * 20, 'URNCodeValue': 'urn:oid:1.2'}
    for present in itertools.product([False, True], repeat=3):
        for has_m, has_s, has_ver, copy, orig_cc in itertools.product([True, False], repeat=5):
            ds = {k: (rng.choice([vals[k], 'xy', 'urn:q', 'Z' * 17]) if p else None) for k, p in zip(ATTRS, present)}
            ok = sum(present) == 1 and has_m and has_s
            cases.append({'kind': 'from_ds' if ok else 'from_ds_bad', 'arg': 'dataset', 'ds': ds,
                          'm': 'Meaning' if has_m else None, 's': rng.choice(SCHEMES) if has_s else None,
                          'ver': '1.1' if has_ver else None, 'copy': copy, 'orig_cc': orig_cc})
    for arg in ('none', 'dict', 'code', 'str'):
        for copy in (True, False):
            cases.append({'kind': 'from_ds_bad', 'arg': arg, 'copy': copy})
    # ---- from_code ------------------------------------------------------------------------
    for sp in rng.sample(full, 60 if tier == 'quick' else len(full)):
        cases.append({'kind': 'from_code', 'c': dict(sp, route='code'), 'is_concept': rng.random() < 0.4})
    for m in ('Q' * 64, 'R' * 65):
        for isc in (False,):
            cases.append({'kind': 'from_code', 'c': _spec('DCM', '121', m, None, 'PD'), 'is_concept': isc})
    cases += gen_eq_any(rng, tier, full) + gen_sets(rng, tier, full) + gen_histories(rng, tier, full)
    # objects with a past: used as a key, copied, edited, sent to another interpreter - in any order
    for c in gen_histories(rng, tier, full, edit=True, n=260 if tier == 'quick' else 4000):
        cases.append(dict(c, kind='history_edit'))
    for c in gen_histories(rng, tier, full, edit=True, n=20 if tier == 'quick' else 120):
        k = len(c['ops'])
        cases.append(dict(c, kind='history_xproc', cut=rng.choice([k, k, max(1, k - 1), max(1, k // 2)]),
                          hseed=rng.randrange(1, 2 ** 31)))
    # ---- (appended last: the random stream of the kinds above is unchanged) -------------------------------
    # from_code of everything that is not a Code / concept: plain datasets with every subset of the six elements
    # (+- a nested sequence), None, int, str / tuple / list of 0..6 strings
    fvals = {'CodeValue': 'abc', 'LongCodeValue': 'L' * 20, 'URNCodeValue': 'urn:oid:1.2', 'CodeMeaning': 'Meaning',
             'CodingSchemeDesignator': 'DCM', 'CodingSchemeVersion': '1.1'}
    for pres in itertools.product([False, True], repeat=6):
        for seq in (False, True):
            if tier == 'quick' and not (2 <= sum(pres) + seq <= 5) and rng.random() < 0.5:
                continue
            cases.append({'kind': 'from_code_any', 'arg': 'plain', 'seq': seq,
                          'ds': {kw: (fvals[kw] if p_ else None) for kw, p_ in zip(FC_KW, pres)}})
    for arg in ('none', 'int'):
        cases.append({'kind': 'from_code_any', 'arg': arg})
    for ln in range(7):
        for arg in ('str', 'tuple', 'list'):
            for m in (['m'] if arg == 'str' else ['Breast', 'M' * 64, 'M' * 65]):
                l = [rng.choice(['u', 'r', 'n', ':', '/', 'a']) for _ in range(ln)] if arg == 'str' else \
                    ([rng.choice(VALUES), rng.choice(SCHEMES), m, '2020', 'x', 'y'][:ln])
                cases.append({'kind': 'from_code_any', 'arg': arg, 'l': l})
    for l in (['u', 'r', 'n'], ['u', 'r', 'n', ':'], list('a://'), ['urn', '', ''], ['', '', '', '']):
        cases.append({'kind': 'from_code_any', 'arg': 'str' if all(len(e) == 1 for e in l) else 'tuple', 'l': l})
    # file round trip per value representation: trailing NUL / TAB / LF / CR / blank in every attribute
    tails = ['', ' ', '\0', '\0 ', ' \0', '\0\0', '\t', '\n', '\r', '\t ', ' \t', '\0\t', '\t\0', ' \n \0']
    for body in ('abc', 'abcd', 'B' * 15, 'B' * 16, 'C' * 17, 'C' * 18, 'urn:a', 'urn:ab', 'http://a b', '\0abc', 'a\0b', '\tabc', ''):
        for t in (tails if tier != 'quick' else rng.sample(tails, 6)):
            cases.append({'kind': 'store_file_vr', 'v': body + t, 's': 'DCM' + rng.choice(tails), 'm': 'm' + rng.choice(tails),
                          'ver': rng.choice([None, '', '1' + rng.choice(tails), rng.choice(tails)]),
                          'ts': rng.choice(['implicit', 'explicit'])})
    # nested items passed to the API / edited / hashed / compared themselves; from_code(plain Dataset) inside a history
    for c in gen_histories(rng, tier, full, edit=True, n=90 if tier == 'quick' else 3000, items=True):
        cases.append(dict(c, kind='history_item'))
    # the larger machine: attribute deletions (malformed concepts hashed / looked up / compared / converted inside a
    # history) and shallow copies (a second object on the same element store)
    for c in gen_histories(rng, tier, full, edit=True, n=100 if tier == 'quick' else 3000, items=True, ext=True):
        cases.append(dict(c, kind='history_ext'))
    return cases


FOREIGN = ['none', 'str', 'int', 'tuple4', 'tuple3']


def gen_eq_any(rng, tier, full):
    """a code against a plain pydicom Dataset (same / different content) and against non-code values"""
    out = []
    for _ in range(90 if tier == 'quick' else 1500):
        a = _reroute(rng.choice(full), rng)
        k = rng.choice([0, 1, 1, 2, 2])
        c2 = dict(a, route='code')
        attr = rng.choice(ATTRS)
        if k >= 1 and a['route'] != 'code' and rng.random() < 0.7:
            # the attribute the concept itself uses, so that equal content is frequent
            attr = a['route'][3:] if a['route'].startswith('ds:') else (
                'URNCodeValue' if (a['v'].startswith('urn') or '://' in a['v']) else
                'LongCodeValue' if len(a['v']) > 16 else 'CodeValue')
        if k == 2:
            f = rng.choice(['m', 'ver', 'v', 's'])
            c2[f] = {'m': 'Other meaning' if a['m'] == 'Breast' else 'Breast', 'ver': '2020' if a['ver'] is None else None,
                     'v': rng.choice([v for v in VALUES if v != a['v']]), 's': rng.choice([x for x in SCHEMES if x != a['s']])}[f]
        out.append({'kind': 'eq_any', 'a': a, 'k': k, 'foreign': rng.choice(FOREIGN), 'attr': attr, 'c2': c2})
    return out


def gen_sets(rng, tier, full):
    """sets and dicts with several keys: which keys survive, membership, last write wins"""
    out = []
    by_key = {}
    for i, sp in enumerate(full):
        by_key.setdefault(ref_key(sp), []).append(i)

    def draw(prev):
        if prev and rng.random() < 0.65:
            q = rng.choice(prev)
            r = rng.random()
            if r < 0.5:
                return _reroute(full[rng.choice(by_key[ref_key(q)])], rng)       # reference-equal (alias included)
            if r < 0.8:
                return _reroute(dict(q, m=rng.choice(MEANINGS)), rng) if q['route'] != 'code' else dict(q, m=rng.choice(MEANINGS))
            return dict(q, ver=rng.choice(VERSIONS))                             # same hash, maybe another version
        return _reroute(rng.choice(full), rng)
    for _ in range(160 if tier == 'quick' else 3000):
        objs = []
        for _ in range(rng.choice([1, 2, 3, 4, 5, 6])):
            objs.append(draw(objs))
        probes = [draw(objs) for _ in range(rng.choice([1, 2, 3]))]
        out.append({'kind': 'set', 'objs': objs, 'probes': probes})
    # keys whose concatenated hash string collides, and a second alias pair
    out.append({'kind': 'set', 'objs': [_spec('SC', 'T1', 'x', None, 'HD'), _spec('SCT', '1', 'x', None, 'PD'),
                                        _spec('SCT', '1', 'y', None, 'HD')], 'probes': [_spec('SC', 'T1', 'z', None, 'PD')]})
    out.append({'kind': 'set', 'objs': [_spec('SRT', 'T-B7000', 'Thyroid', None, 'HD'), _spec('SCT', '111002', 'thyroid', None, 'PD')],
                'probes': [_spec('SCT', '111002', 't', None, 'HD'), _spec('SRT', 'T-B7000', 't', None, 'PD')]})
    # malformed stream: a concept that lost an attribute is still found by identity; == with it on the left raises
    for _ in range(24 if tier == 'quick' else 200):
        a = dict(_reroute(rng.choice(full), rng))
        if a['route'] == 'code':
            a['route'] = 'init'
        a['broken'] = rng.randrange(3)
        pr = dict(a, route=rng.choice(['init', 'code']))
        pr.pop('broken')
        out.append({'kind': 'set_broken', 'objs': [a], 'probes': [pr]})
    return out


def _wf(o):
    return o['n'] == 1 and o['m'] and o['s']


EDIT_VALUES = VALUES + ['T-B7000', '111002', 'abc', 'Z' * 17, 'urn:x']
EDIT_SCHEMES = SCHEMES + ['99TEST', 'SC']
PLAIN_OPS = ['init', 'new', 'new', 'fd', 'fd', 'fd', 'fc', 'setm', 'setn', 'eq', 'eq']
EDIT_OPS = ['init', 'init', 'new', 'fd', 'fd', 'fd', 'fc', 'setm', 'setn', 'eq', 'eq', 'setcode', 'setcode', 'setcode',
            'setscheme', 'setscheme', 'setver', 'clone', 'clone', 'clone', 'hash', 'hash', 'hash', 'lookup', 'lookup']


EXT_OPS = ['del', 'del', 'del', 'shallow', 'shallow', 'shallow', 'hash', 'lookup', 'eq']


def _natural_attr(v):
    return 'URNCodeValue' if (v.startswith('urn') or '://' in v) else 'LongCodeValue' if len(v) > 16 else 'CodeValue'


def gen_histories(rng, tier, full, edit=False, n=None, items=False, ext=False):
    """sequences of API calls and user actions on a growing population of datasets;
    edit=True: also edits of the code itself, copies outside the API and uses as a key (objects with a past);
    items=True: nested sequence items are addressed directly too (passed to the API, edited, hashed, compared), the
        nested item may carry a scheme (so that it can become a concept), from_code is also given plain datasets;
    ext=True: also attribute deletions (malformed concepts inside a history) and shallow copies (copy.copy / Dataset.copy():
        a second object on the SAME element store).
    sim[i]: dict(top, cc, kid, f) with f = dict(n = number of code-value attributes, m, s) SHARED between shallow copies.
    (the random stream of the older kinds is unchanged: every new draw is guarded by items / ext)"""
    out = []
    ops_pool = (EDIT_OPS if edit else PLAIN_OPS) + (EXT_OPS if ext else [])
    for _ in range(n if n is not None else (150 if tier == 'quick' else 3000)):
        sim, ops = [], []
        budget = rng.choice([3, 4, 5, 6, 8, 10, 12, 14]) if edit else rng.choice([2, 3, 4, 6, 8, 10])

        def deep(a):
            """sim entries of a deep copy of object a (and of its nested item)"""
            kid = sim[a]['kid']
            new = [dict(sim[a], f=dict(sim[a]['f']), kid=len(sim) + 1 if kid is not None else None)]
            if kid is not None:
                new.append(dict(sim[kid], f=dict(sim[kid]['f']), top=False))
            return new
        while len(ops) < budget:
            tops = [i for i, o in enumerate(sim) if o['top'] or items]
            kind = rng.choice(ops_pool)
            if kind not in ('init', 'new', 'fc') and not tops:
                kind = rng.choice(['init', 'new']) if edit else 'new'
            n_before = len(sim)
            if kind == 'setcode':
                a = rng.choice(tops)
                v = rng.choice(EDIT_VALUES)
                attr = _natural_attr(v) if rng.random() < 0.6 else rng.choice(ATTRS)
                ops.append({'op': 'setcode', 'a': a, 'attr': attr, 'v': v})
                sim[a]['f']['n'] = 1
                continue
            if kind == 'setscheme':
                a = rng.choice(tops)
                ops.append({'op': 'setscheme', 'a': a, 's': rng.choice(EDIT_SCHEMES)})
                sim[a]['f']['s'] = True
                continue
            if kind == 'setver':
                ops.append({'op': 'setver', 'a': rng.choice(tops), 'ver': rng.choice(VERSIONS + ['1.0'])})
                continue
            if kind == 'del':
                # (never through a store that a NESTED item lives on: whether == of two parents whose items are malformed
                #  concepts raises or answers False depends on the insertion order of pydicom's element dict - not modelled)
                item_stores = [o['f'] for o in sim if not o['top']]
                cand = [i for i in tops if not any(sim[i]['f'] is f_ for f_ in item_stores)]
                if not cand:
                    continue
                a, k = rng.choice(cand), rng.randrange(3)
                ops.append({'op': 'del', 'a': a, 'k': k})
                if k == 0:
                    sim[a]['f']['n'] = 0
                else:
                    sim[a]['f']['m' if k == 1 else 's'] = False
                if rng.random() < 0.7:
                    # the malformed object (or one that shares its store) is used at once
                    b = rng.choice([i for i in tops if sim[i]['f'] is sim[a]['f']])
                    ops.append(rng.choice([{'op': 'hash', 'a': b}, {'op': 'hash', 'a': b}, {'op': 'lookup', 'a': b, 'b': rng.choice(tops)},
                                           {'op': 'lookup', 'a': rng.choice(tops), 'b': b}, {'op': 'eq', 'a': b, 'b': rng.choice(tops)},
                                           {'op': 'eq', 'a': rng.choice(tops), 'b': b}, {'op': 'fd', 'a': b, 'copy': True}]))
                    if ops[-1]['op'] == 'fd' and _wf(sim[b]['f']):
                        sim.extend([dict(e, top=(j == 0), cc=(True if j == 0 else e['cc'])) for j, e in enumerate(deep(b))])
                continue
            if kind == 'shallow':
                a = rng.choice(tops)
                ops.append({'op': 'shallow', 'a': a, 'how': rng.choice(['copy.copy', 'Dataset.copy'])})
                sim.append(dict(sim[a], top=True))          # same f (shared store), same kid (shared item)
                if sim[n_before]['cc'] and rng.random() < 0.45:
                    ops.append(_use_as_key(rng, sim, n_before))
                continue
            if kind == 'clone':
                a = rng.choice(tops)
                ops.append({'op': 'clone', 'a': a, 'how': rng.choice(['deepcopy', 'pickle'])})
                sim.extend([dict(e, top=(j == 0)) for j, e in enumerate(deep(a))])
                if sim[n_before]['cc'] and rng.random() < 0.45:
                    ops.append(_use_as_key(rng, sim, n_before))
                continue
            if kind == 'hash':
                ccs = [i for i in tops if sim[i]['cc']]
                ops.append({'op': 'hash', 'a': rng.choice(ccs) if ccs and rng.random() < 0.85 else rng.choice(tops)})
                continue
            if kind == 'lookup':
                ccs = [i for i in tops if sim[i]['cc']] or tops
                pool = ccs if rng.random() < 0.85 else tops
                ops.append({'op': 'lookup', 'a': rng.choice(pool), 'b': rng.choice(pool)})
                continue
            if kind == 'init':
                sp = rng.choice(full)
                m = sp['m'] if rng.random() < 0.9 else 'M' * 65
                ops.append({'op': 'init', 'v': sp['v'], 's': sp['s'], 'm': m, 'ver': sp['ver']})
                if len(m) <= 64:
                    sim.append({'top': True, 'cc': True, 'f': {'n': 1, 'm': True, 's': True}, 'kid': None})
            elif kind == 'new':
                sp = rng.choice(full)
                pres = rng.choice([(1, 0, 0), (0, 1, 0), (0, 0, 1), (1, 0, 0), (0, 0, 1), (1, 1, 0), (0, 0, 0), (1, 1, 1)])
                ds = {kw: (sp['v'] if p else None) for kw, p in zip(ATTRS, pres)}
                has_m, has_s = rng.random() < 0.85, rng.random() < 0.85
                nested = rng.random() < 0.5
                nst = {'v': 'inner', 'm': 'inner meaning'} if nested else None
                if nested and items and rng.random() < 0.8:
                    nst['s'] = rng.choice(['DCM', 'SRT'])
                    nst['v'] = rng.choice(['inner', 'T-04000', sp['v']])
                ops.append({'op': 'new', 'ds': ds, 'm': sp['m'] if has_m else None, 's': sp['s'] if has_s else None,
                            'ver': sp['ver'], 'nested': nst})
                sim.append({'top': True, 'cc': False, 'f': {'n': sum(pres), 'm': has_m, 's': has_s},
                            'kid': len(sim) + 1 if nested else None})
                if nested:
                    sim.append({'top': False, 'cc': False, 'f': {'n': 1, 'm': True, 's': 's' in nst}, 'kid': None})
            elif kind == 'fd':
                if rng.random() < 0.06:
                    ops.append({'op': 'fd', 'a': None, 'copy': rng.random() < 0.5})
                    continue
                a, copy = rng.choice(tops), rng.random() < 0.5
                its = [i for i in tops if not sim[i]['top']]
                if items and its and rng.random() < 0.45:
                    a = rng.choice(its)                      # the nested item itself goes through the API
                ops.append({'op': 'fd', 'a': a, 'copy': copy})
                if _wf(sim[a]['f']):
                    if copy:
                        sim.extend([dict(e, top=(j == 0), cc=(True if j == 0 else e['cc'])) for j, e in enumerate(deep(a))])
                    else:
                        sim[a]['cc'] = True
            elif kind == 'fc':
                ccs = [i for i in tops if sim[i]['cc']]
                plains = [i for i in tops if not sim[i]['cc']]
                if items and plains and rng.random() < 0.5:
                    ops.append({'op': 'fc', 'a': rng.choice(plains), 'plain': True})     # from_code(plain Dataset): refused
                elif ccs and rng.random() < 0.5:
                    ops.append({'op': 'fc', 'a': rng.choice(ccs)})
                else:
                    sp = rng.choice(full)
                    ops.append({'op': 'fc', 'c': dict(sp, route='code')})
                    sim.append({'top': True, 'cc': True, 'f': {'n': 1, 'm': True, 's': True}, 'kid': None})
            elif kind == 'setm':
                a = rng.choice(tops)
                ops.append({'op': 'setm', 'a': a, 'm': rng.choice(['changed', 'Breast', ''])})
                sim[a]['f']['m'] = True
            elif kind == 'setn':
                a = rng.choice(tops)
                ops.append({'op': 'setn', 'a': a, 'm': rng.choice(['changed', 'inner meaning'])})
                if sim[a]['kid'] is not None:
                    sim[sim[a]['kid']]['f']['m'] = True
            else:
                ops.append({'op': 'eq', 'a': rng.choice(tops), 'b': rng.choice(tops)})
            if edit and len(sim) > n_before and sim[n_before].get('cc') and rng.random() < 0.45:
                ops.append(_use_as_key(rng, sim, n_before))
        out.append({'kind': 'history', 'ops': ops})
    return out


def _use_as_key(rng, sim, a):
    """the object just created serves as a key at once (so that it has a past when it is copied / edited later)"""
    if rng.random() < 0.6:
        return {'op': 'hash', 'a': a}
    ccs = [i for i, o in enumerate(sim) if o['top'] and o['cc']] or [a]
    return {'op': 'lookup', 'a': a, 'b': rng.choice(ccs + [a])}


# --------------------------------------------------------------------------------------------
# implementation side
# --------------------------------------------------------------------------------------------
def _file_roundtrip(cc, ts='implicit'):
    from pydicom import Dataset, dcmread, dcmwrite
    from pydicom.dataset import FileMetaDataset
    from pydicom.uid import ImplicitVRLittleEndian, ExplicitVRLittleEndian
    ds = Dataset()
    ds.ConceptNameCodeSequence = [cc]
    ds.SOPClassUID = '1.2.840.10008.5.1.4.1.1.88.11'
    ds.SOPInstanceUID = '1.2.3.4'
    ds.file_meta = FileMetaDataset()
    ds.file_meta.TransferSyntaxUID = ImplicitVRLittleEndian if ts == 'implicit' else ExplicitVRLittleEndian
    ds.file_meta.MediaStorageSOPClassUID = ds.SOPClassUID
    ds.file_meta.MediaStorageSOPInstanceUID = ds.SOPInstanceUID
    bio = io.BytesIO()
    dcmwrite(bio, ds, enforce_file_format=True)
    bio.seek(0)
    return dcmread(bio).ConceptNameCodeSequence[0]


def _make(sp):
    from pydicom import Dataset
    from pydicom.sr.coding import Code
    from highdicom.sr.coding import CodedConcept
    r = sp['route']
    args = (sp['v'], sp['s'], sp['m'], sp['ver'])
    if r == 'code':
        o = Code(*args)
    elif r == 'init':
        o = CodedConcept(*args)
    elif r == 'from_code':
        o = CodedConcept.from_code(Code(*args))
    elif r.startswith('ds:'):
        d = Dataset()
        setattr(d, r[3:], sp['v'])
        d.CodeMeaning = sp['m']
        d.CodingSchemeDesignator = sp['s']
        if sp['ver'] is not None:
            d.CodingSchemeVersion = sp['ver']
        o = CodedConcept.from_dataset(d)
    elif r == 'file':
        o = CodedConcept.from_dataset(_file_roundtrip(CodedConcept(*args), sp.get('ts', 'implicit')), copy=False)
    else:
        raise ValueError(r)
    b = sp.get('broken')
    if b is not None:
        if b == 0:
            for kw in ATTRS:
                if kw in o:
                    delattr(o, kw)
        elif b == 1:
            del o.CodeMeaning
        else:
            del o.CodingSchemeDesignator
    return o


def _in_set(a, b):
    s = {a}
    return b in s


def _in_dict(a, b):
    d = {a: 1}
    return d.get(b) == 1


def _observe_concept(c):
    return [getattr(c, 'CodeValue', None), getattr(c, 'LongCodeValue', None), getattr(c, 'URNCodeValue', None),
            c.value, catch(lambda: c.scheme_designator), catch(lambda: c.meaning), c.scheme_version]


def _strs(x):
    """observed attribute values must be plain str (or None / Err)"""
    return [v if (v is None or isinstance(v, (str, Err))) else f'<{type(v).__name__}>{v!r}' for v in x]


def run_impl(c):
    warnings.simplefilter('ignore')
    from pydicom import Dataset
    from pydicom.sr.coding import Code
    from highdicom.sr.coding import CodedConcept
    k = c['kind']
    if k in ('pair', 'pair_broken'):
        a, b = catch(_make, c['a']), catch(_make, c['b'])
        if isinstance(a, Err) or isinstance(b, Err):
            return ['construct', a if isinstance(a, Err) else b]
        key_a = c['a']['s'] + c['a']['v']
        return [catch(lambda: a == b), catch(lambda: b == a), catch(lambda: a != b), catch(lambda: b != a),
                catch(lambda: hash(a) == hash(b)), catch(_in_set, a, b), catch(_in_dict, b, a),
                catch(lambda: hash(a) == hash(key_a))]
    if k == 'triple':
        a, b, cc = catch(_make, c['a']), catch(_make, c['b']), catch(_make, c['c'])
        for x in (a, b, cc):
            if isinstance(x, Err):
                return ['construct', x]
        return [catch(lambda: a == b), catch(lambda: b == cc), catch(lambda: a == cc), catch(lambda: a == a)]
    if k == 'triple_row':
        a, b = catch(_make, c['a']), catch(_make, c['b'])
        if isinstance(a, Err) or isinstance(b, Err):
            return ['construct', a if isinstance(a, Err) else b]
        out = [catch(lambda: a == b)]
        for sp in alphabet(meanings=['Breast']):
            cc = catch(_make, dict(sp, route='code' if sp['route'] == 'code' else 'init'))
            out.append(cc if isinstance(cc, Err) else [catch(lambda: b == cc), catch(lambda: a == cc)])
        return out
    if k == 'store':
        r = catch(lambda: CodedConcept(c['v'], c['s'], c['m'], c['ver']))
        return r if isinstance(r, Err) else _strs(_observe_concept(r))
    if k == 'store_file':
        r = catch(lambda: CodedConcept(c['v'], c['s'], c['m'], c['ver']))
        if isinstance(r, Err):
            return r
        r2 = catch(lambda: CodedConcept.from_dataset(_file_roundtrip(r, c['ts'])))
        return r2 if isinstance(r2, Err) else _strs(_observe_concept(r2))
    if k in ('from_ds', 'from_ds_bad'):
        if c['arg'] != 'dataset':
            arg = {'none': None, 'dict': {'CodeValue': 'a', 'CodeMeaning': 'b', 'CodingSchemeDesignator': 'c'},
                   'code': Code('a', 'b', 'c'), 'str': 'abc'}[c['arg']]
            r = catch(lambda: CodedConcept.from_dataset(arg, copy=c['copy']))
            return r if isinstance(r, Err) else 'accepted'
        d = Dataset()
        for kw in ATTRS:
            if c['ds'][kw] is not None:
                setattr(d, kw, c['ds'][kw])
        if c['m'] is not None:
            d.CodeMeaning = c['m']
        if c['s'] is not None:
            d.CodingSchemeDesignator = c['s']
        if c['ver'] is not None:
            d.CodingSchemeVersion = c['ver']
        inner = Dataset()
        inner.CodeValue = 'inner'
        d.EquivalentCodeSequence = [inner]
        if c['orig_cc']:
            d.__class__ = CodedConcept
        r = catch(lambda: CodedConcept.from_dataset(d, copy=c['copy']))
        if isinstance(r, Err):
            return r
        obs = [r is d, type(d) is CodedConcept, type(r) is CodedConcept, _strs(_observe_concept(r))]
        r.CodeMeaning = 'changed'
        obs.append(getattr(d, 'CodeMeaning', None))
        # depth of the copy: is the nested item shared, and does a write through the result reach the original
        obs.append(r.EquivalentCodeSequence[0] is d.EquivalentCodeSequence[0])
        r.EquivalentCodeSequence[0].CodeValue = 'changed'
        obs.append(d.EquivalentCodeSequence[0].CodeValue == 'changed')
        return obs
    if k == 'from_code':
        sp = c['c']
        if c['is_concept']:
            arg = catch(lambda: CodedConcept(sp['v'], sp['s'], sp['m'], sp['ver']))
            if isinstance(arg, Err):
                return arg
        else:
            arg = Code(sp['v'], sp['s'], sp['m'], sp['ver'])
        r = catch(lambda: CodedConcept.from_code(arg))
        if isinstance(r, Err):
            return r
        return [r is arg, _strs(_observe_concept(r))]
    if k == 'eq_any':
        o = catch(_make, c['a'])
        if isinstance(o, Err):
            return ['construct', o]
        if c['k'] == 0:
            sp = c['a']
            x = {'none': None, 'str': sp['v'], 'int': 3, 'tuple4': (sp['v'], sp['s'], sp['m'], sp['ver']),
                 'tuple3': (sp['v'], sp['s'], sp['m'])}[c['foreign']]
        else:
            x = _plain(c['attr'], c['c2'])
        return [catch(lambda: o == x), catch(lambda: x == o), catch(lambda: o != x), catch(lambda: x != o)]
    if k in ('set', 'set_broken'):
        objs = [catch(_make, sp) for sp in c['objs']]
        probes = [catch(_make, sp) for sp in c['probes']]
        for x in objs + probes:
            if isinstance(x, Err):
                return ['construct', x]

        def build():
            st, d = set(), {}
            for i, o in enumerate(objs):
                st.add(o)
                d[o] = i
            return st, d
        r = catch(build)
        if isinstance(r, Err):
            return r
        st, d = r
        ident = lambda coll: sorted(i for i, o in enumerate(objs) if any(o is e for e in coll))
        return [ident(st), [catch(lambda: x in st) for x in objs + probes],
                [next(i for i, o in enumerate(objs) if o is e) for e in d],
                [catch(lambda: d.get(x)) for x in objs + probes]]
    if k == 'store_file_vr':
        r = catch(lambda: CodedConcept(c['v'], c['s'], c['m'], c['ver']))
        if isinstance(r, Err):
            return r
        r2 = catch(lambda: CodedConcept.from_dataset(_file_roundtrip(r, c['ts'])))
        return r2 if isinstance(r2, Err) else _strs([_esc(x) for x in _observe_concept(r2)])
    if k == 'from_code_any':
        arg = _fc_arg(c)
        r = catch(lambda: CodedConcept.from_code(arg))
        if isinstance(r, Err):
            return r
        if type(r) is not CodedConcept:
            return ['not a CodedConcept: ' + type(r).__name__, None]
        return [r is arg, _strs(_observe_concept(r))]
    if k in ('history', 'history_edit', 'history_item', 'history_ext'):
        objs, results = [], []
        _run_ops(c['ops'], _cands(c['ops']), objs, results)
        return _history_final(objs, results, _cands(c['ops']))
    if k == 'history_xproc':
        # the first `cut` operations run in another interpreter (own hash salt); the population is pickled over
        objs, results = _xproc_child_call(c)
        _run_ops(c['ops'][c['cut']:], _cands(c['ops']), objs, results)
        return _history_final(objs, results, _cands(c['ops']))
    raise ValueError(k)


_ESC = {'\0': '~', '\t': '^', '\n': '|', '\r': '`'}


def _esc(x):
    """control characters as printable stand-ins (the model undoes it: unesc_char / esc_char)"""
    if not isinstance(x, str):
        return x
    assert not any(ch in x for ch in _ESC.values()), x
    return ''.join(_ESC.get(ch, ch) for ch in x)


FC_KW = ATTRS + ['CodeMeaning', 'CodingSchemeDesignator', 'CodingSchemeVersion']


def _fc_arg(c):
    """the argument of a from_code_any case: plain Dataset with the listed elements / None / int / str / tuple of str"""
    from pydicom import Dataset
    if c['arg'] == 'plain':
        d = Dataset()
        for kw in FC_KW:
            if c['ds'][kw] is not None:
                setattr(d, kw, c['ds'][kw])
        if c['seq']:
            inner = Dataset()
            inner.CodeValue = 'inner'
            d.EquivalentCodeSequence = [inner]
        return d
    if c['arg'] in ('none', 'int'):
        return None if c['arg'] == 'none' else 7
    return {'str': ''.join(c['l']), 'tuple': tuple(c['l']), 'list': list(c['l'])}[c['arg']]


def _cands(ops):
    """every string scheme + value that an object of this history can carry (hash(obj) is reported as the candidate
    with that hash, so the model can be compared on the hashed STRING)"""
    schemes, values = set(), set()
    for op in ops:
        t = op['op']
        if t == 'init':
            schemes.add(op['s']); values.add(op['v'])
        elif t == 'new':
            if op['s'] is not None:
                schemes.add(op['s'])
            values.update(v for v in op['ds'].values() if v is not None)
            if op['nested'] is not None:
                values.add(op['nested']['v'])
                if op['nested'].get('s') is not None:
                    schemes.add(op['nested']['s'])
        elif t == 'fc' and 'c' in op:
            schemes.add(op['c']['s']); values.add(op['c']['v'])
        elif t == 'setcode':
            values.add(op['v'])
        elif t == 'setscheme':
            schemes.add(op['s'])
    return sorted(s_ + v for s_ in schemes for v in values)


def _key_of(h, cands):
    for k in cands:
        if hash(k) == h:
            return k
    return '?no candidate scheme+value has this hash'


def _index(objs, o):
    for i, e in enumerate(objs):
        if e is o:
            return i
    objs.append(o)
    if 'EquivalentCodeSequence' in o and not any(e is o.EquivalentCodeSequence[0] for e in objs):
        objs.append(o.EquivalentCodeSequence[0])      # (a shallow copy shares the item: already known)
    return _index(objs, o)


def _code_now(o):
    from pydicom.sr.coding import Code
    return Code(o.value, o.scheme_designator, 'x', o.scheme_version)


def _run_ops(ops, cands, objs, results):
    """run the operations of a history on the population `objs` (extended in place)"""
    import copy
    import pickle
    from pydicom.sr.coding import Code
    from highdicom.sr.coding import CodedConcept
    for op in ops:
        t = op['op']
        if t == 'init':
            r = catch(lambda: CodedConcept(op['v'], op['s'], op['m'], op['ver']))
        elif t == 'fc':
            arg = objs[op['a']] if 'a' in op else Code(op['c']['v'], op['c']['s'], op['c']['m'], op['c']['ver'])
            r = catch(lambda: CodedConcept.from_code(arg))
        elif t == 'fd':
            arg = objs[op['a']] if op['a'] is not None else 'not a dataset'
            r = catch(lambda: CodedConcept.from_dataset(arg, copy=op['copy']))
        elif t == 'new':
            r = _plain(None, None, op)
        elif t == 'setm':
            objs[op['a']].CodeMeaning = op['m']
            r = objs[op['a']]
        elif t == 'setn':
            def setn():
                it = objs[op['a']].EquivalentCodeSequence[0]
                it.CodeMeaning = op['m']
                return it
            r = catch(setn)
        elif t == 'setcode':
            r = objs[op['a']]
            for kw in ATTRS:
                if kw != op['attr'] and kw in r:
                    delattr(r, kw)
            setattr(r, op['attr'], op['v'])
        elif t == 'setscheme':
            r = objs[op['a']]
            r.CodingSchemeDesignator = op['s']
        elif t == 'setver':
            r = objs[op['a']]
            if op['ver'] is not None:
                r.CodingSchemeVersion = op['ver']
            elif 'CodingSchemeVersion' in r:
                del r.CodingSchemeVersion
        elif t == 'clone':
            src = objs[op['a']]
            r = copy.deepcopy(src) if op['how'] == 'deepcopy' else pickle.loads(pickle.dumps(src))
        elif t == 'del':
            r = objs[op['a']]
            for kw in (ATTRS if op['k'] == 0 else ['CodeMeaning'] if op['k'] == 1 else ['CodingSchemeDesignator']):
                if kw in r:
                    delattr(r, kw)
        elif t == 'shallow':
            src = objs[op['a']]
            r = copy.copy(src) if op['how'] == 'copy.copy' else src.copy()
        elif t == 'eq':
            results.append(catch(lambda: objs[op['a']] == objs[op['b']]))
            continue
        elif t == 'hash':
            def hash_():
                o = objs[op['a']]
                h = hash(o)
                return [_key_of(h, cands), h == hash(_code_now(o))]
            results.append(catch(hash_))
            continue
        elif t == 'lookup':
            def lookup():
                oa, ob = objs[op['a']], objs[op['b']]
                st, d = {oa}, {oa: 1}
                r = [ob in st, d.get(ob) == 1]
                ca, cb = _code_now(oa), _code_now(ob)
                return r + [cb in st, ob in {ca}, ca in st, oa in {ca}]
            results.append(catch(lookup))
            continue
        else:
            raise ValueError(t)
        results.append(r if isinstance(r, Err) else _index(objs, r))


def _history_final(objs, results, cands):
    from highdicom.sr.coding import CodedConcept
    final = [[type(o) is CodedConcept] + _strs([getattr(o, kw, None) for kw in ATTRS + ['CodeMeaning',
             'CodingSchemeDesignator', 'CodingSchemeVersion']]) for o in objs]
    kids = [_index(objs, o.EquivalentCodeSequence[0]) if 'EquivalentCodeSequence' in o else None for o in list(objs)]
    hashes = [catch(lambda: _key_of(hash(o), cands)) for o in objs]
    return [results, final, kids, hashes]


_CHILD_MARK = b'\n===C17-XPROC-PICKLE===\n'


def _xproc_child_call(c):
    """run ops[:cut] in a fresh interpreter with its own PYTHONHASHSEED and unpickle its population here"""
    import json
    import pickle
    import subprocess
    seed = c['hseed']
    if str(seed) == os.environ.get('PYTHONHASHSEED'):
        seed += 1
    env = dict(os.environ, PYTHONHASHSEED=str(seed), PYTHONDONTWRITEBYTECODE='1')
    payload = json.dumps({'ops': c['ops'][:c['cut']], 'cands': _cands(c['ops'])})
    p = subprocess.run([sys.executable, os.path.abspath(__file__), '--xproc-child'], input=payload.encode(), env=env,
                       stdout=subprocess.PIPE, stderr=subprocess.PIPE, timeout=300)
    if p.returncode != 0 or _CHILD_MARK not in p.stdout:
        raise RuntimeError('xproc child failed: ' + p.stderr.decode(errors='replace')[-1500:])
    objs, results = pickle.loads(p.stdout.split(_CHILD_MARK, 1)[1])
    return objs, results


def _xproc_child_main():
    import json
    import pickle
    warnings.simplefilter('ignore')
    req = json.loads(sys.stdin.read())
    common.import_highdicom()
    objs, results = [], []
    _run_ops(req['ops'], req['cands'], objs, results)
    sys.stdout.flush()
    sys.stdout.buffer.write(_CHILD_MARK + pickle.dumps((objs, results)))
    sys.stdout.buffer.flush()
    return 0


def _plain(attr, sp, op=None):
    """a plain pydicom Dataset holding a code"""
    from pydicom import Dataset
    d = Dataset()
    if op is None:
        setattr(d, attr, sp['v'])
        m, s_, ver, nested = sp['m'], sp['s'], sp['ver'], None
    else:
        for kw in ATTRS:
            if op['ds'][kw] is not None:
                setattr(d, kw, op['ds'][kw])
        m, s_, ver, nested = op['m'], op['s'], op['ver'], op['nested']
    if m is not None:
        d.CodeMeaning = m
    if s_ is not None:
        d.CodingSchemeDesignator = s_
    if ver is not None:
        d.CodingSchemeVersion = ver
    if nested is not None:
        inner = Dataset()
        inner.CodeValue = nested['v']
        inner.CodeMeaning = nested['m']
        if nested.get('s') is not None:
            inner.CodingSchemeDesignator = nested['s']
        d.EquivalentCodeSequence = [inner]
    return d


# --------------------------------------------------------------------------------------------
# model side
# --------------------------------------------------------------------------------------------
def _ostr(x):
    return 'None' if x is None else f'(Some {coq_string(x)})'


def _code(sp):
    return f"(Code {coq_string(sp['v'])} {coq_string(sp['s'])} {coq_string(sp['m'])} {_ostr(sp['ver'])})"


_ATTR = {'CodeValue': 'ACodeValue', 'LongCodeValue': 'ALongCodeValue', 'URNCodeValue': 'AURNCodeValue'}


def _route(sp):
    r = sp['route']
    t = {'code': 'RtCode', 'init': 'RtInit', 'file': 'RtInit', 'from_code': 'RtFromCode'}.get(r)
    if t is None:
        t = f'(RtDataset {_ATTR[r[3:]]})'
    if sp.get('broken') is not None:
        t = f"(RtBroken {zlit(sp['broken'])} {t})"
    return t


def _table(*specs):
    """restriction of pydicom's SRT->SCT table to the values of the case"""
    from pydicom.sr._snomed_dict import mapping
    m = mapping['SRT']
    ent = sorted({(sp['v'], m[sp['v']]) for sp in specs if sp['v'] in m})
    return '[' + '; '.join(f'({coq_string(a)}, {coq_string(b)})' for a, b in ent) + ']'


def coq_term(c):
    k = c['kind']
    if k in ('pair', 'pair_broken'):
        a, b = c['a'], c['b']
        return f'(run_pair {_table(a, b)} {_route(a)} {_code(a)} {_route(b)} {_code(b)})'
    if k == 'triple':
        a, b, cc = c['a'], c['b'], c['c']
        return (f'(run_triple {_table(a, b, cc)} {_route(a)} {_code(a)} {_route(b)} {_code(b)} '
                f'{_route(cc)} {_code(cc)})')
    if k == 'triple_row':
        a, b = c['a'], c['b']
        sl = lambda xs: '[' + '; '.join(coq_string(x) for x in xs) + ']'
        tbl = _table(a, b, *[{'v': v} for v in VALUES])
        return (f'(run_triple_row {tbl} {_route(a)} {_code(a)} {_route(b)} {_code(b)} '
                f"(all_codes {sl(SCHEMES)} {sl(VALUES)} \"Breast\" [{'; '.join(_ostr(v) for v in VERSIONS)}]))")
    if k in ('store', 'store_file'):
        fn = 'run_store' if k == 'store' else 'run_store_file'
        return f"({fn} {coq_string(c['v'])} {coq_string(c['s'])} {coq_string(c['m'])} {_ostr(c['ver'])})"
    if k in ('from_ds', 'from_ds_bad'):
        cp = 'true' if c['copy'] else 'false'
        if c['arg'] != 'dataset':
            return f'(run_from_dataset None {cp})'
        d = c['ds']
        return (f"(run_from_dataset (Some (DS {_ostr(d['CodeValue'])} {_ostr(d['LongCodeValue'])} {_ostr(d['URNCodeValue'])} "
                f"{_ostr(c['m'])} {_ostr(c['s'])} {_ostr(c['ver'])} {'true' if c['orig_cc'] else 'false'})) {cp})")
    if k == 'from_code':
        return f"(run_from_code {'true' if c['is_concept'] else 'false'} {_code(c['c'])})"
    if k == 'eq_any':
        return (f"(run_eq_any {_table(c['a'])} {_route(c['a'])} {_code(c['a'])} {zlit(c['k'])} "
                f"{_ATTR[c['attr']]} {_code(c['c2'])})")
    if k in ('set', 'set_broken'):
        rl = lambda sps: '[' + '; '.join(f'({_route(sp)}, {_code(sp)})' for sp in sps) + ']'
        return f"(run_set {_table(*c['objs'], *c['probes'])} {rl(c['objs'])} {rl(c['probes'])})"
    if k == 'store_file_vr':
        return (f"(run_store_file_vr {coq_string(_esc(c['v']))} {coq_string(_esc(c['s']))} {coq_string(_esc(c['m']))} "
                f"{_ostr(_esc(c['ver']))})")
    if k == 'from_code_any':
        if c['arg'] == 'plain':
            d = c['ds']
            x = (f"(FCPlain (DS {' '.join(_ostr(d[kw]) for kw in FC_KW)} false) {'true' if c['seq'] else 'false'})")
        elif c['arg'] in ('none', 'int'):
            x = 'FCNotIterable'
        else:
            x = '(FCStrings [' + '; '.join(coq_string(e) for e in c['l']) + '])'
        return f'(run_from_code_any {x})'
    if k in ('history', 'history_edit', 'history_xproc', 'history_item', 'history_ext'):
        # (history_xproc: the pickle of the whole population into another interpreter is the identity on the model's heap)
        vs, terms = [], []
        for op in c['ops']:
            t = op['op']
            if t == 'init':
                vs.append({'v': op['v']})
                o = f"OInit {coq_string(op['v'])} {coq_string(op['s'])} {coq_string(op['m'])} {_ostr(op['ver'])}"
            elif t == 'fc':
                if 'a' in op:
                    o = f"OFromCode (RConcept {op['a']}%nat)"
                else:
                    vs.append(op['c'])
                    o = f"OFromCode (RCode {_code(op['c'])})"
            elif t == 'fd':
                arg = 'NotDataset' if op['a'] is None else f"(Addr {op['a']}%nat)"
                o = f"OFromDataset {arg} {'true' if op['copy'] else 'false'}"
            elif t == 'new':
                d = op['ds']
                vs += [{'v': v} for v in d.values() if v is not None]
                ds = lambda cv, lcv, urn, m, s_, ver: (f"(DS {_ostr(cv)} {_ostr(lcv)} {_ostr(urn)} {_ostr(m)} "
                                                        f"{_ostr(s_)} {_ostr(ver)} false)")
                n = op['nested']
                if n is not None:
                    vs.append({'v': n['v']})
                o = (f"ONewDataset {ds(d['CodeValue'], d['LongCodeValue'], d['URNCodeValue'], op['m'], op['s'], op['ver'])} "
                     + ('None' if n is None else f"(Some {ds(n['v'], None, None, n['m'], n.get('s'), None)})"))
            elif t == 'setm':
                o = f"OSetMeaning {op['a']}%nat {coq_string(op['m'])}"
            elif t == 'setn':
                o = f"OSetNestedMeaning {op['a']}%nat {coq_string(op['m'])}"
            elif t == 'setcode':
                vs.append({'v': op['v']})
                o = f"OSetCode {op['a']}%nat {_ATTR[op['attr']]} {coq_string(op['v'])}"
            elif t == 'setscheme':
                o = f"OSetScheme {op['a']}%nat {coq_string(op['s'])}"
            elif t == 'setver':
                o = f"OSetVersion {op['a']}%nat {_ostr(op['ver'])}"
            elif t == 'clone':
                o = f"OClone {op['a']}%nat"
            elif t == 'hash':
                o = f"OHash {op['a']}%nat"
            elif t == 'lookup':
                o = f"OLookup {op['a']}%nat {op['b']}%nat"
            elif t == 'eq':
                o = f"OEq {op['a']}%nat {op['b']}%nat"
            elif t == 'del':
                terms.append(f"ODelAttr {op['a']}%nat {zlit(op['k'])}")
                continue
            elif t == 'shallow':
                terms.append(f"OShallow {op['a']}%nat")
                continue
            else:
                raise ValueError(t)
            terms.append(f'Std ({o})' if k == 'history_ext' else o)
        return f"({'run_history2' if k == 'history_ext' else 'run_history'} {_table(*vs)} [{'; '.join(terms)}])"
    raise ValueError(k)


# --------------------------------------------------------------------------------------------
# independent oracle: the relations themselves
# --------------------------------------------------------------------------------------------
def _uri_form(v):
    """'definitely URN/URL form' / 'definitely not' / None = not classified by the oracle"""
    import re
    if re.match(r'urn:', v) or re.search(r'[A-Za-z0-9]://', v):
        return True
    if v.lower().startswith('urn') or '://' in v:
        return None
    return False


def _expected_attr(v):
    f = _uri_form(v)
    if f is None:
        return None
    return 'URNCodeValue' if f else ('LongCodeValue' if len(v) >= 17 else 'CodeValue')


def _check_concept(obs, v, s, m, ver, where, attr=None):
    cv, lcv, urn, value, scheme, meaning, version = obs
    present = [kw for kw, x in zip(ATTRS, (cv, lcv, urn)) if x is not None]
    if len(present) != 1:
        return f'{where}: code value stored in {present or "no attribute"}'
    if attr is not None and present != [attr]:
        return f'{where}: value {v!r} (len {len(v)}) stored in {present[0]}, the standard assigns {attr}'
    if value != v or (cv, lcv, urn)[ATTRS.index(present[0])] != v:
        return f'{where}: value read back as {value!r}, stored {v!r}'
    if scheme != s or meaning != m or version != ver:
        return f'{where}: (scheme, meaning, version) read back as {(scheme, meaning, version)}, stored {(s, m, ver)}'
    return None


def oracle(c, out):
    k = c['kind']
    if k == 'pair':
        a, b = c['a'], c['b']
        if out and out[0] == 'construct':
            return f'construction of a valid code failed: {out[1]}'
        if any(isinstance(x, Err) for x in out):
            return f'comparison / hashing of two well-formed codes raised: {out}'
        eq_ab, eq_ba, ne_ab, ne_ba, heq, inset, indict, hkey = out
        if not hkey:
            return 'hash(a) is not the hash of scheme designator + value'
        want = ref_key(a) == ref_key(b)
        if eq_ab != eq_ba:
            return f'equality not symmetric: a==b is {eq_ab}, b==a is {eq_ba}'
        if eq_ab != want:
            return (f'a==b is {eq_ab} but (scheme, value, version) after SRT->SCT aliasing are '
                    f'{ref_key(a)} vs {ref_key(b)}')
        if ne_ab != (not eq_ab) or ne_ba != (not eq_ba):
            return f'!= is not the negation of ==: {out[:4]}'
        if a['s'] == b['s'] and a['v'] == b['v'] and not heq:
            return 'same scheme and value but different hash'
        if a['s'] == b['s'] and a['v'] == b['v'] and (inset != eq_ab or indict != eq_ab):
            return f'set/dict membership {inset}/{indict} differs from equality {eq_ab} for equal scheme and value'
        if (inset or indict) and not eq_ab:
            return 'set/dict treats unequal codes as one'
        return None
    if k == 'pair_broken':
        if out and out[0] == 'construct':
            return f'construction of a valid code failed: {out[1]}'
        for x in out:
            if not (x in (True, False) or (isinstance(x, Err) and x.kind in ('AttributeError', 'TypeError'))):
                return f'unexpected outcome {x} on a concept with deleted attributes'
        return None
    if k == 'triple':
        if out and out[0] == 'construct':
            return f'construction of a valid code failed: {out[1]}'
        if any(isinstance(x, Err) for x in out):
            return f'comparison of well-formed codes raised: {out}'
        ab, bc, ac, aa = out
        if aa is not True:
            return 'a == a is False'
        if ab and bc and not ac:
            return 'equality not transitive: a==b and b==c but not a==c'
        for (x, y, r) in ((c['a'], c['b'], ab), (c['b'], c['c'], bc), (c['a'], c['c'], ac)):
            if r != (ref_key(x) == ref_key(y)):
                return f'equality {r} but reference keys {ref_key(x)} vs {ref_key(y)}'
        return None
    if k == 'triple_row':
        if out and out[0] == 'construct':
            return f'construction of a valid code failed: {out[1]}'
        ab = out[0]
        coll = alphabet(meanings=['Breast'])
        if len(out) != 1 + len(coll):
            return 'harness: row length'
        if ab != (ref_key(c['a']) == ref_key(c['b'])):
            return f'a==b is {ab} but reference keys are {ref_key(c["a"])} vs {ref_key(c["b"])}'
        for sp, r in zip(coll, out[1:]):
            if isinstance(r, Err) or any(isinstance(x, Err) for x in r):
                return f'comparison with {sp} raised: {r}'
            bc, ac = r
            if ab and bc and not ac:
                return f'equality not transitive: a==b and b==c but not a==c for c={sp}'
            if bc != (ref_key(c['b']) == ref_key(sp)) or ac != (ref_key(c['a']) == ref_key(sp)):
                return f'b==c is {bc}, a==c is {ac} for c={sp}; reference keys disagree'
        return None
    if k in ('store', 'store_file'):
        if len(c['m']) > 64:
            return None if out == Err('ValueError') else f'meaning of {len(c["m"])} characters accepted: {out}'
        if isinstance(out, Err):
            return f'valid code refused: {out}'
        if k == 'store_file':
            # in a file trailing blanks are padding (PS3.5 6.2): not significant, removed by the reader
            rs = lambda x: None if x is None else x.rstrip(' ')
            return _check_concept(out, rs(c['v']), rs(c['s']), rs(c['m']), rs(c['ver']), k, _expected_attr(c['v']))
        return _check_concept(out, c['v'], c['s'], c['m'], c['ver'], k, _expected_attr(c['v']))
    if k in ('from_ds', 'from_ds_bad'):
        if c['arg'] != 'dataset':
            return None if out == Err('TypeError') else f'non-dataset argument gave {out}'
        present = [kw for kw in ATTRS if c['ds'][kw] is not None]
        ok = len(present) == 1 and c['m'] is not None and c['s'] is not None
        if not ok:
            return None if out == Err('AttributeError') else \
                f'dataset with code-value attributes {present}, meaning {c["m"]}, scheme {c["s"]} gave {out}'
        if isinstance(out, Err):
            return f'dataset that is exactly one code refused: {out}'
        same, orig_is_cc, res_is_cc, obs, orig_meaning, nested_shared, nested_written = out
        if nested_shared != (not c['copy']) or nested_written != (not c['copy']):
            return f'copy={c["copy"]}: nested sequence item shared={nested_shared}, write reached original={nested_written}'
        if not res_is_cc:
            return 'result is not a CodedConcept'
        m = _check_concept(obs, c['ds'][present[0]], c['s'], c['m'], c['ver'], 'from_dataset', present[0])
        if m:
            return m
        if c['copy']:
            if same:
                return 'copy=True returned the dataset itself'
            if orig_is_cc != c['orig_cc']:
                return 'copy=True changed the class of the original dataset'
            if orig_meaning != c['m']:
                return 'copy=True: writing to the result changed the original'
        else:
            if not same:
                return 'copy=False returned a different object'
            if not orig_is_cc or orig_meaning != 'changed':
                return 'copy=False: result does not alias the dataset'
        return None
    if k == 'from_code':
        sp = c['c']
        if len(sp['m']) > 64:
            return None if out == Err('ValueError') else f'meaning of {len(sp["m"])} characters accepted'
        if isinstance(out, Err):
            return f'valid code refused: {out}'
        same, obs = out
        if same != c['is_concept']:
            return f'from_code identity: result is argument = {same}, argument is a concept = {c["is_concept"]}'
        return _check_concept(obs, sp['v'], sp['s'], sp['m'], sp['ver'], 'from_code', _expected_attr(sp['v']))
    if k == 'eq_any':
        if out and out[0] == 'construct':
            return f'construction of a valid code failed: {out[1]}'
        eq_ox, eq_xo, ne_ox, ne_xo = out
        if c['a']['route'] == 'code':
            # pydicom Code against a non-code: pydicom raises AttributeError (not highdicom code, not judged)
            return None if eq_ox == eq_xo else f'Code vs non-code: {out}'
        if any(isinstance(x, Err) for x in out):
            return f'comparison of a coded concept with a non-code value raised: {out}'
        if eq_ox != eq_xo or ne_ox != (not eq_ox) or ne_xo != (not eq_xo):
            return f'== / != against a non-code value inconsistent: {out}'
        if c['k'] == 0:
            return None if eq_ox is False else f'a coded concept equals the non-code value {c["foreign"]}'
        a, b = c['a'], c['c2']
        differs = any(a[f] != b[f] for f in ('v', 's', 'm', 'ver'))
        if eq_ox and differs:
            return 'a coded concept equals a plain dataset with different content'
        stored = a['route'][3:] if a['route'].startswith('ds:') else _expected_attr(a['v'])
        if not differs and stored is not None and stored == c['attr'] and not eq_ox:
            return 'a coded concept differs from the plain dataset holding the same elements'
        return None
    if k == 'set':
        if out and out[0] == 'construct':
            return f'construction of a valid code failed: {out[1]}'
        if isinstance(out, Err):
            return f'building a set / dict of well-formed codes raised {out}'
        kept, member, dkeys, got = out
        objs, allp = c['objs'], c['objs'] + c['probes']
        same = lambda x, y: x['s'] + x['v'] == y['s'] + y['v'] and ref_key(x) == ref_key(y)
        want_kept = [i for i, o in enumerate(objs) if not any(same(objs[j], o) for j in range(i))]
        if kept != want_kept or dkeys != want_kept:
            return f'set keeps {kept}, dict keys {dkeys}; one representative per class would be {want_kept}'
        for x, mem, g in zip(allp, member, got):
            hits = [i for i, o in enumerate(objs) if same(o, x)]
            if isinstance(mem, Err) or isinstance(g, Err):
                return f'lookup of a well-formed code raised: {mem} {g}'
            if mem != bool(hits):
                return f'membership {mem} but stored codes with the same scheme, value and version: {hits}'
            if g != (hits[-1] if hits else None):
                return f'dict lookup gave {g}, last write to an equal key was {hits[-1] if hits else None}'
        return None
    if k == 'set_broken':
        if isinstance(out, Err):
            return None if out.kind in ('AttributeError', 'TypeError') else f'unexpected {out}'
        for x in out[1] + out[3]:
            if isinstance(x, Err) and x.kind not in ('AttributeError', 'TypeError'):
                return f'unexpected outcome {x} on a concept with deleted attributes'
        return None
    if k == 'store_file_vr':
        # in a file trailing padding is not significant (PS3.5 6.2: blank, and NUL as written by other implementations; for
        # UR also trailing white space): the value read back is the value stored without it, and unchanged when it has none
        if isinstance(out, Err):
            return f'valid code refused: {out}'
        attr = _expected_attr(c['v'])
        ws = ' \t\n\x0b\x0c\r\x1c\x1d\x1e\x1f'
        rs = lambda x: None if x is None else _esc(x.rstrip('\0 '))
        v = _esc(c['v'].rstrip(ws)) if attr == 'URNCodeValue' else rs(c['v'])
        return _check_concept(out, v, rs(c['s']), rs(c['m']), rs(c['ver']), k, attr)
    if k == 'from_code_any':
        # from_code accepts exactly: 3 or 4 strings (value, scheme, meaning[, version]) with a meaning of <= 64 characters
        if c['arg'] in ('str', 'tuple', 'list') and len(c['l']) in (3, 4):
            l = c['l']
            if len(l[2]) > 64:
                return None if out == Err('ValueError') else f'meaning of {len(l[2])} characters accepted: {out}'
            if isinstance(out, Err):
                return f'from_code refused the code {l}: {out}'
            if out[0]:
                return 'from_code returned its (non-concept) argument'
            return _check_concept(out[1], l[0], l[1], l[2], l[3] if len(l) == 4 else None, 'from_code', _expected_attr(l[0]))
        if not isinstance(out, Err):
            return f'from_code accepted {c}: {out}'
        if out.kind not in ('TypeError', 'AttributeError'):
            return f'from_code raised {out}'
        return None
    if k in ('history', 'history_edit', 'history_xproc', 'history_item', 'history_ext'):
        results, final, kids, hashes = out
        ext = k == 'history_ext'
        # every object of class CodedConcept is exactly one code (the invariant of the API; a user who DELETES attributes
        # afterwards - history_ext - leaves it)
        for i, (cc, cv, lcv, urn, m, s_, ver) in enumerate(final):
            if not ext and cc and (sum(x is not None for x in (cv, lcv, urn)) != 1 or m is None or s_ is None):
                return f'object {i} is a CodedConcept but not exactly one code: {final[i]}'
        owners = {}
        for a, kk in enumerate(kids):
            if kk is not None and not ext:       # (a shallow copy - history_ext - shares the item by definition)
                if kk in owners:
                    return f'objects {owners[kk]} and {a} share the nested item {kk} (copy is not deep)'
                owners[kk] = a
        if ext:
            # a shallow copy and its source stay ONE code: same elements at the end whatever was edited through either
            for op, r in zip(c['ops'], results):
                if op['op'] == 'shallow':
                    if isinstance(r, Err) or r == op['a']:
                        return f'shallow copy of object {op["a"]} gave {r}'
                    if final[r][1:] != final[op['a']][1:] or kids[r] != kids[op['a']]:
                        return (f'shallow copy {r} of object {op["a"]} carries other elements at the end: {final[r]} vs '
                                f'{final[op["a"]]}')
        n = 0
        for op, r in zip(c['ops'], results):
            if op['op'] == 'init':
                if (len(op['m']) > 64) != (r == Err('ValueError')):
                    return f'CodedConcept(meaning of {len(op["m"])} characters) gave {r}'
            if op['op'] == 'fc' and op.get('plain'):
                if not (isinstance(r, Err) and r.kind in ('TypeError', 'AttributeError')):
                    return f'from_code(plain Dataset {op["a"]}) gave {r}'
            elif op['op'] == 'fc' and 'a' in op and r != op['a']:
                return f'from_code(concept {op["a"]}) returned {r}, not the concept itself'
            if op['op'] == 'fd':
                if op['a'] is None and r != Err('TypeError'):
                    return f'from_dataset(non-dataset) gave {r}'
                if op['a'] is not None and not isinstance(r, Err) and (r == op['a']) == op['copy']:
                    return f'from_dataset(copy={op["copy"]}) of object {op["a"]} returned object {r}'
                if isinstance(r, Err) and r.kind not in ('AttributeError', 'TypeError'):
                    return f'from_dataset raised {r}'
            if op['op'] == 'clone' and (isinstance(r, Err) or r == op['a']):
                return f'deepcopy / pickle of object {op["a"]} gave {r}'
            if op['op'] == 'hash':
                # a plain Dataset is unhashable (pydicom); a concept must hash like the Code of its current scheme + value
                if isinstance(r, Err):
                    if r.kind != 'TypeError' and not (ext and r.kind == 'AttributeError'):
                        return f'hash(object {op["a"]}) raised {r}'
                elif r[1] is not True:
                    return (f'operation {n}: hash(object {op["a"]}) is the hash of {r[0]!r}, not the hash of the pydicom Code '
                            f'with the scheme and value the object carries at that moment')
            if op['op'] == 'lookup':
                if isinstance(r, Err):
                    if r.kind != 'TypeError' and not (ext and r.kind == 'AttributeError'):
                        return f'set / dict keyed by object {op["a"]} raised {r}'
                else:
                    b_in_a, b_get_a, cb_in_a, b_in_ca, ca_in_a, a_in_ca = r
                    if not (ca_in_a and a_in_ca):
                        return (f'operation {n}: object {op["a"]} and the pydicom Code with its current scheme, value and '
                                f'version do not find each other: Code in {{obj}} = {ca_in_a}, obj in {{Code}} = {a_in_ca}')
                    if len({b_in_a, b_get_a, cb_in_a, b_in_ca}) != 1:
                        return (f'operation {n}: lookups that differ only in the class representing a code disagree: '
                                f'b in {{a}} = {b_in_a}, {{a: 1}}.get(b) = {b_get_a}, Code(b) in {{a}} = {cb_in_a}, '
                                f'b in {{Code(a)}} = {b_in_ca}')
                    if op['a'] == op['b'] and not b_in_a:
                        return f'operation {n}: object {op["a"]} is not found in the set that holds it'
            n += 1
        # at the end every concept hashes as scheme designator + value it carries NOW, whatever its past
        for i, ((cc, cv, lcv, urn, m, s_, ver), hk) in enumerate(zip(final, hashes)):
            if cc and ext and (s_ is None or (cv, lcv, urn) == (None, None, None)):
                # malformed (attributes deleted by the user): hash must refuse, not invent a key
                if hk != Err('AttributeError' if s_ is None else 'TypeError'):
                    return f'object {i} has no {"scheme" if s_ is None else "code value"} at the end but hash(object) gave {hk}'
            elif cc:
                want = s_ + next(x for x in (cv, lcv, urn) if x is not None)
                if hk != want:
                    return (f'object {i} carries scheme + value {want!r} at the end of the history but hash(object) is '
                            f'{"the hash of " + repr(hk) if isinstance(hk, str) and not hk.startswith("?") else hk}: '
                            f'not the hash of the pydicom Code / a fresh CodedConcept with the same scheme and value')
        return None
    return f'unknown kind {k}'


def nontrivial(c, out):
    k = c['kind']
    if k == 'pair':
        return c['a'] != c['b'] and out[0] is True
    if k == 'triple':
        return bool(out[0] and out[1]) and not (c['a'] == c['b'] == c['c'])
    if k == 'triple_row':
        return out[0] is True
    if k in ('store', 'store_file'):
        return not isinstance(out, Err) and out[0] is None
    if k == 'from_ds':
        return True
    if k == 'from_code':
        return not isinstance(out, Err)
    if k == 'eq_any':
        return out[0] is True or c['k'] != 1
    if k == 'set':
        return not isinstance(out, Err) and len(out[0]) < len(c['objs'])
    if k == 'history':
        return any(op['op'] == 'fd' and not isinstance(r, Err) for op, r in zip(c['ops'], out[0]))
    if k == 'store_file_vr':
        return not isinstance(out, Err) and any(_esc(x) != y for x, y in ((c['v'], out[3]), (c['s'], out[4]), (c['m'], out[5])))
    if k == 'from_code_any':
        return c['arg'] == 'plain' or not isinstance(out, Err)
    if k == 'history_item':
        # a nested item went through the API, or a plain dataset was refused by from_code
        return any((op['op'] == 'fc' and op.get('plain')) or
                   (op['op'] in ('fd', 'hash', 'lookup', 'clone', 'setcode') and op.get('a') is not None and
                    op['a'] < len(out[2]) and op['a'] in out[2]) for op in c['ops'])
    if k == 'history_ext':
        return any(op['op'] in ('shallow', 'del') for op in c['ops'])
    if k in ('history_edit', 'history_xproc'):
        # an object that was used as a key and edited (itself, or a copy of it) afterwards
        seen = False
        for op, r in zip(c['ops'], out[0]):
            if op['op'] in ('hash', 'lookup') and not isinstance(r, Err):
                seen = True
            if seen and op['op'] in ('setcode', 'setscheme'):
                return True
        return k == 'history_xproc' and seen
    return True


def shrink(c):
    k = c['kind']
    if k in ('pair', 'pair_broken', 'triple', 'triple_row'):
        for key in ('a', 'b', 'c'):
            if key not in c:
                continue
            sp = c[key]
            if sp['route'] not in ('code', 'init'):
                yield dict(c, **{key: dict(sp, route='init')})
            if sp['m'] != 'm':
                yield dict(c, **{key: dict(sp, m='m')})
            if sp['ver'] is not None:
                yield dict(c, **{key: dict(sp, ver=None)})
    if k in ('store', 'store_file'):
        if len(c['v']) > 1:
            yield dict(c, v=c['v'][:-1])
            yield dict(c, v=c['v'][1:])
        if c['ver'] is not None:
            yield dict(c, ver=None)
        if c['m'] != 'm' and len(c['m']) <= 64:
            yield dict(c, m='m')
    if k in ('from_ds', 'from_ds_bad') and c.get('arg') == 'dataset':
        if c['ver'] is not None:
            yield dict(c, ver=None)
        if c['orig_cc']:
            yield dict(c, orig_cc=False)
    if k in ('history', 'history_edit', 'history_xproc', 'history_item', 'history_ext'):
        ops = c['ops']

        def with_ops(new_ops):
            d = dict(c, ops=new_ops)
            if k == 'history_xproc':
                d['cut'] = max(1, min(c['cut'], len(new_ops)))
            return d
        if len(ops) > 1:
            yield with_ops(ops[:-1])
        # operations that create no object can be dropped without renumbering the others
        for i in range(len(ops) - 1, -1, -1):
            if len(ops) > 1 and ops[i]['op'] in ('hash', 'lookup', 'eq', 'setm', 'setn', 'setcode', 'setscheme', 'setver', 'del'):
                yield with_ops(ops[:i] + ops[i + 1:])
        if k == 'history_xproc' and c['cut'] > 1:
            yield dict(c, cut=c['cut'] - 1)


def extra_obligations(work):
    # T-int: the part of the model that is re-translated from the current source
    import translate_int
    return translate_int.obligations(work, translate_int.FOR['C17'])


if __name__ == '__main__':
    if sys.argv[1:2] == ['--xproc-child']:
        sys.exit(_xproc_child_main())
    sys.exit(common.main(sys.modules[__name__]))
